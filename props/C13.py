"""C13: algebra options change speed, never results."""
from contracts import codegen_c as C
from contracts import dispatch_c as D
from . import common as K

LEVEL = 'other'
EXPLANATION = ('Proved: the option-independent parts -- the codegen contracts hold for any symbol class satisfying the mathstr / ring interface; '
               'OperatorDict.__getitem__ stores wrapper(func) under the function name and calls by name only when a wrapper is set, so a '
               'semantics-preserving wrapper cannot change results; pretty-printing options are read only by _bin2canon_prettystr (frame).  '
               'Bounded: differential runs over {cse} x {graded} x {codegen_symbolcls} x {wrapper} on the real package, d<=4, grade-block patterns.  '
               'Known findings (graded mode): composite operators raise, results are not grade-complete.')
TRUSTED = ['z3 5.1 (python API)', 'kvc VC generator', 'CPython ast module']
ASSUMPTIONS = [K.ASSUME_CPYTHON, K.ASSUME_TAIL, 'wrapper is semantics-preserving (property precondition)', 'sympy printing/CSE exactness']
ASSUMED = ['do_codegen branch on algebra.cse (func_builder vs lambdify): same assumed evaluation contract on both branches; bounded stand-in']


def build(H, tier, seed):
    C.vc_mathstr(H)
    C.vc_codegen_product(H)
    D.vc_getitem(H, 'OperatorDict')
    D.vc_getitem(H, 'UnaryOperatorDict')
    D.vc_call_binary(H)
    D.vc_unary_call(H)
    from contracts import codegen_glue_c as G
    G.vc_do_codegen(H)
    G.vc_func_builder(H)
    from contracts import options_c as O
    O.vc_options(H)
    from contracts import misc_c as MC
    # codegen_sqrt's text splicing (defect F6) is option-dependent only through the symbol class: decided by the options stand-in
    # (Study-number sqrt across symbol classes); its formula clauses belong to C19 / C08


def standins(tier, seed):
    ops = ['gp', 'op', 'ip', 'lc', 'rc', 'sp', 'cp', 'acp', 'add', 'sub', 'rp', 'sw', 'proj', 'div', 'neg', 'reverse', 'involute', 'conjugate',
           'normsq', 'hodge', 'unhodge', 'inv', 'outerexp', 'sqrt']
    if tier == 'quick':
        cfgs = [dict(p=2, q=0, r=1, random=2, max_variants=8), dict(p=2, q=1, random=2, max_variants=6), dict(p=1, random=2)]
    else:
        cfgs = [dict(p=p, q=q, r=r, random=4) for (p, q, r) in [(1, 0, 0), (2, 0, 0), (1, 1, 0), (2, 0, 1), (1, 1, 1), (3, 0, 0), (2, 1, 0), (3, 0, 1), (2, 2, 0), (2, 1, 1)]]
    # wide outputs (more than 32 result blades, 6-D): the cse and the func_builder branch of code generation must agree there too
    wide = [dict(p=6, random=1, grades_a=(1,), grades_b=(2, 3), ops=['gp', 'sw', 'proj', 'add', 'reverse'],
                 variants=[dict(cse=True, graded=False), dict(cse=False, graded=False)]),
            dict(p=5, q=1, random=1, grades_a=(2, 3), grades_b=(1,), ops=['gp', 'normsq', 'proj', 'op'],
                 variants=[dict(cse=True, graded=False), dict(cse=False, graded=False)])]
    cfgs = cfgs + (wide[:1] if tier == 'quick' else wide)
    # non-terminating outer series (scalar + bivector) in 4-D: small factorial coefficients must survive every symbol class alike
    cfgs.append(dict(p=4, random=2, study_outer=True, ops=['outertan', 'outerexp', 'outersin', 'outercos'],
                     variants=[dict(cse=True, graded=False), dict(cse=True, graded=False, symbolcls='sympy'), dict(cse=False, graded=False),
                               dict(cse=True, graded=False, wrapper='identity')]))
    # non-blade elements in 6-D: the general (Shirokov) inverse is the only code generator that re-uses intermediate sums, so it is where
    # the built-in polynomial class and sympy symbols can part ways (seeded change C13j)
    cfgs.append(dict(p=6, random=2, keys_pairs=[((0, 63), (1, 6)), ((1, 6), (0, 63))] if tier == 'quick' else [((0, 63), (1, 6)), ((1, 6), (0, 3, 12)), ((0, 3, 12), (0, 63))],
                     ops=['inv', 'div', 'normsq'],
                     variants=[dict(cse=True, graded=False), dict(cse=True, graded=False, symbolcls='sympy'), dict(cse=False, graded=False),
                               dict(cse=True, graded=False, wrapper='identity')]))
    # operands written with named blades (alg.blades): graded mode builds the blade of a name by its own route (seeded change C13l: slot of the
    # blade within its grade computed from the binary key, right only where canonical order is binary order)
    bb = [dict(cse=True, graded=False), dict(cse=True, graded=True), dict(cse=False, graded=False), dict(cse=True, graded=False, symbolcls='sympy')]
    cfgs.append(dict(p=4, random=3, blade_built=True, ops=['gp', 'add'], variants=bb))
    cfgs.append(dict(name='2DPGA', random=3, blade_built=True, ops=['gp', 'add'], variants=bb))
    if tier != 'quick':
        cfgs += [dict(p=3, q=0, r=1, random=4, blade_built=True, ops=['gp', 'op'], variants=bb), dict(name='3DPGA', random=3, blade_built=True, ops=['gp', 'op'], variants=bb),
                 dict(p=4, q=1, random=2, blade_built=True, ops=['add'], variants=bb)]
    names = [{'name': 'typeid', 'bound': 'generated function names pairwise distinct across all operators and all ordered key tuples (d<=2 exhaustive, d=3 up to length 3): with a wrapper set functions are called by name',
              'job': {'kind': 'typeid', 'module': 'standins.jobs2', 'configs': [dict(p=1), dict(p=2), dict(p=2, q=0, r=1, maxlen=2)]}}]
    groups = [[(1, -1), (-1, 1)], [(1, 0), (0, 1)], [(1, 1, -1), (-1, 1, 1), (1, -1, 1)]]
    if tier != 'quick':
        groups += [[(1, 1, 0), (0, 1, 1)], [(1, -1, 0), (0, -1, 1), (-1, 0, 1)], [(1, 1, 1, -1), (-1, 1, 1, 1)]]
    names.append({'name': 'wrapper_twins', 'bound': 'signatures with equal (p,q,r) and different generator order built one after the other in one process with one shared pass-through wrapper object; 22 operators x 6 key-pattern pairs, fixed Fraction operands; compared with the same algebra without a wrapper',
                  'job': {'kind': 'wrapper_twins', 'module': 'standins.jobs7', 'groups': groups}})
    return names + [{'name': f'options#{i}', 'bound': 'grade-block operand pairs per signature x the product (sampled in quick) of cse x graded x symbol class x wrapper; Fraction values; every operator compared with the default-options algebra',
             'job': {'kind': 'options', 'module': 'standins.jobs5', 'ops': ops, 'configs': [c], 'seed': seed + i}} for i, c in enumerate(cfgs)]
