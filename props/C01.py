"""C01: basis-blade products follow the Clifford relations of the chosen signature."""
import itertools
from contracts import algebra_c as A
from lemmas import table as T
from . import common as K

LEVEL = 'proof'
EXPLANATION = ('_swap_blades: loop invariants per concrete list length n <= 16 with symbolic characters (complete: the naming '
               'scheme has 16 hex digits), parities in XOR-normal form: par(swaps) == Inv(b1++b2) xor P(result).  '
               '_compute_sign: loop invariant sign == (-1)^swaps * product of the metric of the eliminated generators.  '
               '_prepare_signs / DefaultKeyDict.__missing__: every entry is _compute_sign of its pair (eager or lazy).  '
               'default naming comprehension, custom-basis branch of __post_init__ (generic basis: start_index, vec2bin, canon2bin fold, bin2canon order), cayley loop, _blade2canon, BladeDict.__getitem__.  Lemma library over symbolic '
               'signature masks (all (p,q,r), all orderings, d <= 16): associativity, squares, anticommutation, unit, '
               'ordered products, orientation twist.  Bounded: tables stand-in compares the real tables with an independent '
               'reference built from the blade names only.')
TRUSTED = ['z3 5.1 (python API), cvc5 1.0.3 / z3 4.8.12 CLIs as fall-back', 'kvc VC generator', 'CPython ast module']
ASSUMPTIONS = [K.ASSUME_CPYTHON,
               'representation bridge: the character-list quantities of the _swap_blades/_compute_sign contracts (inversion '
               'parity of spellings, pairs a>b across two spellings, fold of the metric over the common characters) equal '
               'their bitmask forms reorder_par / popcount-parity used by the lemma library (induction over list length, '
               'not mechanised; exercised by the tables stand-in)',
               'sign_spec is the coordinate multiplication table of Cl(p,q,r) w.r.t. ascending products (textbook)',
               'admissible basis: names are e + distinct hex digits of generators start_index..start_index+d-1 (a generator may be named e, index 14: '
               'since fix 57762e2 the spelling reaches _swap_blades without the name prefix)',
               'collections.Counter, numpy array indexing, re.match, hex()/int(,16) on single digits behave as documented',
               'custom-basis branch of __post_init__ (under contract for every well-formed basis: any number of names, lengths, '
               'characters): builtin contracts of min / sorted / enumerate and of a filtering list comprehension (the selected '
               'elements in source order) are assumed; well-formedness of the user-supplied basis (generator characters are '
               'vector names, pairwise distinct) is a precondition; indices_for_grade(s): tables stand-in only']
ASSUMED = ['signature ordering branch (r == 1 puts the null generator first): bounded stand-in only']


def build(H, tier, seed):
    A.vc_swap_blades(H, lengths=range(0, 17))
    A.vc_compute_sign(H)
    A.vc_prepare_signs(H)
    A.vc_default_naming(H)
    A.vc_custom_basis(H)
    A.vc_cayley(H)
    A.vc_blade2canon(H)
    A.vc_blade2canon_concrete(H)
    A.vc_blade2canon_concrete(H, d=4, start=12)      # generators c, d, e, f: one is named like the prefix of every blade name
    A.vc_bladedict_getitem(H)
    T.table_lemmas(H, tier)


def _custom_bases(rng, d, count):
    """admissible custom bases: generator order permutation x per-blade spelling permutation x within-grade order"""
    out = []
    for _ in range(count):
        start = rng.choice([0, 1, 2])
        gens = list(range(start, start + d))
        rng.shuffle(gens)
        basis = ['e']
        for g in range(1, d + 1):
            blades = []
            for comb in itertools.combinations(sorted(gens), g):
                comb = list(comb)
                rng.shuffle(comb)
                blades.append('e' + ''.join(format(c, 'x') for c in comb))
            if g == 1:
                blades = ['e' + format(c, 'x') for c in gens]
            else:
                rng.shuffle(blades)
            basis += blades
        sig = [rng.choice([1, -1, 0]) for _ in range(d)]
        out.append(dict(signature=sig, basis=basis))
    return out


def standins(tier, seed):
    import random
    rng = random.Random(seed)
    cfgs = []
    dmax = 4 if tier == 'quick' else 6
    for d in range(0, dmax + 1):
        sigs = list(itertools.product([1, -1, 0], repeat=d))
        if tier == 'quick' and len(sigs) > 12:
            sigs = rng.sample(sigs, 12)
        elif len(sigs) > 120:
            sigs = rng.sample(sigs, 120)
        for s in sigs:
            cfgs.append(dict(signature=list(s), start_index=rng.choice([0, 1, 2])) if d else dict(p=0))
    for p, q, r in [(2, 0, 1), (3, 0, 1), (1, 1, 1), (3, 1, 0), (4, 1, 0)]:
        cfgs.append(dict(p=p, q=q, r=r))
    cfgs += [dict(name='2DPGA'), dict(name='3DPGA'), dict(name='STAP')]
    # start indices for which a generator is named with a hex *letter*, in particular 'e' (index 14), the letter blade names start with
    cfgs += [dict(signature=[1, 1, 1, 1], start_index=12), dict(signature=[1, -1, 0], start_index=13), dict(signature=[0, 1], start_index=14),
             dict(signature=[1, -1, 1, 0, 1], start_index=10), dict(p=3, q=0, r=0, start_index=9)]
    # graded mode stores a blade as a one-hot vector over its grade: the blade dictionary has its own code path there
    cfgs += [dict(p=4, graded=True), dict(p=2, q=1, r=1, graded=True), dict(p=3, graded=True)] + ([dict(p=5, graded=True)] if tier != 'quick' else [])
    for d in (1, 2):
        cfgs += _custom_bases(rng, d, 6 if tier == 'quick' else 40)
    for d in (3, 4) + ((5,) if tier != 'quick' else ()):
        cfgs += _custom_bases(rng, d, 6 if tier == 'quick' else 40)
    cfgs += [dict(p=7, sample_pairs=300), dict(p=4, q=3, r=1, sample_pairs=200 if tier == 'quick' else 2000)]
    # lazily filled tables (d > 6): every kind of signature layout, incl. several null generators and mixed orderings
    big = [dict(p=4, q=1, r=2), dict(p=2, q=2, r=3), dict(p=5, q=2, r=0), dict(p=3, q=3, r=2)]
    for _ in range(3 if tier == 'quick' else 12):
        d = rng.choice([7, 7, 8])
        big.append(dict(signature=[rng.choice([1, -1, 0]) for _ in range(d)], start_index=rng.choice([0, 1])))
    for c in big:
        c['sample_pairs'] = 250 if tier == 'quick' else 2500
    cfgs += big
    chunks = [cfgs[i::12] for i in range(12)]
    bound = (f'all signature orderings d<=2, {"12 sampled" if tier == "quick" else "up to 120"} per d<={dmax}, start_index 0..2, '
             'named algebras, seeded custom bases d<=4(5), lazy path d=7,8 on sampled pairs; all ordered blade pairs per configuration (d<=6)')
    return [{'name': f'tables#{i}', 'bound': bound, 'job': {'kind': 'tables', 'configs': ch, 'seed': seed + i}}
            for i, ch in enumerate(chunks) if ch]
