"""C09: results depend only on the operands, never on earlier operations (sequential histories; threads not decided)."""
from contracts import dispatch_c as D
from . import common as K

LEVEL = 'other'
EXPLANATION = ('Data-structure invariant Inv(alg) over operator_dict / numspace: (1) every cache entry is the (keys_out, func) produced by '
               'one generation for that key tuple; (2) numspace[func.__name__] is that func (wrapped by algebra.wrapper if set); (3) entries '
               'are never replaced or deleted.  Proved for all sequential histories by preservation obligations on __getitem__ of the '
               'three classes (exact stores, nothing else written), and frame obligations on __call__/_call_binary/Registry.__call__ (no '
               'attribute or item of an operand is written; the result is a function of operands and cache only).  (2) needs function '
               'names to be unique per ordered key pattern: the naming helper _type_id is checked exhaustively for d <= 3 (bounded).  '
               'Thread interleavings and JIT wrappers: not decidable with per-call contracts -- not claimed.  State memoised on a multivector '
               '(per-object caches that outlive an in-place update of its coefficients) is outside every per-call contract: bounded stand-in '
               'inplace_history (op; in-place update; op, compared with a fresh algebra).  Known finding F19: the memoised _callable of a '
               'symbolic multivector.')
TRUSTED = ['z3 5.1 (python API)', 'kvc VC generator', 'CPython ast module']
ASSUMPTIONS = [K.ASSUME_CPYTHON, 'single-threaded execution: the thread-interleaving clause of C09 is NOT decided',
               'generated functions are pure (C02-C05: ring expressions of their arguments)',
               'wrapper is semantics-preserving (property precondition)']
ASSUMED = ['do_codegen/do_compile abstracted; uniqueness of generated function names per ordered pattern: bounded (exhaustive d<=3)']


def build(H, tier, seed):
    for cls in ('OperatorDict', 'UnaryOperatorDict', 'Registry'):
        D.vc_getitem(H, cls)
    D.vc_call_dispatch(H)
    D.vc_call_nary(H)
    D.vc_call_binary(H)
    D.vc_unary_call(H)
    D.vc_registry_call(H)
    from contracts import access_c as A
    A.vc_grade(H, frame=True)
    A.vc_trivial_accessors(H)
    A.vc_map_filter(H)


def standins(tier, seed):
    h, st = (4, 25) if tier == 'quick' else (25, 40)
    cfgs = [dict(p=2, q=1, histories=h, steps=st), dict(p=2, q=0, r=1, wrapper='identity', histories=h, steps=st),
            dict(p=3, histories=h, steps=st), dict(p=2, wrapper='identity', histories=h, steps=st)]
    if tier != 'quick':
        cfgs += [dict(p=3, q=0, r=1, histories=10, steps=30), dict(p=1, q=1, r=1, wrapper='identity', histories=10, steps=30),
                 dict(name='2DPGA', histories=10, steps=30), dict(p=2, q=2, cse=False, histories=8, steps=30)]
    jobs = [{'name': f'history#{i}', 'bound': f'{h} seeded histories x {st} steps per configuration over operators x 3 key sets and their permutations x registered (nested) functions x failing calls; wrapper None / identity; every step compared with a fresh algebra',
             'job': {'kind': 'history', 'module': 'standins.jobs2', 'configs': [c], 'seed': seed * 100 + i}} for i, c in enumerate(cfgs)]
    jobs.append({'name': 'inplace-history', 'bound': '18 operators x list / ndarray coefficients x seeded patterns per configuration: op(a, b), in-place update of a, op(a, b) compared with a fresh algebra on the current coefficients',
                 'job': {'kind': 'inplace_history', 'module': 'standins.jobs7', 'seed': seed,
                         'configs': [dict(p=3, random=3), dict(p=2, q=0, r=1, random=3)] if tier == 'quick' else [dict(p=3, random=10), dict(p=2, q=0, r=1, random=10), dict(p=2, q=1, random=8), dict(p=4, random=4), dict(name='2DPGA', random=6)]}})
    jobs.append({'name': 'typeid', 'bound': 'all ordered key tuples of every d<=2 algebra and all of length<=3 for d=3: generated function names are pairwise distinct',
                 'job': {'kind': 'typeid', 'module': 'standins.jobs2', 'configs': [dict(p=1), dict(p=2), dict(p=3, maxlen=3)]}})
    jobs.append({'name': 'aliasing', 'bound': 'grade-block, full, even and sparse operands x 16 accessors / unary / trivial binary calls per algebra: in-place writes into a result never reach the operand and vice versa',
                 'job': {'kind': 'aliasing', 'module': 'standins.jobs2', 'configs': [dict(p=3), dict(p=2, q=0, r=1), dict(name='2DPGA')], 'seed': seed}})
    return jobs
