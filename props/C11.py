"""C11: registered (compiled) expressions equal direct evaluation."""
from contracts import taperecorder_c as T
from contracts import dispatch_c as D
from contracts import multivector_c as M
from . import common as K

LEVEL = 'other'
EXPLANATION = ('Proved (simulation, unbounded in key patterns and values): every member of TapeRecorder in the must-equal list records a '
               'call of the same algebra operator as the MultiVector member of the same name, looked up with the key tuples in the same '
               'order, emitted by function name with the argument expressions in the same order, result keys from that lookup; __pow__ builds '
               'the same operator tree as MultiVector.__pow__ for powers 0, +-n, 0.5 (and, by loop invariant, exactly |n| factors for every integer n in both classes); dual/undual/norm/normalized have the same branch and '
               'composition structure; grade keeps exactly the stored keys of the requested grades paired with their positions (length-3 key '
               'tuple, generic membership); coefficient access is the signed scalar; do_compile emits def <name>(<args>): return <expr> into '
               'algebra.numspace; Registry.__getitem__/__call__ generate once and dispatch by key pattern.  symbolic=True reduces to '
               'do_codegen on symbolic operands (C02/C12) -- bounded only.  Bounded: expression trees on the real package, exhaustive to '
               'depth 2 (sampled in quick), seeded deeper.')
TRUSTED = ['z3 5.1 (python API)', 'kvc VC generator', 'CPython ast module']
ASSUMPTIONS = [K.ASSUME_CPYTHON, 'call-by-name resolution in numspace is Inv(2) of C09 (unique names per ordered pattern)',
               'a scalar commutes under gp, op and add (L-unit), so the reflected numeric forms may record (tape, scalar)',
               'compile()/exec() of the emitted one-line def follow the language semantics',
               'symbolic=True path: lambdify/sympy exactness assumed (bounded stand-in)']
ASSUMED = ['OperatorDict path of register(symbolic=True): do_codegen(f, symbolic multivectors) -- bounded stand-in only']


def build(H, tier, seed):
    T.vc_tape_all(H)
    from contracts import powers_c as PW
    PW.vc_pow_generic(H)
    D.vc_getitem(H, 'Registry')
    D.vc_registry_call(H)
    # MultiVector side of the simulation; __rtruediv__ is left to C16: inside C11's grammar its left operand is a plain number,
    # for which inverse(x) * number and number * inverse(x) coincide, so its operand order is not C11's clause
    from contracts.multivector_c import BINARY, UNARY
    M.vc_mv_delegations(H, methods_binary=[m for m in BINARY if m != '__rtruediv__'], methods_unary=list(UNARY), scalar_left=True)


def standins(tier, seed):
    always = ['a.norm()', 'a.normalized()', '(a.normsq()).sqrt()', '(a.e1 * b)', '(b * a.e21)', '(a.e12 + b)', '(a ** -1)', '(a ** -2)',
              '(a / Q23)', '(a * Q23)', '(Q23 * a)', '((a + b) / Q23)', '(a / -4)', '(a / 2.5)', '(-2 * a)', '(2 - a)', '(Q23 - a)', '(a - Q23)',
              '(0 * a).norm()', '((a - a) * b).norm()']        # norm of a result that is identically zero (F18, fixed: generated 0.5/0)
    # coefficient access by spellings with an even / odd number of swaps, on an operand that stores every blade
    spell = ['(b * a.e231)', '(b * a.e312)', '(b * a.e120)', '(b * a.e0231)', '(b * a.e213)', '(b * a.e3210)', '(a.e201 * b + a.e123 * b)']
    if tier == 'quick':
        cfgs = [dict(p=3, q=0, r=1, exhaustive_depth2=True, sample=60, random=10, always=always, full_operand_forms=spell), dict(p=2, q=1, exhaustive_depth2=True, sample=60, random=10),
                dict(p=2, exhaustive_depth2=True, sample=40, random=10, nargs=2), dict(p=3, random=25, nargs=3, modes=['numeric']),
                dict(p=3, q=0, r=1, random=0, single_blades=True, modes=['numeric']), dict(p=3, random=0, single_blades=True, modes=['numeric'])]
    else:
        cfgs = [dict(p=3, q=0, r=1, exhaustive_depth2=True, random=60, always=always, full_operand_forms=spell), dict(p=2, q=1, exhaustive_depth2=True, random=60),
                dict(p=2, exhaustive_depth2=True, random=40), dict(p=3, random=120, nargs=3, modes=['numeric']),
                dict(name='2DPGA', exhaustive_depth2=True, sample=400, random=40), dict(p=1, q=1, r=1, exhaustive_depth2=True, sample=400, random=40)]
    return [{'name': f'register#{i}', 'bound': 'expression trees over the README operator table: all depth-2 compositions (sampled in quick) + seeded depth 2-4, 2-3 arguments, seeded key patterns, Fraction values; register(f) and register(symbolic=True)(f) vs f',
             'job': {'kind': 'register', 'module': 'standins.jobs3', 'configs': [c], 'seed': seed * 10 + i}} for i, c in enumerate(cfgs)]
