"""C15: multivector construction and coefficient access round-trip."""
from contracts import access_c as A
from contracts import algebra_c as AL
from . import common as K
from . import C04

LEVEL = 'other'
EXPLANATION = ('Proved for key tuples of any length/order and any coefficient values: __getattr__ with any spelling ((-1)^parity * '
               'stored coefficient, 0 when absent or unknown generator, AttributeError for non-blade names), __contains__, grade(), '
               'keys/values/items/fromkeysvalues; _blade2canon / BladeDict.__getitem__ (spelling -> canonical blade and swap count from '
               '_swap_blades, whose parity contract is proved under C01); convenience constructors delegate with the right grades.  '
               'Proved for all values and spelling parities but concrete shapes (d = 2, 3; the construction forms listed in the evidence): '
               'MultiVector.__new__ hands fromkeysvalues exactly the supplied blade->coefficient view, permuted keyword spellings re-keyed '
               'with their parity sign, inconsistent input raises; asfullmv (both layouts), map, filter.  Bounded: round-trip runs on the real '
               'package over default/custom/graded algebras, all forms, all blades, random spellings.')
TRUSTED = ['z3 5.1 (python API)', 'kvc VC generator', 'CPython ast module']
ASSUMPTIONS = [K.ASSUME_CPYTHON, 'naming contract (C01): bin2canon/canon2bin are mutually inverse bijections blade key <-> canonical name',
               'the swap count returned by _blade2canon has the parity of the spelling relative to the canonical name (C01: _swap_blades contract)',
               'value types: coefficients are opaque objects supporting unary minus; str coefficients go through sympy.sympify (assumed)',
               'spellings that repeat a generator (e11) or use the letter-digit e as generator are outside the admissible inputs']
ASSUMED = ['MultiVector.__new__ beyond the enumerated shapes: bounded stand-in', 'sympify of string coefficients']


def build(H, tier, seed):
    A.vc_getattr(H)
    A.vc_contains(H)
    A.vc_grade(H)
    A.vc_grade_layouts(H)
    A.vc_trivial_accessors(H)
    A.vc_new(H)
    A.vc_new_graded_reordered(H)
    A.vc_asfullmv(H)
    A.vc_map_filter(H)
    A.vc_constructors(H)
    AL.vc_blade2canon(H)
    AL.vc_blade2canon_concrete(H)
    AL.vc_blade2canon_concrete(H, d=4, start=12)      # generators c, d, e, f: one is named like the prefix of every blade name
    AL.vc_bladedict_getitem(H)


def standins(tier, seed):
    n = 4 if tier == 'quick' else 25
    cfgs = [dict(p=2, q=0, r=1), dict(name='3DPGA'), dict(p=2, graded=True), dict(p=3, start_index=0), dict(name='2DPGA'),
            dict(p=1, q=1, r=1, graded=True), dict(p=4, graded=True),
            dict(signature=[1, 1, 1, 1], start_index=12), dict(signature=[1, -1, 0], start_index=13)]      # generators named with hex letters, one of them 'e'
    if tier != 'quick':
        cfgs += [dict(p=4), dict(p=3, q=1), dict(name='STAP'), dict(p=3, q=0, r=1, graded=True),
                 dict(p=3, basis=['e', 'e1', 'e2', 'e3', 'e12', 'e31', 'e23', 'e123'])]
    return [{'name': f'roundtrip#{i}', 'bound': f'{n} seeded key tuples per configuration x 7 construction forms x all blades (<=16 sampled above) with a random spelling each x grade/asfullmv/map/filter; inconsistent inputs',
             'job': {'kind': 'roundtrip', 'module': 'standins.jobs4', 'configs': [dict(c, random=n)], 'seed': seed + i}} for i, c in enumerate(cfgs)] + C04._gradesel_jobs(tier, seed)
