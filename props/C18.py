"""C18: matrix representations are faithful."""
from contracts import misc_c as M
from . import common as K

LEVEL = 'other'
EXPLANATION = ('Proved: asmatrix() is the sum of coefficient * matrix_basis[canonical position of the blade] (hence linear) and frommatrix reads '
               'column 0 as the full coefficient list in canonical order.  With the basis-pair table M_I M_J = signs[I,J] M_{I^J} and "first '
               'column of M_I is the canonical unit vector" this gives an injective homomorphism by bilinearity (C02).  The table itself is built by '
               'numpy Kronecker products (matrix_rep / ordering_matrix): out of reach of the VC generator -> bounded stand-in: all blade pairs '
               'for every enumerated signature ordering d<=4 (d=5 sampled), random multivectors, frommatrix round trip, expr_as_matrix on linear '
               'expressions (symbolic / numeric / array inputs, res_like).  Known finding F10: custom bases.')
TRUSTED = ['z3 5.1 (python API)', 'kvc VC generator', 'CPython ast module', 'numpy (stand-in arithmetic)']
ASSUMPTIONS = [K.ASSUME_CPYTHON, 'numpy kron / @ / indexing as documented', 'sympy collect/coeff/expand/lambdify exact (expr_as_matrix)']
ASSUMED = ['matrix_rep, ordering_matrix (numpy): bounded stand-in only', 'expr_as_matrix (sympy): bounded stand-in only']


def build(H, tier, seed):
    M.vc_asmatrix(H)


def standins(tier, seed):
    import itertools
    import random
    rng = random.Random(seed)
    cfgs = []
    dmax = 3 if tier == 'quick' else 4
    for d in range(1, dmax + 1):
        sigs = list(itertools.product([1, -1, 0], repeat=d))
        if tier == 'quick' and len(sigs) > 8:
            sigs = rng.sample(sigs, 8)
        for s in sigs:
            cfgs.append(dict(signature=list(s), random=2 if tier == 'quick' else 4, expr=(d <= 2 and rng.random() < (0.3 if tier == 'quick' else 1.0))))
    cfgs += [dict(p=2, q=0, r=1, random=3), dict(p=3, random=2), dict(p=3, q=0, r=1, random=2, expr=False), dict(p=2, q=2, random=2, expr=False)]
    if tier != 'quick':
        cfgs += [dict(signature=[rng.choice([1, -1, 0]) for _ in range(5)], random=2, expr=False, max_pairs=600) for _ in range(4)]
    cfgs += [dict(name='2DPGA', random=2, expr=False), dict(name='3DPGA', random=1, expr=False)]
    chunks = [cfgs[i::12] for i in range(12)]
    return [{'name': f'matrix#{i}', 'bound': f'all signature orderings d<={dmax} (sampled in quick), named PGA bases; all ordered blade pairs (<=1100 sampled above); seeded multivectors; 6 linear expressions x symbolic/numeric/array x res_like for d<=3',
             'job': {'kind': 'matrix', 'module': 'standins.jobs6', 'configs': ch, 'seed': seed + i}} for i, ch in enumerate(chunks) if ch]
