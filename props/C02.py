"""C02: geometric product of sparse multivectors == bilinear extension of the blade table."""
from contracts import codegen_c as C
from . import common as K

LEVEL = 'proof'
EXPLANATION = ('Deductive part: the real bodies of mathstr.__add__/__sub__/__neg__/__mul__, codegen_product and '
               'codegen_gp, do_codegen (canonical re-sort keeps keys and expressions paired; positional letters bound in operand order; func_builder / lambdify branch) and func_builder (emitted source parses as the positional unpacking + return list; concrete shapes) are interpreted symbolically; the loop of codegen_product carries the invariant '
               '"result dict == fold over the pairs processed so far" (ghost Has/Spec) for key tuples of any length '
               'and order, abstract sign table and ring; codegen_gp must instantiate it with the table sign, key '
               'kx^ky and no filter.  Bounded part (labelled, never counted as discharged): symcoef runs the real '
               'a*b on exact polynomial coefficients and compares with an independent reference.')
TRUSTED = ['z3 5.1 (python API), cvc5 1.0.3 / z3 4.8.12 CLIs as fall-back', 'kvc VC generator (this directory)',
           'CPython ast module']
ASSUMPTIONS = [K.ASSUME_CPYTHON, K.ASSUME_RING, K.ASSUME_GRAMMAR, K.ASSUME_TAIL, K.ASSUME_TSIGNS,
               'precondition WF(mv): the keys of an operand are pairwise distinct valid blade indices']
ASSUMED = ['lambdify / KingdonPrinter: returns f with f(*vals)[i] == value of exprs[i] (sympy printing, cse); compile()/exec() of the func_builder text (its structure is checked with Python\'s own parser)']


def build(H, tier, seed):
    C.vc_mathstr(H)
    C.vc_codegen_product(H)
    C.vc_product_operator(H, 'gp')
    from contracts import inverse_c as I
    I.vc_products_generic(H, tier, only_ops=('gp',))
    from contracts import dispatch_c as D
    D.vc_binary_chain(H, ['gp'])
    from contracts import codegen_glue_c as G
    G.vc_do_codegen(H)
    G.vc_func_builder(H)


def standins(tier, seed):
    return K.symcoef_jobs('gp', ['gp'], tier, seed, extra_configs=K.CUSTOM)


replay = K.replay_any
