"""C10: code is generated at most once per operator and key pattern."""
from contracts import dispatch_c as D
from . import common as K

LEVEL = 'proof'
EXPLANATION = ('OperatorDict/UnaryOperatorDict/Registry.__getitem__: symbolic execution with the cache membership as a symbolic '
               'Boolean and do_codegen/do_compile/multivector/wrapper as recorded events: cached key => no generation, no '
               'compilation, no store, stored pair returned; new key => exactly one generation and the pair is stored under the key.  '
               '__call__/_call_binary/Registry.__call__: the lookup key consists of the operands\' key tuples only (not values, '
               'types or identity).  Together with "entries are never replaced or deleted" (frame of every method: the only store '
               'into operator_dict is the one above) this is the induction step of "at most once per pattern" over all sequential '
               'histories.  Bounded: compile/do_codegen event counting on the real package over value kinds.')
TRUSTED = ['z3 5.1 (python API)', 'kvc VC generator', 'CPython ast module']
ASSUMPTIONS = [K.ASSUME_CPYTHON, 'dict membership/lookup by tuple equality and hash (keys tuples are hashable ints)',
               'single-threaded histories (thread interleavings are not decided)',
               'composite operators reach inner operators only through the same __getitem__ (their bodies use the public operators)']
ASSUMED = ['do_codegen / do_compile themselves (what one generation does) are abstracted here; see C02/C11']


def build(H, tier, seed):
    for cls in ('OperatorDict', 'UnaryOperatorDict', 'Registry'):
        D.vc_getitem(H, cls)
    D.vc_call_dispatch(H)
    D.vc_call_nary(H)
    D.vc_call_binary(H)
    D.vc_unary_call(H)
    D.vc_registry_call(H)


def standins(tier, seed):
    ops = ['gp', 'op', 'add', 'sw', 'proj', 'inv', 'div', 'normsq', 'reverse', 'hodge', 'outerexp', 'sqrt', 'regf']
    cfgs = [dict(p=2, q=0, r=1, random=3), dict(p=3, random=3), dict(p=2, q=1, wrapper='wraps', random=2)] if tier == 'quick' else \
        [dict(p=2, q=0, r=1, random=10), dict(p=3, random=10), dict(p=2, q=2, random=6), dict(p=3, q=0, r=1, random=6),
         dict(p=2, q=1, wrapper='identity', random=6), dict(p=2, q=1, wrapper='wraps', random=6), dict(p=2, cse=False, random=6)]
    cfgs.append(dict(p=4, random=0, sweep=400 if tier == 'quick' else 3000))
    return [{'name': f'count#{i}', 'bound': 'seeded key patterns x value kinds int/float/Fraction/ndarray/sympy; compile(), do_codegen, do_compile events counted on repeats; a sweep of 400 (thorough: 3000) distinct patterns through one unary and one binary operator, revisited twice',
             'job': {'kind': 'count', 'module': 'standins.jobs2', 'ops': ops, 'configs': [c], 'seed': seed + i}} for i, c in enumerate(cfgs)]
