"""C07: inverse and division are exact two-sided inverses wherever they return."""
from contracts import codegen_unary_c as U
from contracts import multivector_c as M
from contracts import taperecorder_c as T
from . import common as K

LEVEL = 'other'
EXPLANATION = ('Proved (structure): codegen_inv selects the Hitzer closed forms for d < 6 and the Shirokov scheme beyond, and returns '
               'x*num over denom; codegen_div assembles num * d with the dependency d = 1/denom and raises ZeroDivisionError when the symbolic '
               'denominator is identically zero; a/b, number/x delegate to div / inv with operands in order (powers belong to C19 / C11).  '
               'Proved (algebra, contracts/inverse_c.py): the real body of codegen_hitzer_inv is interpreted on a generic element (one '
               'indeterminate per blade, exact integer polynomial coefficients, independent reference product); for every signature of '
               'every dimension d <= 4 (121 algebras) x * num == denom and num * x == denom hold as polynomial identities, i.e. for all '
               'operands; decided by exact normal forms (no solver).  d = 5: the same for one signature per class (5,0,0), (4,1,0), (4,0,1), '
               '(3,1,1) ... all 21 classes (p, q, r) in the thorough tier only, with the last product kept lazy and associativity (L-assoc); '
               'codegen_inv with a fast path for special operand shapes is followed on grade-restricted generic operands (d <= 4); a / b is '
               '(a * num) / denom with ((a * num) * b == a * denom) on generic operands (d <= 3); the dimension-agnostic Shirokov scheme '
               '(with power_supply and AdditionChains.minimal_chains) is proved on generic elements of every algebra with d <= 3.  The '
               'Shirokov scheme on d >= 6, float rounding, and ZeroDivisionError-only-for-singular: bounded stand-in with exact Fractions, '
               'two-sided, sparse/permuted/zero-padded patterns, exact determinant oracle d<=4; power_supply/AdditionChains exhaustive for '
               'exponents <= 40.')
TRUSTED = ['z3 5.1 (python API)', 'kvc VC generator', 'CPython ast module']
ASSUMPTIONS = [K.ASSUME_CPYTHON, K.ASSUME_TAIL, 'floating point ("to rounding otherwise") is not modelled; exact Fractions only',
               'Shirokov inverse (d >= 6) and the 5-D closed form outside the listed signature classes are checked only on the sampled inputs', 'kingdon\'s product on symbolic operands is the reference product (C01, C02); a right inverse in a finite-dimensional algebra is a left inverse (used for d = 5 only)']
ASSUMED = ['codegen_shirokov_inv for d >= 6: same code as proved for d <= 3, bounded stand-in on the real dimensions', 'codegen_hitzer_inv for d = 5: proved per signature class in the thorough tier, bounded in the quick tier', 'power_supply(x, (1..N)) as codegen_shirokov_inv calls it and AdditionChains.minimal_chains are under contract for every N / limit (loop invariants); the Faddeev-LeVerrier recursion around them is proved on generic elements for d <= 3 only']


def build(H, tier, seed):
    U.vc_inv_div_structure(H)
    from contracts import inverse_c as I
    I.vc_hitzer_inv(H, tier)
    I.vc_inv_patterns(H, tier)
    I.vc_shirokov_small(H, tier)
    I.vc_div_generic(H, tier)
    from contracts import powers_c as PW
    PW.vc_minimal_chains(H)
    PW.vc_power_supply_consecutive(H)
    M.vc_mv_delegations(H, methods_binary=['div', '__truediv__'], methods_unary=['inv'])
    # __rtruediv__: operand order matters only for non-numbers on the left (C16); number/x is in the stand-in


def standins(tier, seed):
    import itertools
    cfgs = []
    if tier == 'quick':
        sigs = [(1, 0, 0), (0, 1, 0), (2, 0, 0), (1, 1, 0), (2, 0, 1), (3, 0, 0), (1, 1, 1), (3, 0, 1), (2, 2, 0), (4, 1, 0), (5, 0, 0), (3, 0, 2), (6, 0, 0)]
        n = 6
    else:
        sigs = [(p, q, r) for p in range(5) for q in range(5) for r in range(3) if 1 <= p + q + r <= 4] + [(4, 1, 0), (3, 1, 1), (5, 0, 0), (3, 2, 0), (6, 0, 0), (4, 2, 0), (7, 0, 0)]
        n = 25
    for p, q, r in sigs:
        d = p + q + r
        cfgs.append(dict(p=p, q=q, r=r, random=n if d <= 4 else (max(4, n // 2) if d == 5 else max(2, n // 6)), pad=True, det_dmax=4))
    # degenerate 6-D / 7-D algebras: the iterative scheme needs as many steps as the full dimension demands; operands of four
    # commuting-free blades whose minimal polynomial has high degree (keys: scalar, a vector, a bivector, a blade with null generators)
    cfgs.append(dict(p=4, q=0, r=2, random=1, pad=False, det_dmax=4, operands=[(0, 1 << 2, (1 << 3) | (1 << 4), (1 << 0) | (1 << 1)), (0, 1 << 2, (1 << 3) | (1 << 4), (1 << 5) | (1 << 0))]))
    if tier != 'quick':
        cfgs.append(dict(p=6, q=0, r=1, random=1, pad=False, det_dmax=4, operands=[(0, 1 << 1, (1 << 2) | (1 << 3), (1 << 4) | (1 << 5), (1 << 0) | (1 << 6))]))
    chunks = [cfgs[i::10] for i in range(10)]
    jobs = [{'name': f'inverse#{i}', 'bound': f'{n} seeded operands per signature (fewer for d>=5) incl. permuted and zero-padded; x*inv(x), inv(x)*x, a/b, number/x; determinant oracle d<=4',
             'job': {'kind': 'inverse', 'module': 'standins.jobs5', 'configs': ch, 'seed': seed * 10 + i}} for i, ch in enumerate(chunks) if ch]
    per = 25 if tier == 'quick' else 200
    symcfgs = [dict(p=1), dict(p=2), dict(p=1, q=1), dict(p=2, q=0, r=1), dict(p=3), dict(p=3, q=0, r=1), dict(p=2, q=2), dict(p=5), dict(p=4, q=1), dict(p=3, q=0, r=2)]
    for i, c in enumerate(symcfgs):
        jobs.append({'name': f'inverse-symbolic#{i}', 'bound': f'ordered key patterns of 1-3 blades (all when <= {per} per size, else {per} sampled) per signature d<=5: x*num == num*x == denom as polynomial identities (all coefficient values)',
                     'job': {'kind': 'inverse_symbolic', 'module': 'standins.jobs7', 'configs': [dict(c, per_size=per, sizes=[1, 2, 3] + ([4] if tier != 'quick' else []))], 'seed': seed + i}})
    # nested inverses / divisions inside symbolically optimised registered functions: the inner quotient has rational-function
    # coefficients with denominators of their own, and the generated code of the outer one takes their reciprocal (seeded change C07n)
    nested = ['(a.inv()).inv()', '(a / (b / a))', '(2 / (a.inv() * b))', '(a / b)', '(3 / a)', '((a / b).inv())']
    for i, c in enumerate([dict(p=2), dict(p=1, q=1)] + ([dict(q=2), dict(p=1, q=0, r=1), dict(p=1)] if tier != 'quick' else [])):       # 2-D at most: symbolic optimisation of nested quotients takes tens of minutes in 3-D
        jobs.append({'name': f'nested-division#{i}', 'bound': f'{len(nested)} nested inverse / division forms inside alg.register(f, symbolic=True), seeded Fraction operands, compared with direct evaluation',
                     'job': {'kind': 'register', 'module': 'standins.jobs3', 'configs': [dict(c, always=nested * 2, random=0, modes=['symbolic'])], 'seed': seed * 10 + i}})
    jobs.append({'name': 'powers', 'bound': 'exponents 1..40 and ranges (1..n), n<=16, polynomial operand', 'job': {'kind': 'powers', 'module': 'standins.jobs5', 'limit': 40}})
    return jobs


replay = K.replay_any
