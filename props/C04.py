"""C04: sum, difference, negation, involutions and grade selection act blade-wise."""
from contracts import codegen_c as C
from contracts import codegen_unary_c as U
from . import common as K

LEVEL = 'proof'
EXPLANATION = ('codegen_add/sub: loop invariant over y.items() (result == x[k] +/- y[:n][k], absent = 0) for key tuples of any '
               'length/order/overlap; codegen_neg and the three involutions: generic element of the comprehension against the '
               'exponent formulas of the statement (popcount revealed); anti-automorphism lemmas at blade level '
               '(lemmas/table.py); MultiVector.grade: generic element.  Bounded: symcoef on the real operators.')
TRUSTED = ['z3 5.1 (python API), cvc5 1.0.3 / z3 4.8.12 CLIs as fall-back', 'kvc VC generator', 'CPython ast module']
ASSUMPTIONS = [K.ASSUME_CPYTHON, K.ASSUME_RING, K.ASSUME_GRAMMAR, K.ASSUME_TAIL,
               'view link: the indexed and keyed views of an operand agree (keys pairwise distinct, WF(mv))']
ASSUMED = ['lambdify / func_builder -> compile/exec evaluation contract (see C02)']


def build(H, tier, seed):
    C.vc_mathstr(H)
    U.vc_addsub(H, 'add')
    U.vc_addsub(H, 'sub')
    U.vc_neg(H)
    for w in ('reverse', 'involute', 'conjugate'):
        U.vc_involution(H, w)
    from contracts import multivector_c as M
    M.vc_mv_delegations(H, methods_binary=['add', '__add__', '__radd__', 'sub', '__sub__', '__rsub__'],
                        methods_unary=['neg', '__neg__', '__invert__', 'reverse', 'involute', 'conjugate'])
    from lemmas import table as T
    T.involution_lemmas(H, tier)
    from contracts import access_c as A
    A.vc_grade(H)
    from contracts import inverse_c as I
    I.vc_unary_generic(H, tier, only_ops=('neg', 'reverse', 'involute', 'conjugate'))
    A.vc_grade_layouts(H)
    from contracts import dispatch_c as D
    D.vc_binary_chain(H)
    D.vc_unary_chain(H)
    from contracts import codegen_glue_c as G
    G.vc_do_codegen(H)
    G.vc_func_builder(H)


def _gradesel_jobs(tier, seed):
    cfgs = [dict(p=3), dict(p=2, q=0, r=1), dict(name='2DPGA'), dict(p=2)] if tier == 'quick' else \
        [dict(p=3), dict(p=2, q=0, r=1), dict(name='2DPGA'), dict(p=2), dict(p=4), dict(p=3, q=1), dict(name='3DPGA'), dict(p=1, q=1, r=1), dict(p=4, q=1)]
    n = 3 if tier == 'quick' else 12
    return [{'name': 'gradesel', 'bound': 'dense-canonical / dense-binary / dense-reversed / dense-shuffled / sparse / permuted layouts x up to 24 grade subsets x both call forms; pairwise distinct exact coefficients',
             'job': {'kind': 'gradesel', 'module': 'standins.jobs2', 'configs': [dict(c, random=n) for c in cfgs], 'seed': seed}}]


def standins(tier, seed):
    # the same sums, differences and involutions written inside registered functions (evaluated on recorders instead of multivectors),
    # with a plain number on either side
    forms = ['(a + b)', '(a - b)', '(-a)', '(2 - a)', '(a - 2)', '(2 + a)', '(a + 2)', '(b - (2 - a))', '(~a)', 'a.involute()', 'a.conjugate()',
             'a.grade(1)', '(a - b).grade(0, 2)']
    reg = [{'name': f'registered-sums#{i}', 'bound': f'{len(forms)} sum / difference / involution / grade forms inside alg.register(f), seeded operands, numeric recorder path',
            'job': {'kind': 'register', 'module': 'standins.jobs3', 'configs': [dict(c, always=forms, random=0, modes=['numeric'])], 'seed': seed * 10 + i}}
           for i, c in enumerate([dict(p=3), dict(p=2, q=0, r=1)])]
    # operands that are rebuilt and dropped every round, alternating between patterns of equal length (seeded change C04k: a lookup keyed
    # by the address of a keys tuple returns another pattern's function once the address is recycled)
    fresh = [{'name': 'fresh-operand-rounds', 'bound': '6 rounds over a pool of single-grade parts and literal patterns of equal length, operands rebuilt and released every call; neg / reverse / involute / conjugate, both call forms',
              'job': {'kind': 'fresh_rounds', 'module': 'standins.jobs7', 'ops': ['neg', 'reverse', 'involute', 'conjugate'],
                      'configs': [dict(p=3), dict(p=2, q=0, r=1), dict(p=2, q=1, r=1)] if tier == 'quick' else [dict(p=3), dict(p=2, q=0, r=1), dict(p=2, q=1, r=1), dict(p=4), dict(name='3DPGA'), dict(p=2), dict(p=3, q=1, rounds=10)],
                      'seed': seed}}]
    return fresh + K.symcoef_jobs('C04', ['add', 'sub', 'neg', 'reverse', 'involute', 'conjugate'], tier, seed, extra_configs=K.CUSTOM) + _gradesel_jobs(tier, seed) + reg


replay = K.replay_any
