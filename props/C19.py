"""C19: exp, outer exponentials, sqrt, powers and norms obey their identities."""
from contracts import misc_c as M
from contracts import multivector_c as MC
from . import common as K

LEVEL = 'other'
EXPLANATION = ('Proved on generic operands (contracts/inverse_c.py): the real bodies of codegen_outerexp/outersin/outercos return sum_k x^(wedge k)/k! (all / odd / even k) as polynomial identities over Q for operands of every single grade >= 1 and their sum, d <= 4 (5 in the thorough tier).  Proved (structure, via the operator contracts): codegen_outerexp builds term j as (term j-1 ^ x) with coefficients divided by j '
               '(= x^(wedge j)/j!), for j <= d, dropping a term only if it is empty; outersin/outercos sum the odd/even terms, outertan = '
               'outersin / outercos; MultiVector.__pow__ is the repeated geometric product (for every integer exponent, by loop invariant: exactly |n| factors), of the inverse for negative powers, the scalar 1 for '
               '0 and sqrt for 0.5; norm() = sqrt(normsq()), normalized() = x / norm(); codegen_sqrt: operator tree of a, bI = x - a, normS = (a*a - bI*bI).e, result c + bI*c2_inv, and the two dependency texts parsed and evaluated (c^2 == (a + sqrt(normS))/2, c2_inv == 1/(2c)).  MultiVector.exp: every branch of the type / sign dispatch '
               '(python number with s > 0, == 0, < 0; sympy expression; any other coefficient type; empty square; user-supplied functions) returns '
               'a tree that *evaluates* (uninterpreted Sqrt/Sin/Cos/Sinh/Cosh, numpy sinc(t) = sin(pi t)/(pi t)) to cosh(sqrt s) + x sinh(sqrt s)/sqrt s, '
               '1 + x, or cos(sqrt -s) + x sin(sqrt -s)/sqrt -s, and a non-scalar square raises.  Not provable here: the analytic identity itself, '
               'floating point, numpy/sympy functions -> bounded numeric stand-in per branch and signature, numerically and symbolically.  Known finding F13: exp() of an ndarray-valued element raises.')
TRUSTED = ['z3 5.1 (python API)', 'kvc VC generator', 'CPython ast module']
ASSUMPTIONS = [K.ASSUME_CPYTHON, 'floating point and numpy/sympy transcendental functions are not modelled (this family is silent on floats)',
               'e^x = cosh(sqrt s) + x sinh(sqrt s)/sqrt s for x*x = s (real-analytic fact)']
ASSUMED = ['numpy / sympy implementations of sqrt, cos, sin, cosh, sinh, sinc (named, not modelled)', '(self * self).filter() returns the exact square (C02, C12)']


def build(H, tier, seed):
    M.vc_outerexp(H)
    M.vc_pow(H)
    from contracts import powers_c as PW
    PW.vc_pow_generic(H)
    M.vc_codegen_sqrt(H)
    M.vc_exp(H)
    from contracts import inverse_c as I
    I.vc_outerexp_generic(H, tier)
    MC.vc_mv_norms(H)
    MC.vc_mv_delegations(H, methods_binary=[], methods_unary=['sqrt', 'normsq', 'outerexp', 'outersin', 'outercos', 'outertan', 'inv'])


def standins(tier, seed):
    n = 3 if tier == 'quick' else 15
    sigs = [(3, 0, 0), (2, 0, 1), (1, 2, 0), (2, 1, 0), (4, 0, 0), (1, 3, 0)] if tier == 'quick' else \
        [(p, q, r) for p in range(4) for q in range(3) for r in range(2) if 2 <= p + q + r <= 4] + [(4, 1, 0), (3, 1, 1), (3, 3, 0)]
    cnt = lambda p, q, r: n if p + q + r <= 4 else min(n, 5)
    extra = [dict(signature=[1, 1, 0], random=n), dict(signature=[1, -1, 0, 1], random=min(n, 4)), dict(name='2DPGA', random=n), dict(name='3DPGA', random=min(n, 4))]
    return [{'name': f'series-layout#{i}', 'bound': f'{c["random"]} seeded operands in an algebra whose null generator is not the first key bit (signature order / named basis): the same identities',
             'job': {'kind': 'series', 'module': 'standins.jobs6', 'configs': [c], 'seed': seed + 50 + i}} for i, c in enumerate(extra)] + \
        [{'name': f'series#{i}', 'bound': f'{cnt(p, q, r)} seeded operands per signature: pure-grade outer exponentials (exact, tolerance 1e-9 where the generated code '
                                             'introduces float constants), blade exponentials of every sign of square (float, sympy, ndarray), Study-number square roots, powers +-n, norms; '
                                             'inverse-based identities (outertan, x**-2) only for inverse arguments with <= 4 blades in 5-D and <= 2 blades in 6-D',
             'job': {'kind': 'series', 'module': 'standins.jobs6', 'configs': [dict(p=p, q=q, r=r, random=cnt(p, q, r))], 'seed': seed + i}} for i, (p, q, r) in enumerate(sigs)]


replay = K.replay_any
