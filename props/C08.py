"""C08: results do not depend on how an operand is stored."""
from contracts import codegen_c as C
from contracts import codegen_unary_c as U
from contracts import dispatch_c as D
from contracts import access_c as A
from . import common as K

LEVEL = 'proof'
EXPLANATION = ('Corollary of contracts stated over the abstract view (blade -> coefficient): (i) every codegen contract '
               '(codegen_product fold over an arbitrary enumeration of index pairs, add/sub fold, blade-wise maps) has a right-hand '
               'side that mentions operands only through (key, value) pairs, never through positions; (ii) binding: __getitem__ '
               'creates one symbolic operand per key tuple with the caller\'s keys in the caller\'s order and _call_binary passes '
               'mv.values() in the same order, so the i-th symbol is bound to the i-th value whatever the order; (iii) L-pad: a '
               'stored zero contributes a zero term; (iv) fromkeysvalues/keys/values/items keep the representation as given.  '
               'Bounded: metamorphic runs on the real package (permute / zero-pad / full 2^d layout in canonical and in binary order, built directly) for every operator.')
TRUSTED = ['z3 5.1 (python API)', 'kvc VC generator', 'CPython ast module']
ASSUMPTIONS = [K.ASSUME_CPYTHON, K.ASSUME_RING, K.ASSUME_GRAMMAR, K.ASSUME_TAIL,
               'a finite sum in a commutative ring does not depend on the order of its terms',
               'lambdify keeps the positional pairing symbol i <-> value i (assumed; do_codegen and func_builder are under contract)',
               'composite operators (sw, proj, inv, div, sqrt, outer*) are built from the elementary operators on symbolic operands']
ASSUMED = ['lambdify / KingdonPrinter: positional pairing of symbols and values in the generated function (sympy code generation)']


def build(H, tier, seed):
    import z3
    C.vc_codegen_product(H)
    U.vc_addsub(H, 'add')
    U.vc_addsub(H, 'sub')
    D.vc_getitem(H, 'OperatorDict')
    D.vc_getitem(H, 'UnaryOperatorDict')
    D.vc_symbolic_operands(H)
    # composite operators: the same polynomial identity for every operand shape (generic / even / odd / single grades) means the
    # stored grades of an operand cannot influence the value
    from contracts import inverse_c as I
    I.vc_compositions_generic(H, tier)
    D.vc_call_binary(H)
    D.vc_unary_call(H)
    A.vc_trivial_accessors(H)
    from contracts import misc_c as MC
    MC.vc_codegen_sqrt(H)
    from contracts import codegen_glue_c as G
    G.vc_do_codegen(H)
    G.vc_func_builder(H)
    vx, vy = z3.Reals('vx vy')
    neg = z3.Bool('neg')
    H.add_goal('lemma/L-pad: a stored zero coefficient contributes a zero term to every bilinear operator', [vx == 0],
               z3.If(neg, -(vx * vy), vx * vy) == 0)
    H.add_goal('lemma/L-pad-add: a stored zero coefficient does not change a sum or difference', [vy == 0],
               z3.And(vx + vy == vx, vx - vy == vx))


def standins(tier, seed):
    ops = ['gp', 'op', 'ip', 'lc', 'rc', 'sp', 'cp', 'acp', 'rp', 'add', 'sub', 'sw', 'proj', 'div',
           'neg', 'reverse', 'involute', 'conjugate', 'hodge', 'unhodge', 'normsq', 'inv', 'outerexp', 'outersin', 'outercos']
    if tier == 'quick':
        cfgs = [dict(p=2, q=0, r=1, random=2), dict(p=3, random=2), dict(p=1, q=1, random=3), dict(name='2DPGA', random=2),
                dict(p=4, random=0, ops=['gp', 'sw', 'proj', 'normsq', 'add', 'reverse'],
                     grade_pairs=[((2,), (0, 1)), ((1, 3), (4,)), ((0, 2), (2, 4))])]
    else:
        cfgs = [dict(p=2, q=0, r=1, random=8), dict(p=3, random=8), dict(p=1, q=1, random=8), dict(name='2DPGA', random=6),
                dict(p=4, random=2, ops=['gp', 'sw', 'proj', 'normsq', 'add', 'reverse'], grade_pairs=[((2,), (0, 1)), ((1, 3), (4,)), ((0, 2), (2, 4)), ((2,), (0,)), ((1,), (0, 4))]),
                dict(p=2, q=2, random=5), dict(p=3, q=0, r=1, random=5), dict(name='3DPGA', random=4), dict(p=4, q=1, random=3)]
    # 5-D: code generation for inverses / sandwiches of 32-blade operands takes tens of minutes; linear and bilinear operators only
    heavy = {'inv', 'div', 'sw', 'proj', 'outerexp', 'outersin', 'outercos'}
    d_of = lambda c: c.get('p', 0) + c.get('q', 0) + c.get('r', 0)
    return [{'name': f'storage#{i}', 'bound': 'seeded operand pairs per configuration; variants same / permuted / zero-padded+permuted / full layout (canonical) / full layout (binary) on either operand'
                                              + ('; without ' + ', '.join(sorted(heavy)) if d_of(c) >= 5 else ''),
             'job': {'kind': 'storage', 'module': 'standins.jobs2', 'ops': c.get('ops') or [o for o in ops if d_of(c) < 5 or o not in heavy], 'study': not c.get('ops'), 'configs': [c], 'seed': seed + i}}
            for i, c in enumerate(cfgs)]


replay = K.replay_any
