"""C05: duality maps invert each other and define the regressive product."""
from contracts import codegen_c as C
from contracts import codegen_unary_c as U
from contracts import multivector_c as M
from lemmas import table as T
from lemmas import filters as LF
from . import common as K

LEVEL = 'proof'
EXPLANATION = ('codegen_hodge/unhodge: generic element of the comprehension: key -> complement, sign signs[k, c k] resp. '
               'signs[c k, k]; lemma L-hodge (complement disjoint => sign != 0) makes them mutually inverse and gives '
               'E ^ hodge(E) = pss.  codegen_polarity/unpolarity: branch structure on pss*pss against x*pss^-1, '
               'ZeroDivisionError <=> pss*pss == 0.  codegen_rp: selection/key/sign of every pair equal to the blade-wise '
               'unhodge(hodge ^ hodge) (opaque grade, lemma L-op; code filter arithmetic decided inline).  '
               'MultiVector.dual/undual: kind selection on r.  Bounded: symcoef incl. custom bases.')
TRUSTED = ['z3 5.1 (python API), cvc5 1.0.3 / z3 4.8.12 CLIs as fall-back', 'kvc VC generator', 'CPython ast module']
ASSUMPTIONS = [K.ASSUME_CPYTHON, K.ASSUME_RING, K.ASSUME_GRAMMAR, K.ASSUME_TAIL, K.ASSUME_TSIGNS,
               'polarity: (-x)*pss == -(x*pss) (bilinearity of the geometric product, C02/C04)',
               'custom bases whose pseudoscalar is spelled as an odd permutation dualise to the opposite sign of the '
               'default basis (finding F9, a C14 matter); C05 is stated and checked in the algebra\'s own basis']
ASSUMED = ['lambdify / func_builder -> compile/exec evaluation contract (see C02)',
           'operators gp/neg applied to the symbolic operand inside codegen_polarity follow their contracts (C02, C04)']

CUSTOM = [dict(name='2DPGA', random=10), dict(name='3DPGA', random=8),
          dict(p=2, q=0, r=1, basis=['e', 'e0', 'e1', 'e2', 'e01', 'e20', 'e12', 'e012'], random=10),
          dict(p=3, basis=['e', 'e1', 'e2', 'e3', 'e12', 'e31', 'e23', 'e123'], random=10)]


def build(H, tier, seed):
    C.vc_mathstr(H)
    C.vc_codegen_product(H)
    C.vc_product_operator(H, 'rp')
    C.vc_product_operator(H, 'op')
    U.vc_hodge(H, 'hodge')
    U.vc_hodge(H, 'unhodge')
    U.vc_polarity(H)
    M.vc_dual(H)
    # the same selection rule on the recorder that compiles registered functions (seeded change C05l: undual() recorded the dual)
    from contracts import taperecorder_c as TRC
    M.vc_dual(H, cls='TapeRecorder', rel=TRC.TR)
    M.vc_mv_delegations(H, methods_binary=['rp', '__and__', '__rand__'],
                        methods_unary=['hodge', 'unhodge', 'polarity', 'unpolarity'])
    T.duality_lemmas(H, tier)
    from contracts import inverse_c as I
    I.vc_products_generic(H, tier, only_ops=('rp', 'op'))
    I.vc_unary_generic(H, tier, only_ops=('hodge', 'unhodge', 'polarity', 'unpolarity'))
    from contracts import dispatch_c as D
    D.vc_binary_chain(H)
    D.vc_unary_chain(H)
    from contracts import codegen_glue_c as G
    G.vc_do_codegen(H)
    G.vc_func_builder(H)
    for n, pre, goal in LF.all_lemmas():
        H.add_goal('lemma/' + n, pre, goal)


def standins(tier, seed):
    jobs = K.symcoef_jobs('C05', ['hodge', 'unhodge', 'polarity', 'unpolarity', 'rp'], tier, seed, extra_configs=CUSTOM)
    jobs.append({'name': 'dualkind', 'bound': '11 signatures with r = 0, 1, 2, 3: auto selection and explicit kinds of dual()/undual()',
                 'job': {'kind': 'dualkind', 'module': 'standins.jobs5',
                         'configs': [dict(p=2), dict(p=3), dict(p=1, q=1), dict(p=2, q=0, r=1), dict(p=3, q=0, r=1), dict(p=1, q=1, r=1),
                                     dict(p=1, q=0, r=2), dict(p=0, q=0, r=2), dict(p=2, q=0, r=3), dict(p=1, q=1, r=2), dict(name='2DPGA')]}})
    # the duality maps written inside registered (compiled) functions: recorded through TapeRecorder.dual / undual / hodge / ..
    forms = ['a.dual()', 'a.undual()', 'a.dual().undual()', 'a.undual().dual()', '(a.dual() ^ b.dual()).undual()', 'a.hodge()', 'a.unhodge()',
             "a.dual(kind='hodge')", "a.undual(kind='hodge')", '(a & b)', '(a.hodge() ^ b.hodge()).unhodge()']
    cfgs = [dict(p=2), dict(p=3, q=0, r=1), dict(p=3), dict(p=1, q=1, r=1)] + ([] if tier == 'quick' else [dict(p=4), dict(p=3, q=1), dict(p=2, q=0, r=1), dict(name='3DPGA'), dict(p=4, q=1)])
    jobs += [{'name': f'registered-duals#{i}', 'bound': f'{len(forms)} dual / undual / regressive forms inside alg.register(f), seeded operands, numeric recorder path compared with direct evaluation',
              'job': {'kind': 'register', 'module': 'standins.jobs3', 'configs': [dict(c, always=forms * 2, random=0, modes=['numeric'])], 'seed': seed * 10 + i}}
             for i, c in enumerate(cfgs)]
    return jobs


replay = K.replay_any
