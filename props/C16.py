"""C16: array coefficients, sequences, callables and plain numbers broadcast right."""
from contracts import dispatch_c as D
from contracts import multivector_c as M
from . import common as K

LEVEL = 'other'
EXPLANATION = ('Proved (unbounded): every infix / reflected / inline method of MultiVector calls the README-table operator with the '
               'operands in written order (reflected forms swapped); OperatorDict._call_binary unwraps (nested) zero-argument '
               'callables, maps over list/tuple operands preserving container kind, element order and operand side, and turns a '
               'plain number into the scalar multivector (0,) on its own side; values reach the generated function in operand '
               'order.  Not provable here: element-wise array semantics rests on numpy broadcasting (assumed) -- bounded stand-in '
               'on the real package: indexing commutes with every operator, slicing/assignment touch exactly the addressed entries.')
TRUSTED = ['z3 5.1 (python API)', 'kvc VC generator', 'CPython ast module']
ASSUMPTIONS = [K.ASSUME_CPYTHON, 'numpy element-wise broadcasting of + - * /, basic indexing and assignment (not modelled)',
               'generated functions are ring expressions in their inputs (C02-C05), so indexing commutes with them given numpy semantics',
               'a+b == b+a (reflected __radd__ may pass operands in either order)']
ASSUMED = ['MultiVector.__getitem__/__setitem__/itermv/shape: ndarray branch (numpy) -- bounded stand-in only']


def build(H, tier, seed):
    M.vc_mv_delegations(H)
    D.vc_call_dispatch(H)
    D.vc_call_binary(H)
    from contracts import access_c as A
    A.vc_indexing(H)


def standins(tier, seed):
    n = 4 if tier == 'quick' else 20
    cfgs = [dict(p=2, q=0, r=1), dict(p=3), dict(p=1, q=1)] if tier == 'quick' else \
        [dict(p=2, q=0, r=1), dict(p=3), dict(p=1, q=1), dict(p=3, q=0, r=1), dict(p=2, q=2), dict(name='2DPGA')]
    return [{'name': f'broadcast#{i}', 'bound': f'{n} seeded operand pairs per configuration x trailing shapes (), (3,), (2,3) x container kinds x index expressions; all infix and reflected forms',
             'job': {'kind': 'broadcast', 'module': 'standins.jobs3', 'configs': [dict(c, random=n)], 'seed': seed + i}} for i, c in enumerate(cfgs)]
