"""C06: sandwich, projection and squared norm equal their defining compositions."""
from contracts import codegen_unary_c as U
from contracts import dispatch_c as D
from contracts import multivector_c as M
from . import common as K

LEVEL = 'other'
EXPLANATION = ('Proved: (a) structure: codegen_sw/proj/normsq return literally x*y*~x, (x|y)*~y, x*~x evaluated with the elementary operators on the '
               'symbolic operands (whose contracts are C02-C04); (b) algebra (contracts/inverse_c.py, vc_compositions_generic): the same real bodies - '
               'with codegen_product inlined when a body calls it - interpreted on generic operands (one indeterminate per blade; x generic / even / '
               'odd, y generic / each single grade) return those compositions as polynomial identities, coefficient by coefficient, for every '
               'signature with d <= 3 and four (thorough: all 81) with d = 4: no blade is dropped unless its coefficient is identically zero; '
               '(c) OperatorDict.filter keeps exactly the (key, simplified value) pairs whose simplified value is truthy, order and pairing '
               'preserved; a>>b, a@b, normsq() reach these operators with operands in order.  "Drops only identically-zero coefficients" at run time '
               'rests on the exact zero test of the coefficient class (RationalPolynomial: C17; sympy: assumed) and on lambdify/CSE (assumed).  '
               'Bounded: the real composite operators on polynomial coefficients against the real elementary compositions '
               '(exhaustive d<=1, grade blocks + seeded d<=5).')
TRUSTED = ['z3 5.1 (python API)', 'kvc VC generator', 'CPython ast module']
ASSUMPTIONS = [K.ASSUME_CPYTHON, K.ASSUME_TAIL, 'RationalPolynomial truthiness is an exact zero test (C17)',
               'sympy simplify/expand return 0 only for identically-zero input']
ASSUMED = ['lambdify with CSE', 'simp_func on sympy expressions']


def build(H, tier, seed):
    U.vc_compositions(H)
    from contracts import inverse_c as I
    I.vc_compositions_generic(H, tier)
    D.vc_filter(H)
    D.vc_call_binary(H)
    D.vc_unary_call(H)
    M.vc_mv_delegations(H, methods_binary=['sw', '__rshift__', '__rrshift__', 'proj', '__matmul__', '__rmatmul__'], methods_unary=['normsq'])


def standins(tier, seed):
    if tier == 'quick':
        cfgs = [dict(p=1, exhaustive=True, max_cases=200), dict(p=2, q=0, r=1, grade_blocks=True, random=4),
                dict(p=1, q=1, r=0, exhaustive=True, max_cases=150), dict(p=3, grade_blocks=True, random=3),
                dict(p=4, grade_blocks=True, random=2), dict(p=3, q=0, r=1, grade_blocks=True, random=2), dict(p=5, random=3, wide=True),
                dict(p=6, high_grades=True), dict(p=4, q=2, r=1, high_grades=True),       # grades 5, 6, 7: reversion sign is grade % 4 (seeded change C06l)
                dict(name='2DPGA', grade_blocks=True, random=3, default_twin=True),       # custom basis after its default-basis twin in one process (seeded change C06n)
                dict(p=3, basis=['e', 'e1', 'e2', 'e3', 'e12', 'e31', 'e23', 'e123'], grade_blocks=True, random=2, default_twin=True),
                dict(p=2, start_index=10, exhaustive=True, max_cases=150), dict(signature=[1, -1, 1], start_index=9, grade_blocks=True, random=3)]      # blade names with hex letters: symbols aa, ab, aab, ..
    else:
        cfgs = [dict(p=1, exhaustive=True), dict(q=1, exhaustive=True), dict(r=1, exhaustive=True)] + \
            [dict(p=p, q=q, r=2 - p - q, exhaustive=True, max_cases=1500) for p in range(3) for q in range(3 - p)] + \
            [dict(p=2, q=0, r=1, grade_blocks=True, random=30), dict(p=3, grade_blocks=True, random=20), dict(p=3, q=0, r=1, grade_blocks=True, random=10),
             dict(p=2, q=2, grade_blocks=True, random=8), dict(p=4, q=1, grade_blocks=False, random=6, wide=True), dict(name='3DPGA', random=6, default_twin=True), dict(name='2DPGA', grade_blocks=True, random=10, default_twin=True),
             dict(p=3, basis=['e', 'e1', 'e2', 'e3', 'e12', 'e31', 'e23', 'e123'], grade_blocks=True, random=6, default_twin=True),
             dict(p=6, high_grades=True), dict(p=3, q=3, high_grades=True), dict(p=5, q=0, r=1, high_grades=True), dict(p=7, high_grades=True), dict(p=4, q=2, r=1, high_grades=True)]
    return [{'name': f'compose#{i}', 'bound': 'ordered key-tuple pairs: exhaustive d<=1 (d=2 sampled 1500 per signature in thorough), grade blocks and seeded random patterns d<=5; polynomial coefficients',
             'job': {'kind': 'compose', 'module': 'standins.jobs5', 'configs': [c], 'seed': seed + i}} for i, c in enumerate(cfgs)]


replay = K.replay_any
