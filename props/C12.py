"""C12: symbolic evaluation commutes with numeric evaluation."""
from contracts import dispatch_c as D
from contracts import access_c as A
from . import common as K

LEVEL = 'other'
EXPLANATION = ('Proved: for symbolic and numeric operands _call_binary/__call__ use the same cache entry (key tuples only) and call the generated '
               'function on the values in operand order (directly when symbolic or no wrapper, by name otherwise), then filter(keys_out, values) '
               'only for symbolic operands; filter keeps exactly the truthy simplified values; MultiVector.__call__ passes positional values in '
               'order / keyword values sorted by name and _lambdify_mv unpacks them into the free symbols sorted by name.  Since generated '
               'bodies are ring expressions (C02-C05) substitution commutes with them; sympy simplify/expand/lambdify exactness is assumed.  '
               'Bounded: seeded operators x patterns x symbolic/numeric partitions, substitution by subs, positional call and keyword call.')
TRUSTED = ['z3 5.1 (python API)', 'kvc VC generator', 'CPython ast module']
ASSUMPTIONS = [K.ASSUME_CPYTHON, K.ASSUME_TAIL, 'sympy: simplify/expand/subs/lambdify are exact on rational functions',
               'keyword call binds by name only when the keyword set equals the symbol names (otherwise the caller mis-binds positionally)']
ASSUMED = ['string coefficients -> sympy.sympify', 'Algebra.simp_func default (sympy.simplify(sympy.expand(v)))']


def build(H, tier, seed):
    D.vc_call_binary(H)
    D.vc_unary_call(H)
    D.vc_filter(H)
    A.vc_call(H)


def standins(tier, seed):
    ops = ['gp', 'op', 'ip', 'lc', 'rc', 'sp', 'cp', 'acp', 'add', 'sub', 'rp', 'sw', 'proj', 'neg', 'reverse', 'involute', 'conjugate',
           'normsq', 'hodge', 'unhodge', 'inv', 'div']
    n = 2 if tier == 'quick' else 10
    cfgs = [dict(p=2, q=0, r=1), dict(p=3), dict(p=1, q=1), dict(p=3, graded=True), dict(p=2, q=0, r=1, graded=True)] + ([dict(p=2, q=1), dict(p=3, q=0, r=1), dict(name='2DPGA'), dict(p=2, cse=False)] if tier != 'quick' else [])
    return [{'name': f'symbolic#{i}', 'bound': f'{n} seeded operand pairs per configuration x {len(ops)} operators; random symbolic/numeric partition; rational values; subs / positional call / keyword call',
             'job': {'kind': 'symbolic', 'module': 'standins.jobs5', 'ops': ops, 'configs': [dict(c, random=n)], 'seed': seed + i}} for i, c in enumerate(cfgs)]
