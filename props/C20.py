"""C20: graph widget payload reflects the multivectors it is given."""
from contracts import misc_c as M
from . import common as K

LEVEL = 'other'
EXPLANATION = ('Proved: key2idx maps every blade key to its canonical position (generic element of the comprehension), signature is the '
               'algebra\'s signature in order, the cayley payload is algebra.cayley laid out row = left factor, column = right factor in '
               'canonical order with the scalar written 1; inplacereplace writes, for each reported point, exactly the coefficients of that '
               'subject, each with the value sent for its own blade (canonical full layout read by position, every other layout through '
               'key2idx), only when it changed, and touches no other subject; get_subjects encodes a *new* evaluation of the subjects on every call, the drag observer writes the reported points back before recomputing the payload, and an update_mvs message recomputes it (dependent callables are re-evaluated).  encode/walker (recursive generator functions, interpreted with eager generators) are checked on five concrete subject-tree shapes with opaque multivectors (flat, nested, callables, array-valued, the four storage layouts); '
               'bounded stand-in on the real widget: seeded nested subject trees over all '
               'multivector layouts decoded the way the front end decodes them; drag updates and dependent callables.  The JavaScript front '
               'end itself is not examined.')
TRUSTED = ['z3 5.1 (python API)', 'kvc VC generator', 'CPython ast module', 'traitlets/anywidget (widget machinery)']
ASSUMPTIONS = [K.ASSUME_CPYTHON, 'front-end decoding as described in the property statement (keys placed through key2idx, else canonical order; ndarray payloads are float64 buffers)',
               'traitlets default/observe/validate machinery calls the decorated methods as documented']
ASSUMED = ['encode, walker beyond the five tree shapes: bounded stand-in', 'GraphWidget traitlet plumbing', 'generator bodies have no side effects that interleave with their consumers (eager evaluation)']


def build(H, tier, seed):
    M.vc_graph_derived(H)
    M.vc_graph_refresh(H)
    M.vc_inplacereplace(H)
    M.vc_encode(H)


def standins(tier, seed):
    n = 8 if tier == 'quick' else 40
    # explicit signatures in a non-default order (null generator last, a negative one first): the payload describes the algebra as it is
    cfgs = [dict(p=2, q=0, r=1), dict(p=2), dict(p=3, q=0, r=1), dict(p=3), dict(signature=[1, 1, 0]), dict(signature=[-1, 1, 1])] + ([dict(p=1, q=1), dict(p=2, q=1, r=1), dict(p=4), dict(p=1)] if tier != 'quick' else [])
    return [{'name': f'graph#{i}', 'bound': f'{n} seeded nested subject trees (depth<=3) per algebra over 8 multivector layouts, colours, strings, callables; 2 drag updates',
             'job': {'kind': 'graph', 'module': 'standins.jobs6', 'configs': [dict(c, random=n, drags=2 if tier == 'quick' else 6)], 'seed': seed + i}} for i, c in enumerate(cfgs)]
