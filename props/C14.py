"""C14: custom bases and start indices are a pure relabelling."""
from contracts import algebra_c as A
from contracts import dispatch_c as D
from contracts import options_c as O
from lemmas import table as T
from . import common as K

LEVEL = 'other'
EXPLANATION = ('Proved: the sign-table chain of C01 holds for any spelling of the blades (the _swap_blades contract is stated for arbitrary distinct '
               'characters and an arbitrary target spelling; lemma L-orient: twisting the table by any orientation o(K) preserves the Clifford '
               'relations), _blade2canon / accessors apply the spelling parity; the custom-basis branch of __post_init__ gives the j-th vector name the key 2**j, every name the OR of its generators\' keys and fills bin2canon as the inverse in ascending key order, for every well-formed basis; _call_binary rejects operands unless their algebras are identical '
               'or compare equal.  Refuted deductively (known findings F8a/F8b): the dataclass __eq__ of Algebra ignores signature and '
               'start_index.  Bounded: every operator of custom-basis algebras (named 2DPGA/3DPGA/STAP and seeded admissible bases d<=4) against '
               'the real default-basis algebra under the relabelling map; duals/regressive product differ by the pseudoscalar orientation '
               '(known finding F9); rejection of differing algebras.')
TRUSTED = ['z3 5.1 (python API)', 'kvc VC generator', 'CPython ast module']
ASSUMPTIONS = [K.ASSUME_CPYTHON, 'custom-basis branch of __post_init__: under contract for every well-formed basis (builtin contracts of min / sorted / enumerate / filtering comprehension assumed); fromname tables: bounded stand-in only',
               'matrix representations in custom bases: see C18 (known finding F10)']
ASSUMED = ['dataclass-generated __eq__ compares exactly the fields with compare=True, as tuples']


def build(H, tier, seed):
    A.vc_swap_blades(H, lengths=range(0, 9) if tier == 'quick' else range(0, 17))
    A.vc_compute_sign(H)
    A.vc_custom_basis(H)
    A.vc_blade2canon(H)
    A.vc_blade2canon_concrete(H)
    A.vc_blade2canon_concrete(H, d=4, start=12)      # generators c, d, e, f: one is named like the prefix of every blade name
    A.vc_bladedict_getitem(H)
    D.vc_call_binary(H)
    O.vc_equality_fields(H)
    T.table_lemmas(H, tier)


def standins(tier, seed):
    import random
    from props.C01 import _custom_bases
    rng = random.Random(seed)
    ops = ['gp', 'op', 'ip', 'lc', 'rc', 'sp', 'cp', 'acp', 'add', 'sub', 'sw', 'proj', 'neg', 'reverse', 'involute', 'conjugate', 'normsq',
           'inv', 'div', 'hodge', 'unhodge', 'rp', 'polarity', 'unpolarity']
    n = 3 if tier == 'quick' else 12
    cfgs = [dict(name='2DPGA'), dict(name='3DPGA'), dict(p=3, basis=['e', 'e1', 'e2', 'e3', 'e12', 'e31', 'e23', 'e123']),
            dict(p=3, basis=['e', 'e1', 'e2', 'e3', 'e12', 'e13', 'e23', 'e132']), dict(p=2, q=0, r=1, start_index=2),
            # same generators (names, order, start index) as the default-basis algebra it is compared with, only the blades are spelled
            # differently: the two algebras live in one process and must not share anything derived from their spellings
            dict(signature=[1, 1, 1], basis=['e', 'e0', 'e1', 'e2', 'e10', 'e20', 'e21', 'e210']),
            dict(signature=[0, 1, 1], basis=['e', 'e0', 'e1', 'e2', 'e10', 'e02', 'e21', 'e021'])]
    for d in (2, 3) + ((4,) if tier != 'quick' else ()):
        cfgs += _custom_bases(rng, d, 2 if tier == 'quick' else 12)
    if tier != 'quick':
        cfgs.append(dict(name='STAP'))
    jobs = [{'name': f'relabel#{i}', 'bound': f'{n} seeded operand pairs per custom-basis configuration x {len(ops)} operators + coefficient accessors, against the real default-basis algebra of the same signature',
             'job': {'kind': 'relabel', 'module': 'standins.jobs5', 'ops': ops, 'configs': [dict(c, random=n)], 'seed': seed + i}} for i, c in enumerate(cfgs)]
    pairs = [[dict(signature=[1, -1]), dict(signature=[-1, 1]), 'signature order'], [dict(p=2), dict(p=2, start_index=0), 'start_index'],
             [dict(p=2), dict(p=1, q=1), 'p,q'], [dict(p=3), dict(p=3, basis=['e', 'e1', 'e2', 'e3', 'e12', 'e31', 'e23', 'e123']), 'basis'],
             [dict(p=2, q=0, r=1), dict(p=2, q=1, r=0), 'r vs q'], [dict(p=2), dict(p=3), 'dimension'],
             [dict(signature=[0, 1, 1]), dict(signature=[1, 1, 0]), 'signature order (null generator position)'],
             [dict(p=3), dict(p=3, basis=['e', 'e2', 'e1', 'e3', 'e12', 'e13', 'e23', 'e123']), 'same blade names, generators in another order'],
             [dict(name='2DPGA'), dict(p=2, q=0, r=1, basis=['e', 'e0', 'e1', 'e2', 'e20', 'e01', 'e12', 'e012']), 'same blade names as 2DPGA, generators in another order']]
    # construction routes on custom bases (blade names as keys of a mapping / keys= / keywords, canonical and permuted spellings): the
    # relabelling map applies to constructors as it does to accessors
    jobs.append({'name': 'construct-custom', 'bound': f'{n} seeded key sets per custom-basis configuration x 6 construction routes + permuted spellings as keywords / mapping keys / keys= names',
                 'job': {'kind': 'roundtrip', 'module': 'standins.jobs4', 'seed': seed,
                         'configs': [dict(c, random=n) for c in (dict(name='2DPGA'), dict(name='3DPGA'), dict(p=3, basis=['e', 'e1', 'e2', 'e3', 'e12', 'e31', 'e23', 'e123']), dict(p=2, q=0, r=1, start_index=2))]}})
    jobs.append({'name': 'reject', 'bound': '9 pairs of algebras differing in signature order / start_index / p,q,r / basis (spelling, generator order) / dimension', 'job': {'kind': 'reject', 'module': 'standins.jobs5', 'pairs': pairs}})
    return jobs
