"""Shared pieces of the property modules."""

ASSUME_CPYTHON = ('CPython semantics of the constructs the interpreted bodies use, as encoded by kvc '
                  '(DESIGN.md section 2.2): unbounded ints (bit-vector encoding with statically checked bounds), '
                  'dict insertion order, itertools.product enumerates every pair once, eager evaluation of '
                  'generator expressions')
ASSUME_RING = ('coefficients are elements of a commutative ring; encoded as reals, sound because no branch of the '
               'verified code depends on a coefficient value (engine-enforced); floating point is not modelled')
ASSUME_GRAMMAR = ('mathstr-grammar: Python parses the text [ - ] m ((+|-) m)* with m = id(*id)* as the signed sum of '
                  'the products of its identifiers (needed to read the string posts of mathstr as ring identities)')
ASSUME_TAIL = ('compile()/exec() evaluate generated source per the language semantics; sympy lambdify/cse/printer '
               'preserve the value of expressions (assumed contract; exercised only by the bounded symcoef stand-in)')
ASSUME_TSIGNS = ('T-signs facts about algebra.signs used by operator VCs (zero-symmetry, non-zero on disjoint blades) '
                 'are consequences of the table contract proved under C01')

SIGS_SMALL = [dict(p=p, q=q, r=r) for p in range(3) for q in range(3) for r in range(3) if 1 <= p + q + r <= 3]


def symcoef_jobs(name, ops, tier, seed, extra_configs=()):
    """Bounded stand-in: the real operators on exact polynomial coefficients (one evaluation = all coefficient
    values for that key pattern).  Bound: the patterns enumerated here."""
    jobs = []
    if tier == 'quick':
        cfgs = [dict(p=1, exhaustive=True, max_cases=400), dict(p=0, q=1, exhaustive=True),
                dict(p=0, q=0, r=1, exhaustive=True)]
        rnd = [dict(c, random=12) for c in SIGS_SMALL[::2]] + [dict(p=3, q=0, r=1, random=10), dict(p=2, q=2, r=0, random=8)]
        # algebras above six dimensions use the lazily filled sign table: sparse operands only (a dense one has 128+ blades)
        lazy = [dict(p=7, random=3, modes=['sparse', 'perm']), dict(p=4, q=3, r=1, random=2, modes=['sparse'])]
        chunks = [cfgs + lazy, rnd[:len(rnd) // 2], rnd[len(rnd) // 2:]]
        bound = 'all ordered key-tuple pairs for d<=1; 8-12 seeded random patterns (sparse/grade/permuted/full) per signature, d<=4; sparse patterns in d = 7, 8 (lazy sign table)'
    else:
        cfgs = [dict(p=1, exhaustive=True), dict(q=1, exhaustive=True), dict(r=1, exhaustive=True)]
        d2 = [dict(p=p, q=q, r=2 - p - q, exhaustive=True, max_cases=4225) for p in range(3) for q in range(3 - p)]
        rnd = [dict(c, random=60) for c in SIGS_SMALL] + [dict(p=3, q=0, r=1, random=60), dict(p=2, q=2, r=0, random=60),
                                                          dict(p=4, q=1, r=0, random=40), dict(p=3, q=1, r=1, random=40)]
        lazy = [dict(p=7, random=10, modes=['sparse', 'perm']), dict(p=4, q=3, r=1, random=8, modes=['sparse', 'perm']), dict(p=6, q=0, r=1, random=8, modes=['sparse'])]
        chunks = [cfgs + lazy] + [[c] for c in d2] + [rnd[i::6] for i in range(6)]
        bound = 'all ordered pairs for d<=1; all 65^2 ordered-subset pairs per d=2 signature; 40-60 seeded patterns per signature d<=5; sparse patterns in d = 7, 8 (lazy sign table)'
    # by-name dispatch: with a wrapper set the generated functions are looked up in algebra.numspace by their names; two rounds
    chunks = chunks + [[dict(p=3, wrapper='identity', random=5, rounds=2), dict(p=2, q=0, r=1, wrapper='wraps', random=5, rounds=2)]]
    bound += '; two algebras with a wrapper (by-name dispatch), every operator asked twice per pattern'
    # twins: a default-basis and a custom-basis algebra with the same signature and start index in one process, asked for the
    # same (few, grade-block) key patterns one after the other - whatever one of them generated must not serve the other
    chunks = chunks + [[dict(p=2, q=0, r=1, random=8, modes=['grade']), dict(name='2DPGA', random=8, modes=['grade']),
                        dict(p=3, q=0, r=1, random=6, modes=['grade']), dict(name='3DPGA', random=6, modes=['grade']),
                        dict(p=3, random=8, modes=['grade']), dict(p=3, basis=['e', 'e1', 'e2', 'e3', 'e12', 'e31', 'e23', 'e123'], random=8, modes=['grade'])]]
    bound += '; default / custom-basis twins over one signature in one process on grade-block patterns'
    for i, ch in enumerate(chunks):
        jobs.append({'name': f'symcoef[{name}]#{i}', 'bound': bound,
                     'job': {'kind': 'symcoef', 'ops': list(ops), 'configs': list(ch) + (list(extra_configs) if i == 0 else []),
                             'seed': seed * 1000 + i}})
    return jobs


# custom bases (reordered generators, permuted blade spellings): every operator property holds there too
CUSTOM = [dict(name='2DPGA', random=6), dict(name='3DPGA', random=4),
          dict(p=3, basis=['e', 'e1', 'e2', 'e3', 'e12', 'e31', 'e23', 'e123'], random=6),
          dict(p=2, basis=['e', 'e2', 'e1', 'e21'], random=6)]


BINARY_OPS = ('gp', 'op', 'ip', 'lc', 'rc', 'sp', 'cp', 'acp', 'rp', 'add', 'sub')
UNARY_OPS = ('neg', 'reverse', 'involute', 'conjugate', 'hodge', 'unhodge', 'polarity', 'unpolarity')


def replay_operator(result, tier, seed, smt2):
    """Model-directed replay for refuted obligations of the codegen_<op> contracts."""
    import re
    from kvc import replay as R
    m = re.match(r'codegen_([a-z]+)', result['name'])
    if not m or smt2 is None:
        return None
    op = m.group(1)
    if op == 'product':
        op = 'gp'
    if op == 'involutions':
        op = 'reverse'
    if op in BINARY_OPS:
        extra = {'cp': ('acp',), 'acp': ('cp',), 'lc': ('rc',), 'rc': ('lc',)}.get(op, ())
        return R.operator_replay(op, smt2, result.get('model'), binary=True, extra_ops=extra)
    if op in UNARY_OPS:
        return R.operator_replay(op, smt2, result.get('model'), binary=False)
    return None


def replay_any(result, tier, seed, smt2):
    """Replay of a refuted obligation: generic-element (polynomial) obligations carry a `replay_case` (operator, signature,
    stored blades of the failing shape) that is run natively on random rational coefficients; solver obligations of the
    codegen_<op> contracts go through the model-directed replay."""
    case = (result.get('meta') or {}).get('replay_case')
    if case:
        from kvc import nativerun
        job = {'kind': 'gcase', 'module': 'standins.jobs7', 'config': {'signature': case['signature']} if case['signature'] else {'p': 0},
               'op': case['op'], 'x_keys': case['x_keys'], 'seed': seed}
        if case.get('y_keys') is not None:
            job['y_keys'] = case['y_keys']
        r = nativerun.run_jobs([job], timeout=600)[0]
        if r.get('status') == 'ok' and r.get('failures'):
            return {'failing_input': r['failures'][0], 'replay_case': case}
        return {'note': 'no failing input in the directed native runs of the failing shape', 'replay_case': case,
                'native': {k: r.get(k) for k in ('status', 'evaluations', 'note', 'error') if k in r}}
    return replay_operator(result, tier, seed, smt2)
