"""C03: op / ip / lc / rc / sp / cp / acp match their grade-projection definitions."""
from contracts import codegen_c as C
from lemmas import filters as LF
from . import common as K

LEVEL = 'proof'
OPS = ['op', 'ip', 'lc', 'rc', 'sp', 'cp', 'acp']
EXPLANATION = ('For each operator the real codegen_<op> body is interpreted; it must hand codegen_product closures that, '
               'for every pair of valid keys, select the pair iff the property statement does (grade r+s, |r-s|, s-r, r-s, 0; '
               '(s_xy -/+ s_yx)/2 != 0), give output key kx^ky and the stated sign.  Grade is opaque in these VCs; the '
               'bridge mask-condition <=> grade-condition is the lemma family L-op..L-sp, proved from L-pc-add/L-pc-zero '
               '(grade revealed as popcount).  codegen_product itself carries the fold invariant (see C02).  '
               'ip+sp = lc+rc and cp+acp = gp follow per pair: lemmas L-ip+sp and L-cp+acp.')
TRUSTED = ['z3 5.1 (python API), cvc5 1.0.3 / z3 4.8.12 CLIs as fall-back', 'kvc VC generator', 'CPython ast module']
ASSUMPTIONS = [K.ASSUME_CPYTHON, K.ASSUME_RING, K.ASSUME_GRAMMAR, K.ASSUME_TAIL, K.ASSUME_TSIGNS,
               'keys < 2**16 (generator names are single hex digits)']
ASSUMED = ['lambdify / func_builder -> compile/exec evaluation contract (see C02)']


def build(H, tier, seed):
    import z3
    from kvc.values import WB
    C.vc_mathstr(H)
    C.vc_codegen_product(H)
    for op in OPS:
        C.vc_product_operator(H, op)
    from contracts import inverse_c as I
    I.vc_products_generic(H, tier, only_ops=OPS)
    from contracts import dispatch_c as D
    D.vc_binary_chain(H)
    from contracts import codegen_glue_c as G
    G.vc_do_codegen(H)
    G.vc_func_builder(H)
    for n, pre, goal in LF.all_lemmas():
        H.add_goal('lemma/' + n, pre, goal)
    # consequences stated in C03, per pair of blades (bilinearity lifts them to multivectors):
    x, y = z3.BitVec('x', WB), z3.BitVec('y', WB)
    a, b, c, inst = LF._parts(x, y)
    G = LF.Grade
    pre = [LF.valid(x), LF.valid(y)] + inst
    g = G(x ^ y)
    ip_ = g == LF.absdiff(G(x), G(y))
    lc_, rc_, sp_ = g == G(y) - G(x), g == G(x) - G(y), g == 0
    cnt = lambda t: z3.If(t, 1, 0)
    H.add_goal('lemma/L-ip+sp=lc+rc (each pair contributes equally often to ip+sp and to lc+rc)', pre,
               cnt(ip_) + cnt(sp_) == cnt(lc_) + cnt(rc_))
    sxy, syx = z3.Int('sxy'), z3.Int('syx')
    dom = [z3.Or(sxy == 1, sxy == -1, sxy == 0), z3.Or(syx == 1, syx == -1, syx == 0), (sxy == 0) == (syx == 0)]
    H.add_goal('lemma/L-cp+acp=gp ((s_xy - s_yx)/2 + (s_xy + s_yx)/2 == s_xy)', dom,
               (sxy - syx) + (sxy + syx) == 2 * sxy)


def standins(tier, seed):
    # the named product methods with a plain number as the other operand (seeded change C03n: x.lc(number) rescaled x)
    nm = [{'name': 'number-operand', 'bound': 'full and seeded key patterns x 4 plain numbers (int, float, Fraction) x every product x method form and both algebra-level operand orders, against the product with the scalar multivector',
           'job': {'kind': 'number_methods', 'module': 'standins.jobs7', 'ops': OPS + ['gp'], 'seed': seed,
                   'configs': [dict(p=3, random=3), dict(p=1, q=1, r=1, random=3)] if tier == 'quick' else [dict(p=3, random=8), dict(p=1, q=1, r=1, random=8), dict(p=2, q=2, random=4), dict(name='3DPGA', random=4)]}}]
    return nm + K.symcoef_jobs('C03', OPS + ['gp'], tier, seed, extra_configs=K.CUSTOM)


replay = K.replay_any
