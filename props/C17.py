"""C17: the built-in polynomial arithmetic is exact rational-function arithmetic."""
from contracts import polynomial_c as P
from . import common as K

LEVEL = 'other'
EXPLANATION = ('Proved (polynomials of any length): compare implements the lexicographic-then-length order on variable lists (loop invariant: '
               'compared positions equal; None sentinel greatest); Polynomial.__add__ keeps the merge invariant Den(res) == Den(self[:ai]) + '
               'Den(other[:bi]) with res strictly increasing below both heads and no zero coefficient, hence WF(result) and Den(result) == '
               'Den(self) + Den(other) (while-loop contract, compare abstracted by its contract); Polynomial.__bool__/__eq__(0) are exact zero '
               'tests on the enumerated well-formed shapes and the explicit zero; RationalPolynomial.__add__/__mul__/__neg__/__sub__/inv/'
               '__truediv__ denote the sum/product/... of the rational functions of their operands and keep the denominator non-zero '
               '(value-level model of Polynomial through its contracts; nonlinear real arithmetic); Polynomial.__mul__ (nested loops, prefix-product '
               'ghost), the common-factor loop of RationalPolynomial.__mul__; __pow__ for EVERY integer exponent: Polynomial/RationalPolynomial.__pow__ '
               'return the last value of power_supply(self, |n|) (inverted for n < 0), power_supply yields x ** e for every element e of the addition '
               'chain of n (loop invariant over a chain of unknown length), and AdditionChains.minimal_chains returns well-formed chains for every '
               'limit (invariant over its three nested loops).  Not under contract (bounded only): tosympy.  Bounded: seeded expression trees on the real classes against exact rational-function arithmetic.')
TRUSTED = ['z3 5.1 (python API, nlsat for the rational-function posts)', 'kvc VC generator', 'CPython ast module']
ASSUMPTIONS = [K.ASSUME_CPYTHON, 'coefficients are numbers modelled as reals: floating-point rounding is not modelled (division by a plain number goes through 1/n in floats)',
               'distinct monomials are linearly independent, so a well-formed non-empty polynomial is not the zero function (mathematics)',
               'the order on variable lists is embedded in the reals (any countable total order embeds in the rationals)',
               'operands are well formed (WF): the shapes code generation produces']
ASSUMED = ['tosympy (sympy)', 'powers of one element associate and commute under * (the only fact the power_supply contract uses about the operation)']


def build(H, tier, seed):
    P.vc_compare(H)
    P.vc_poly_add(H)
    P.vc_rational(H)
    P.vc_zero_tests(H)
    P.vc_poly_mul(H)
    from contracts import powers_c as PW
    PW.vc_poly_pow(H)
    PW.vc_power_supply(H)
    PW.vc_minimal_chains(H)


def standins(tier, seed):
    n = 150 if tier == 'quick' else 1500
    return [{'name': f'polynomial#{i}', 'bound': f'{n} seeded expression trees (depth<=4) over 6 variables and small ints with + - * / neg ** inv; exact comparison with rational-function arithmetic; zero tests; ==; tosympy at rational points; compare on 40x40 monomials',
             'job': {'kind': 'polynomial', 'module': 'standins.jobs7', 'trees': n, 'seed': seed * 8 + i}} for i in range(4 if tier == 'quick' else 8)]
