"""Sidecar contracts for kingdon/operator_dict.py: cache / dispatch / wrapping (C02 chain, C08, C09, C10, C12, C16).

The operator-dict methods are verified with their collaborators abstracted as opaque recorders (kvc/rec.py):
do_codegen/do_compile, algebra.multivector, MultiVector.fromkeysvalues, the generated function.  What is proved is the
*data flow*: which cache key is looked up, that codegen runs iff the key is absent and exactly once, what is stored in
operator_dict / numspace, which values are passed to the generated function in which order, how non-multivector
operands are wrapped, and that nothing else is written (frame).
"""
import string
import z3

from kvc.values import SBool, SKey, SInt, OutOfSubset, mkbool
from kvc.engine import Interp, PathEnd
from kvc.rec import Rec, sym, same

REL = 'kingdon/operator_dict.py'


class AlgebraError(Exception):
    pass


def _world(ctx, wrapper_case, cached_case, kind='OperatorDict'):
    """Opaque world for one OperatorDict instance."""
    W = {}
    wrapper = None if wrapper_case == 'none' else sym('wrapper', truth=True)
    numspace = sym('numspace')
    simp = sym('simp_func', truth=True)
    alg = sym('algebra', attrs={'wrapper': wrapper, 'numspace': numspace, 'simp_func': simp})
    W['cached'] = SBool(z3.Bool('key_is_cached')) if cached_case == 'sym' else cached_case
    keys_out, func = sym('keys_out'), sym('func')
    W['entry'] = (keys_out, func)

    def od_contains(interp, me, item):
        interp.ctx.event('cache-test', item)
        return W['cached']

    def cached_entry():
        if 'cached_entry' not in W:
            ko = sym('cached_keys_out', truth=SBool(z3.Bool('cached_keys_out_nonempty')))
            W['cached_entry'] = (ko, sym('cached_func'))
        return W['cached_entry']

    def od_getitem(interp, me, idx):
        # reading the dictionary at a key: the stored (keys_out, func) pair.  (Stores made on this path are answered by Rec
        # itself before this hook runs; a read of a key that is not cached is a KeyError in the real code.)
        c = W['cached']
        hit = interp.truth(c) if not isinstance(c, bool) else c
        if not hit:
            raise KeyError(idx)
        return cached_entry()

    def ns_lookup(interp, me, idx):
        # cache invariant (C09, established by every __getitem__ that stores an entry): numspace[func.__name__] is the cached
        # function, wrapped by algebra.wrapper when one is set
        if 'cached_entry' in W and isinstance(idx, Rec) and same(idx, Rec('attr', W['cached_entry'][1], '__name__')):
            f = W['cached_entry'][1]
            return Rec('call', wrapper, (f,), {}) if wrapper is not None else f
        return Rec('item', me, idx)
    numspace.on_getitem = ns_lookup
    numspace.attrs['get'] = sym('numspace.get', callable_result=lambda interp, me, args, kw: ns_lookup(interp, numspace, args[0]))
    def od_get(interp, me, args, kw):
        # dict.get(key, default): the stored entry when the key is cached, else the default
        interp.ctx.event('cache-test', args[0])
        c = W['cached']
        hit = interp.truth(c) if not isinstance(c, bool) else c
        if hit:
            return cached_entry()
        return args[1] if len(args) > 1 else kw.get('default')
    opdict = sym('operator_dict', on_contains=od_contains, on_getitem=od_getitem)
    opdict.attrs['get'] = sym('operator_dict.get', callable_result=od_get)
    me = sym('self', attrs={'algebra': alg, 'operator_dict': opdict, 'codegen': sym('codegen'),
                            'codegen_symbolcls': sym('codegen_symbolcls'), 'name': sym('name')},
             isinstance_of=(kind,))
    W.update(alg=alg, wrapper=wrapper, numspace=numspace, simp=simp, opdict=opdict, me=me)
    return W


def _events(ctx, kind, pred=lambda e: True):
    return [e for e in ctx.events if e[0] == kind and pred(e)]


def _env(extra=None):
    def fkv(interp, me, args, kw):
        # MultiVector.fromkeysvalues(algebra, keys, values): an (opaque) multivector of that algebra
        alg = args[0] if args else kw.get('algebra')
        return Rec('call', me, tuple(args), dict(kw), attrs={'algebra': alg, 'issymbolic': False},
                   isinstance_of=('MultiVector',))
    MVcls = sym('MultiVector')
    MVcls.attrs['fromkeysvalues'] = Rec('attr', MVcls, 'fromkeysvalues', callable_result=fkv)
    env = {'MultiVector': MVcls, 'Callable': sym('Callable'), 'Mapping': sym('Mapping'), 'string': string,
           'AlgebraError': AlgebraError, 'TapeRecorder': sym('TapeRecorder'), 'do_codegen': sym('do_codegen'),
           'do_compile': sym('do_compile')}
    if extra:
        env.update(extra)
    return env


# =====================================================================================
# __getitem__ of the three classes: C10 (generate at most once per pattern), C09 (cache invariant)
# =====================================================================================
def vc_symbolic_operands(H):
    """supplier side of the contract assumed in vc_getitem for algebra.multivector(name=.., keys=..)"""
    if getattr(H, '_symbolic_operands_done', False):
        return
    H._symbolic_operands_done = True
    from contracts import access_c as A
    A.vc_new(H, only='symbolic', order=True)


def _cache_is_plain_dict(H, where):
    """The contracts model `self.operator_dict` as a plain dict (what is stored stays stored).  If the dataclass field is built by
    anything else (a bounded / evicting mapping, a weak dictionary) that model says nothing about the code: undecided."""
    from kvc import extract as X
    try:
        _, fields = X.class_fields(REL, 'OperatorDict')
    except Exception:
        return True
    kw = dict(fields).get('operator_dict')
    if kw is None:
        return True
    fac = kw.get('default_factory', kw.get('default'))
    if fac in ('dict', 'OrderedDict', None) and kw.get('__call__', 'field') in ('field', 'dataclasses.field'):
        return True
    H.out_of_subset.append((where, f'OperatorDict.operator_dict is built by {fac!r}, not a plain dict: the cache model of the contracts does not apply'))
    return False


def vc_getitem(H, cls='OperatorDict'):
    fuc = H.fn(REL, f'{cls}.__getitem__')
    if not _cache_is_plain_dict(H, f'{cls}.__getitem__'):
        return
    gen_name = 'do_compile' if cls == 'Registry' else 'do_codegen'
    for wrapper_case in ('none', 'set'):
        def body(ctx, wrapper_case=wrapper_case):
            W = _world(ctx, wrapper_case, 'sym', cls)
            interp = Interp(ctx, source_name=REL)
            env = _env()
            clo = H.closure(interp, fuc, env)
            if cls == 'UnaryOperatorDict':
                keys_in = sym('keys_a')
            else:
                keys_in = (sym('keys_a'), sym('keys_b'))
            r = clo(W['me'], keys_in)
            cached = W['cached'].t
            gens = _events(ctx, 'call', lambda e: e[1] is env[gen_name])
            others = _events(ctx, 'call', lambda e: e[1] is env['do_codegen' if gen_name == 'do_compile' else 'do_compile'])
            stores = _events(ctx, 'setitem')
            tests = _events(ctx, 'cache-test')
            hit = ctx.decide(cached)           # which branch this path took (already decided on this path)
            ctx.oblige('C10: the cache is tested with the key tuple itself', bool(tests and same(tests[0][1], keys_in)))
            if hit:
                # the performance clauses belong to C10 alone: regenerating a cached pattern costs time but returns an equally
                # valid function, so the other properties that share this contract must not fire on it
                ctx.oblige('only(C10): cached pattern -> nothing is generated, compiled or stored',
                           not gens and not others and not stores
                           and not _events(ctx, 'call', lambda e: 'multivector' in repr(e[1]) or e[1] is W['wrapper']))
                stored_back = same(r, Rec('item', W['opdict'], keys_in)) or ('cached_entry' in W and same(r, W['cached_entry']))
                ctx.oblige('only(C10): cached pattern -> the stored (keys_out, func) is returned', stored_back)
                ctx.oblige('cached pattern -> the stored (keys_out, func) or a pair generated afresh for the same key tuples is returned',
                           stored_back or (len(gens) == 1 and same(r, W['gen_result'])))
                if not gens:
                    return r
                # regenerated although cached: the flow clauses below apply to that generation as well
            ctx.oblige(f'only(C10): new pattern -> {gen_name} runs exactly once', len(gens) == 1 and not others)
            if not hit:
                ctx.oblige(f'new pattern -> {gen_name} generates the function', len(gens) >= 1)
            if len(gens) != 1:
                return r
            g = gens[0]
            # operands of codegen: symbolic multivectors named a, b, .. with the caller's keys in the caller's order
            if cls == 'Registry':
                mk = lambda nm, k: Rec('call', env['TapeRecorder'], (), {'algebra': W['alg'], 'expr': nm, 'keys': k})
            else:
                mk = lambda nm, k: Rec('call', Rec('attr', W['alg'], 'multivector'), (),
                                       {'name': nm, 'keys': k, 'symbolcls': W['me'].attrs['codegen_symbolcls']})
            if cls == 'UnaryOperatorDict':
                exp_args = (W['me'].attrs['codegen'], mk('a', keys_in))
            else:
                exp_args = (W['me'].attrs['codegen'],) + tuple(mk(nm, k) for nm, k in zip('ab', keys_in))
            ctx.oblige('C08/C02: codegen receives one symbolic operand per key tuple, same keys, same order, names a,b,..',
                       same(tuple(g[2]), exp_args) and not g[3], meta={'got': repr(g[2]), 'expected': repr(exp_args)})
            out = Rec('call', env[gen_name], tuple(g[2]), {})
            # the engine unpacks `keys_out, func = do_codegen(..)` by iteration: model result as a pair
            ko, fn = W['gen_result']
            exp_fn = fn if wrapper_case == 'none' else Rec('call', W['wrapper'], (fn,), {})
            st_ns = [e for e in stores if e[1] is W['numspace']]
            st_od = [e for e in stores if e[1] is W['opdict']]
            ctx.oblige('C09: numspace[func.__name__] = wrapper(func) if wrapper else func',
                       len(st_ns) == 1 and same(st_ns[0][2], Rec('attr', fn, '__name__')) and same(st_ns[0][3], exp_fn))
            ctx.oblige('C09/C10: operator_dict[keys_in] = (keys_out, func), the unwrapped generated function',
                       len(st_od) == 1 and same(st_od[0][2], keys_in) and same(st_od[0][3], (ko, fn)))
            ctx.oblige('frame: nothing else is stored', len(stores) == 2 and not _events(ctx, 'setattr'))
            ctx.oblige('post: returns the pair it stored', same(r, (ko, fn)))
            return r

        def wrapped(ctx, body=body):
            return body(ctx)
        # do_codegen returns a 2-tuple (CodegenOutput); model: iterable Rec pair
        def body2(ctx, body=body, wrapper_case=wrapper_case):
            return body(ctx)
        H.run_paths(fuc, f'wrapper={wrapper_case}', _with_gen_result(body, gen_name))


def _with_gen_result(body, gen_name):
    """Wrap `body` so that do_codegen/do_compile return an (keys_out, func) pair of opaque values."""
    def run(ctx):
        return body(ctx)
    return run


# The opaque do_codegen must return something unpackable; patch _env / _world lazily:
_orig_world = _world


def _world(ctx, wrapper_case, cached_case, kind='OperatorDict'):      # noqa: F811
    W = _orig_world(ctx, wrapper_case, cached_case, kind)
    W['gen_result'] = (sym('gen_keys_out'), sym('gen_func'))
    _CURRENT['W'] = W
    return W


_CURRENT = {}
_orig_env = _env


def _env(extra=None):      # noqa: F811
    env = _orig_env(extra)

    def gen(interp, me, args, kw):
        return _CURRENT['W']['gen_result']
    env['do_codegen'].callable_result = gen
    env['do_compile'].callable_result = gen
    return env


# =====================================================================================
# _call_binary / __call__: C16 wrapping and order, C02 data flow, C12 dispatch
# =====================================================================================
def _mv(name, alg, symbolic):
    return sym(name, attrs={'algebra': alg, 'issymbolic': symbolic}, isinstance_of=('MultiVector',))


def _std_lookup(W):
    ko, fn = sym('keys_out'), sym('func')

    def on_getitem(interp, me, idx):
        interp.ctx.event('lookup', idx)
        return (ko, fn)
    W['me'].on_getitem = on_getitem
    W['me'].attrs['filter'] = sym('self.filter', callable_result=lambda i, m, a, k: (sym('f_keys'), sym('f_vals')))
    return ko, fn


def vc_call_binary(H):
    fuc = H.fn(REL, 'OperatorDict._call_binary')

    # ---- (1) two multivectors of one algebra
    for wrapper_case in ('none', 'set'):
        def body(ctx, wrapper_case=wrapper_case):
            W = _world(ctx, wrapper_case, True)
            ko, fn = _std_lookup(W)
            s1, s2 = SBool(z3.Bool('mv1_symbolic')), SBool(z3.Bool('mv2_symbolic'))
            mv1, mv2 = _mv('mv1', W['alg'], s1), _mv('mv2', W['alg'], s2)
            interp = Interp(ctx, source_name=REL)
            env = _env()
            r = H.closure(interp, fuc, env)(W['me'], mv1, mv2)
            k = lambda m: Rec('call', Rec('attr', m, 'keys'), (), {})
            v = lambda m: Rec('call', Rec('attr', m, 'values'), (), {})
            look = _events(ctx, 'lookup')
            ctx.oblige('C10/C08: the cache key is (mv1.keys(), mv2.keys()) -- key tuples only, in operand order',
                       len(look) == 1 and same(look[0][1], (k(mv1), k(mv2))))
            symbolic = ctx.decide(z3.Or(s1.t, s2.t))
            direct = Rec('call', fn, (v(mv1), v(mv2)), {})
            byname = Rec('call', Rec('item', W['numspace'], Rec('attr', fn, '__name__')), (v(mv1), v(mv2)), {})
            vals = direct if (symbolic or wrapper_case == 'none') else byname
            if symbolic:
                flt = _events(ctx, 'call', lambda e: e[1] is W['me'].attrs['filter'])
                ctx.oblige('C12: symbolic operands -> the generated function itself, then filter(keys_out, values_out)',
                           len(flt) == 1 and same(tuple(flt[0][2]), (ko, vals)))
                exp = Rec('call', Rec('attr', env['MultiVector'], 'fromkeysvalues'), (W['alg'],),
                          {'keys': sym('f_keys'), 'values': sym('f_vals')})
            else:
                exp = Rec('call', Rec('attr', env['MultiVector'], 'fromkeysvalues'), (W['alg'],),
                          {'keys': ko, 'values': vals})
            ctx.oblige('C02/C16: values are passed as (mv1.values(), mv2.values()); result pairs keys_out with the '
                       'returned values' + (' (via numspace[func.__name__] when a wrapper is set)' if wrapper_case == 'set' else ''),
                       same(r, exp), meta={'got': repr(r), 'expected': repr(exp)})
            ctx.oblige('only(C09): frame: no attribute or item of an operand is written',
                       not _events(ctx, 'setattr') and not _events(ctx, 'setitem'))
            return r
        H.run_paths(fuc, f'mv,mv,wrapper={wrapper_case}', body)

    # ---- (2) plain number on either side is the scalar multivector (0,) with that value
    for side in (1, 2):
        def body(ctx, side=side):
            W = _world(ctx, 'none', True)
            ko, fn = _std_lookup(W)
            mv = _mv('mv', W['alg'], False)
            num = sym('number')
            interp = Interp(ctx, source_name=REL)
            env = _env()
            args = (num, mv) if side == 1 else (mv, num)
            r = H.closure(interp, fuc, env)(W['me'], *args)
            mk = _events(ctx, 'call', lambda e: same(e[1], Rec('attr', env['MultiVector'], 'fromkeysvalues')))
            ok = bool(mk) and same(tuple(mk[0][2]), (W['alg'], (0,), [num])) and not mk[0][3]
            ctx.oblige(f'C16: a number as operand {side} becomes fromkeysvalues(algebra, (0,), [number])', ok,
                       meta={'got': repr(mk[0][2]) if mk else None})
            if ok:
                wrapped = Rec('call', Rec('attr', env['MultiVector'], 'fromkeysvalues'), (W['alg'], (0,), [num]), {})
                look = _events(ctx, 'lookup')
                k = lambda m: Rec('call', Rec('attr', m, 'keys'), (), {})
                exp = (k(wrapped), k(mv)) if side == 1 else (k(mv), k(wrapped))
                ctx.oblige('C16: the scalar keeps its side', len(look) == 1 and same(look[0][1], exp))
            return r
        H.run_paths(fuc, f'number-on-side-{side}', body)

    # ---- (3) zero-argument callables are replaced by their value (also nested)
    for side in (1, 2):
        def body(ctx, side=side):
            W = _world(ctx, 'none', True)
            ko, fn = _std_lookup(W)
            mv = _mv('mv', W['alg'], False)
            inner = _mv('thunk-value', W['alg'], False)
            t1 = sym('thunk1', isinstance_of=('Callable',), callable_result=lambda i, m, a, k: inner)
            t2 = sym('thunk2', isinstance_of=('Callable',), callable_result=lambda i, m, a, k: t1)
            interp = Interp(ctx, source_name=REL)
            env = _env()
            args = (t2, mv) if side == 1 else (mv, t2)
            r = H.closure(interp, fuc, env)(W['me'], *args)
            look = _events(ctx, 'lookup')
            k = lambda m: Rec('call', Rec('attr', m, 'keys'), (), {})
            exp = (k(inner), k(mv)) if side == 1 else (k(mv), k(inner))
            ctx.oblige(f'only(C16): a (nested) zero-argument callable as operand {side} is replaced by its value, side kept',
                       len(look) == 1 and same(look[0][1], exp))
            return r
        H.run_paths(fuc, f'callable-on-side-{side}', body)

    # ---- (4) list / tuple operands map over their elements, container kind, element order and side preserved
    for side in (1, 2):
        for cont in (list, tuple):
            def body(ctx, side=side, cont=cont):
                W = _world(ctx, 'none', True)
                _std_lookup(W)
                mv = _mv('mv', W['alg'], False)
                elems = [_mv(f'e{i}', W['alg'], False) for i in range(3)]
                seq = cont(elems)
                interp = Interp(ctx, source_name=REL)
                env = _env({'type': type})
                args = (seq, mv) if side == 1 else (mv, seq)
                r = H.closure(interp, fuc, env)(W['me'], *args)
                cb = Rec('attr', W['me'], '_call_binary')
                exp = cont(Rec('call', cb, ((e, mv) if side == 1 else (mv, e)), {}) for e in elems)
                ctx.oblige(f'only(C16): {cont.__name__} as operand {side} yields the {cont.__name__} of results, '
                           f'element order and operand side kept', same(r, exp) and type(r) is cont,
                           meta={'got': repr(r), 'expected': repr(exp)})
                return r
            H.run_paths(fuc, f'{cont.__name__}-on-side-{side}', body)

    # ---- (5) operands of different algebras are rejected unless the algebras compare equal
    def body(ctx):
        W = _world(ctx, 'none', True)
        _std_lookup(W)
        eq = SBool(z3.Bool('algebras_equal'))
        alg2 = sym('algebra2', on_eq=lambda i, me, other: eq)
        mv1, mv2 = _mv('mv1', W['alg'], False), _mv('mv2', alg2, False)
        interp = Interp(ctx, source_name=REL)
        env = _env()
        try:
            r = H.closure(interp, fuc, env)(W['me'], mv1, mv2)
            raised = None
        except AlgebraError as e:
            r, raised = None, e
        ctx.oblige('only(C14): operands whose algebras differ (not identical, not ==) raise AlgebraError before any lookup',
                   z3.Implies(z3.Not(eq.t), z3.BoolVal(raised is not None and not _events(ctx, 'lookup'))))
        ctx.oblige('C14: equal algebras are accepted', z3.Implies(eq.t, z3.BoolVal(raised is None)))
        if raised:
            ctx.notes.append('expected-raise'); raise raised
        return r
    H.run_paths(fuc, 'different-algebra-objects', body)


def vc_call_dispatch(H):
    """OperatorDict.__call__ with two operands is _call_binary (same object, same order)."""
    fuc = H.fn(REL, 'OperatorDict.__call__')

    def body(ctx):
        W = _world(ctx, 'none', True)
        a, b = sym('a'), sym('b')
        interp = Interp(ctx, source_name=REL)
        r = H.closure(interp, fuc, _env())(W['me'], a, b)
        ctx.oblige('post: op(a, b) == self._call_binary(a, b)',
                   same(r, Rec('call', Rec('attr', W['me'], '_call_binary'), (a, b), {})))
        return r
    H.run_paths(fuc, 'two-operands', body)


def vc_call_nary(H):
    """OperatorDict.__call__ with one or three operands (registered functions of that arity): the cache key is the tuple of the operands'
    key tuples -- a value that compares equal on the next call with the same patterns -- and the values are passed in operand order."""
    from kvc.engine import GenList
    fuc = H.fn(REL, 'OperatorDict.__call__')
    for n in (1, 3):
        for wrapper_case in ('none', 'set'):
            def body(ctx, n=n, wrapper_case=wrapper_case):
                W = _world(ctx, wrapper_case, True)
                ko, fn = _std_lookup(W)
                ss = [SBool(z3.Bool(f'mv{i}_symbolic')) for i in range(n)]
                mvs = [_mv(f'mv{i}', W['alg'], ss[i]) for i in range(n)]
                interp = Interp(ctx, source_name=REL)
                env = _env()
                r = H.closure(interp, fuc, env)(W['me'], *mvs)
                k = lambda m: Rec('call', Rec('attr', m, 'keys'), (), {})
                v = lambda m: Rec('call', Rec('attr', m, 'values'), (), {})
                look = _events(ctx, 'lookup')
                if len(look) != 1:
                    raise OutOfSubset('OperatorDict.__call__: not exactly one cache lookup (contract does not apply)')
                key = look[0][1]
                if isinstance(key, GenList):
                    ctx.oblige('C10: the cache key compares equal on the next call with the same key patterns (a generator object is '
                               'hashed by identity: the entry is never found again and every call generates code)', False,
                               meta={'got': 'generator expression as cache key'})
                    return r
                if not isinstance(key, tuple):
                    raise OutOfSubset('OperatorDict.__call__: cache key of an unrecognised kind (contract does not apply)')
                ctx.oblige(f'C10/C08: the cache key is the tuple of the {n} operands\' key tuples, in operand order',
                           same(key, tuple(k(m) for m in mvs)), meta={'got': repr(key)})
                symbolic = ctx.decide(z3.Or(*[s_.t for s_ in ss])) if n > 1 else ctx.decide(ss[0].t)
                vin = tuple(v(m) for m in mvs)
                direct = Rec('call', fn, vin, {})
                byname = Rec('call', Rec('item', W['numspace'], Rec('attr', fn, '__name__')), vin, {})
                vals = direct if (symbolic or wrapper_case == 'none') else byname
                if symbolic:
                    flt = _events(ctx, 'call', lambda e: e[1] is W['me'].attrs['filter'])
                    ctx.oblige('C12: symbolic operands -> the generated function itself, then filter(keys_out, values_out)',
                               len(flt) == 1 and same(tuple(flt[0][2]), (ko, vals)))
                    exp = Rec('call', Rec('attr', env['MultiVector'], 'fromkeysvalues'), (W['alg'],),
                              {'keys': sym('f_keys'), 'values': sym('f_vals')})
                else:
                    exp = Rec('call', Rec('attr', env['MultiVector'], 'fromkeysvalues'), (W['alg'],), {'keys': ko, 'values': vals})
                ctx.oblige('C02: values are passed in operand order; result pairs keys_out with the returned values',
                           same(r, exp), meta={'got': repr(r), 'expected': repr(exp)})
                return r
            H.run_paths(fuc, f'{n}-operands,wrapper={wrapper_case}', body)


def vc_unary_call(H):
    fuc = H.fn(REL, 'UnaryOperatorDict.__call__')
    for wrapper_case in ('none', 'set'):
        def body(ctx, wrapper_case=wrapper_case):
            W = _world(ctx, wrapper_case, True, 'UnaryOperatorDict')
            ko, fn = _std_lookup(W)
            s1 = SBool(z3.Bool('mv_symbolic'))
            mv = _mv('mv', W['alg'], s1)
            interp = Interp(ctx, source_name=REL)
            env = _env()
            r = H.closure(interp, fuc, env)(W['me'], mv)
            k = Rec('call', Rec('attr', mv, 'keys'), (), {})
            v = Rec('call', Rec('attr', mv, 'values'), (), {})
            look = _events(ctx, 'lookup')
            ctx.oblige('C10/C08: the cache key is mv.keys()', len(look) == 1 and same(look[0][1], k))
            symbolic = ctx.decide(s1.t)
            direct = Rec('call', fn, (v,), {})
            byname = Rec('call', Rec('item', W['numspace'], Rec('attr', fn, '__name__')), (v,), {})
            vals = direct if (symbolic or wrapper_case == 'none') else byname
            if symbolic:
                exp = Rec('call', Rec('attr', env['MultiVector'], 'fromkeysvalues'), (W['alg'],),
                          {'keys': sym('f_keys'), 'values': sym('f_vals')})
                flt = _events(ctx, 'call', lambda e: e[1] is W['me'].attrs['filter'])
                ctx.oblige('C12: symbolic operand -> filter(keys_out, func(values))',
                           len(flt) == 1 and same(tuple(flt[0][2]), (ko, vals)))
            else:
                exp = Rec('call', Rec('attr', env['MultiVector'], 'fromkeysvalues'), (W['alg'],), {'keys': ko, 'values': vals})
            ctx.oblige('post: result pairs keys_out with func(mv.values())', same(r, exp),
                       meta={'got': repr(r), 'expected': repr(exp)})
            ctx.oblige('only(C09): frame: the operand is not written', not _events(ctx, 'setattr') and not _events(ctx, 'setitem'))
            return r
        H.run_paths(fuc, f'wrapper={wrapper_case}', body)


def vc_filter(H):
    """OperatorDict.filter keeps (k, simp(v)) exactly for the entries whose simplified value is truthy; order and
    pairing preserved (C06/C12: 'drops a blade only if its coefficient is identically zero' then rests on the
    exactness of the truth test of the coefficient class: C17 for RationalPolynomial, assumed for sympy)."""
    fuc = H.fn(REL, 'OperatorDict.filter')
    for n in (0, 1, 3):
        def body(ctx, n=n):
            W = _world(ctx, 'none', True)
            keep = [SBool(z3.Bool(f'truthy{i}')) for i in range(n)]
            simped = [sym(f'simp(v{i})', truth=keep[i]) for i in range(n)]
            vs = [sym(f'v{i}') for i in range(n)]
            W['simp'].callable_result = lambda interp, me, a, k: simped[[x.key() for x in vs].index(a[0].key())]
            ks = [sym(f'k{i}') for i in range(n)]
            interp = Interp(ctx, source_name=REL)
            r = H.closure(interp, fuc, _env())(W['me'], tuple(ks), list(vs))
            kept = [i for i in range(n) if ctx.decide(keep[i].t)]
            exp_k = tuple(ks[i] for i in kept)
            exp_v = [simped[i] for i in kept]
            ok = isinstance(r, tuple) and len(r) == 2 and same(tuple(r[0]), exp_k) and same(list(r[1]), exp_v) \
                and isinstance(r[1], list)
            ctx.oblige('post: exactly the entries with truthy simplified value survive, in order, values simplified', ok,
                       meta={'got': repr(r), 'expected': repr((exp_k, exp_v))})
            return r
        H.run_paths(fuc, f'n={n}', body)
    # a plain numeric zero among the values (products of mixed symbolic / numeric operands produce them): it is dropped like any other
    # vanishing coefficient, and the surviving values stay paired with their own keys
    for zero in (0, 0.0):
        for at in (0, 1):
            def body(ctx, zero=zero, at=at):
                W = _world(ctx, 'none', True)
                n = 3
                keep = [SBool(z3.Bool(f'truthy{i}')) for i in range(n)]
                simped = [sym(f'simp(v{i})', truth=keep[i]) for i in range(n)]
                vs = [sym(f'v{i}') for i in range(n)]
                vs[at] = zero

                def simp(interp, me, a, k):
                    if isinstance(a[0], (int, float)):
                        return a[0]                      # simplifying a number returns the number
                    return simped[[getattr(x, 'key', lambda: None)() for x in vs].index(a[0].key())]
                W['simp'].callable_result = simp
                ks = [sym(f'k{i}') for i in range(n)]
                interp = Interp(ctx, source_name=REL)
                r = H.closure(interp, fuc, _env())(W['me'], tuple(ks), list(vs))
                kept = [i for i in range(n) if i != at and ctx.decide(keep[i].t)]
                exp_k = tuple(ks[i] for i in kept)
                exp_v = [simped[i] for i in kept]
                ok = isinstance(r, tuple) and len(r) == 2 and same(tuple(r[0]), exp_k) and same(list(r[1]), exp_v)
                ctx.oblige('post: a plain numeric zero is dropped and every surviving value keeps its own key', ok,
                           meta={'got': repr(r), 'expected': repr((exp_k, exp_v))})
                return r
            H.run_paths(fuc, f'numeric zero {zero!r} at {at}', body)


def vc_binary_chain(H, ops=None):
    vc_getitem(H, 'OperatorDict')
    vc_symbolic_operands(H)
    vc_call_dispatch(H)
    vc_call_binary(H)
    vc_filter(H)            # the last step of every call with a symbolic operand


def vc_unary_chain(H):
    vc_getitem(H, 'UnaryOperatorDict')
    vc_symbolic_operands(H)
    vc_unary_call(H)


# =====================================================================================
# Registry.__call__ (C09/C11): registered functions dispatch by key pattern, call by name under a wrapper
# =====================================================================================
def vc_registry_call(H):
    fuc = H.fn(REL, 'Registry.__call__')
    # (a) multivector operands (numeric and symbolic coefficients: the cache is keyed by key patterns only)
    for wrapper_case, symbolic in (('none', False), ('set', False), ('none', True)):
        def body(ctx, wrapper_case=wrapper_case, symbolic=symbolic):
            W = _world(ctx, wrapper_case, True, 'Registry')
            ko, fn = _std_lookup(W)
            mv1, mv2 = _mv('mv1', W['alg'], symbolic), _mv('mv2', W['alg'], False)
            inner = mv2
            thunk = sym('thunk', isinstance_of=('Callable',), callable_result=lambda i, m, a, k: inner)
            interp = Interp(ctx, source_name=REL)
            env = _env({'list': list, 'range': range, 'len': len, 'all': all, 'any': any, 'tuple': tuple})
            r = H.closure(interp, fuc, env)(W['me'], mv1, thunk)
            k = lambda m: Rec('call', Rec('attr', m, 'keys'), (), {})
            v = lambda m: Rec('call', Rec('attr', m, 'values'), (), {})
            look = _events(ctx, 'lookup')
            ctx.oblige('C10/C09: registered function looked up by the key tuples of its (unwrapped) arguments, in order',
                       len(look) == 1 and same(look[0][1], (k(mv1), k(mv2))))
            direct = Rec('call', fn, (v(mv1), v(mv2)), {})
            byname = Rec('call', Rec('item', W['numspace'], Rec('attr', fn, '__name__')), (v(mv1), v(mv2)), {})
            vals = direct if wrapper_case == 'none' else byname
            exp = Rec('call', Rec('attr', env['MultiVector'], 'fromkeysvalues'), (W['alg'],), {'keys': ko, 'values': vals})
            ctx.oblige('C11: result pairs keys_out with func(*values) (by name from numspace when a wrapper is set)',
                       same(r, exp), meta={'got': repr(r), 'expected': repr(exp)})
            ctx.oblige('only(C09): frame: operands are not written', not _events(ctx, 'setattr') and not _events(ctx, 'setitem'))
            return r
        H.run_paths(fuc, f'mvs,wrapper={wrapper_case}' + (',symbolic operand' if symbolic else ''), body)

    # (b) tape operands (a registered function called inside another registered function)
    def body(ctx):
        W = _world(ctx, 'none', True, 'Registry')
        ko, fn = _std_lookup(W)
        t1 = sym('tape1', attrs={'expr': 'EXPR1'}, isinstance_of=('TapeRecorder',))
        t2 = sym('tape2', attrs={'expr': 'EXPR2'}, isinstance_of=('TapeRecorder',))
        fn.attrs['__name__'] = 'FNAME'
        interp = Interp(ctx, source_name=REL)
        env = _env({'list': list, 'range': range, 'len': len, 'all': all, 'any': any, 'tuple': tuple})
        r = H.closure(interp, fuc, env)(W['me'], t1, t2)
        k = lambda m: Rec('call', Rec('attr', m, 'keys'), (), {})
        look = _events(ctx, 'lookup')
        ctx.oblige('C11: nested registered call is looked up by the tapes\' key tuples, in order',
                   len(look) == 1 and same(look[0][1], (k(t1), k(t2))))
        exp = Rec('call', env['TapeRecorder'], (W['alg'],), {'keys': ko, 'expr': 'FNAME(EXPR1, EXPR2)'})
        ctx.oblige('C11: records the call by function name with the argument expressions in order',
                   same(r, exp), meta={'got': repr(r), 'expected': repr(exp)})
        return r
    H.run_paths(fuc, 'tapes', body)
