"""Sidecar contracts for the power machinery of kingdon/codegen.py: `power_supply` (generic exponent) and
`AdditionChains.minimal_chains`, and for the `__pow__` methods that are built on them (C07, C11, C17, C19).

power_supply(x, n: int, operation)
  requires  n >= 1; AdditionChains contract (below) for the chain of n
  ensures   the k-th yielded value is x ** chain(n)[k] (a product of that many factors x under `operation`), in particular the
            last one is x ** n; no KeyError / IndexError on the way
  proof     loop invariant over the unknown-length chain: `powers` holds exactly the exponents 1 and chain(n)[0..k) and maps each
            exponent e to x ** e.  Values are tracked as (base, exponent): x**a <operation> x**b = x**(a+b) is the only fact used
            about `operation` (powers of one element associate and commute).

AdditionChains(limit)[v]  (ghost description: L(v) = length, c(v, i) = i-th element)
  A1  c(v, 0) == 1, c(v, L(v)-1) == v, every element >= 1
  A2  every prefix of a chain is the chain of its last element: L(c(v,i)) == i+1 and c(c(v,i), i') == c(v, i') for i' <= i
  A3  every element after the first is the previous element plus an earlier (or the same previous) element
  A1..A3 are *assumed* here and established for the real `minimal_chains` body by `vc_minimal_chains`.
"""
import ast
import z3

from kvc.values import SBool, SInt, OutOfSubset, mkbool
from kvc.engine import Interp, LoopSpec, PathEnd, GenList
from kvc.models import SymSeq, sint

CG = 'kingdon/codegen.py'


class PowVal:
    """base ** e for one fixed base"""

    def __init__(self, e):
        self.e = sint(e)

    def __mul__(self, o):
        if isinstance(o, PowVal):
            return PowVal(self.e + o.e)
        return NotImplemented

    def __repr__(self):
        return f'x**({self.e})'


class _Chains:
    """ghost description of AdditionChains(limit): L(v), c(v, i), w(v, i) (index of the second summand of element i)"""

    def __init__(self, ctx):
        I = z3.IntSort()
        self.ctx = ctx
        self.L = z3.Function('chain_len', I, I)
        self.c = z3.Function('chain_el', I, I, I)
        self.w = z3.Function('chain_summand', I, I, I)

    def facts(self, v, i):
        """A1..A3 instantiated at chain v, index i (and i-1)"""
        L, c, w = self.L, self.c, self.w
        inr = z3.And(i >= 0, i < L(v))
        self.ctx.assume(z3.And(L(v) >= 1, c(v, 0) == 1, c(v, L(v) - 1) == v, z3.Implies(inr, c(v, i) >= 1)))
        u = c(v, i)
        self.ctx.assume(z3.Implies(inr, z3.And(L(u) == i + 1, c(u, i) == u,
                                               z3.Implies(i >= 1, z3.And(c(u, i - 1) == c(v, i - 1), c(v, i - 1) >= 1)))))
        self.ctx.assume(z3.Implies(z3.And(inr, i >= 1), z3.And(w(v, i) >= 0, w(v, i) <= i - 1, c(v, i) == c(v, i - 1) + c(v, w(v, i)),
                                                               c(v, w(v, i)) >= 1)))


class _ChainSeq(SymSeq):
    def __init__(self, G, v):
        self.G, self.v = G, v
        super().__init__(None, SInt(G.L(v.t)), lambda i: SInt(G.c(v.t, i.t)), 'tuple')

    def kvc_getitem(self, interp, idx):
        if isinstance(idx, int) and not isinstance(idx, bool) and idx < 0:
            n = SInt(self.G.L(self.v.t) + idx)
            interp.ctx.safety('IndexError (negative index into an addition chain)', n.t >= 0)
            return self.get(n)
        return super().kvc_getitem(interp, idx)


class _Earlier:
    """stands for the values yielded before the last one"""

    def __repr__(self):
        return '<earlier powers>'


def vc_power_supply(H):
    fuc = H.fn(CG, 'power_supply')

    def body(ctx):
        G = _Chains(ctx)
        T = SInt(z3.Int('target'))
        ctx.assume(T.t >= 1)
        L, c = G.L, G.c
        made = []

        class AC:
            def kvc_call(self, interp, limit):
                made.append(limit)
                return self

            def kvc_getitem(self, interp, n):
                if not isinstance(n, (int, SInt)):
                    raise OutOfSubset('addition chain of a non-int')
                return _ChainSeq(G, sint(n))
        st = {}

        class Powers:
            """`powers` at the head of iteration n: keys 1 and c(T, j) for j < n; powers[e] == x ** e"""

            def __init__(self, n):
                self.n = n
                self.store = None

            def present(self, k):
                j = z3.Int(ctx.fresh('j'))
                old = z3.Or(k == 1, z3.Exists([j], z3.And(j >= 0, j < self.n.t, k == c(T.t, j))))
                return old if self.store is None else z3.Or(k == self.store[0].t, old)

            def kvc_contains(self, interp, k):
                return mkbool(self.present(sint(k).t))

            def kvc_getitem(self, interp, k):
                k = sint(k)
                ctx.safety('KeyError: powers[..] of an exponent that has not been computed yet', self.present(k.t))
                if self.store is not None:
                    return PowVal(SInt(z3.If(k.t == self.store[0].t, self.store[1].e.t, k.t)))
                return PowVal(k)

            def kvc_setitem(self, interp, k, v):
                if self.store is not None or not isinstance(v, PowVal):
                    raise OutOfSubset('powers[..] stored twice in one iteration, or a value that is not a power of x')
                self.store = (sint(k), v)

        def establish(interp, env, it):
            if not (isinstance(it, _ChainSeq) and z3.eq(it.v.t, T.t)):
                raise OutOfSubset('power_supply: the loop does not run over the addition chain of the target exponent')
            p = env.lookup('powers')
            ok = isinstance(p, dict) and list(p) == [1] and isinstance(p[1], PowVal)
            ctx.oblige('inv-init: powers == {1: x}', z3.BoolVal(False) if not ok else p[1].e.t == 1, 'inv')
            st['yields'] = interp._yield_target(env)
            ctx.oblige('inv-init: nothing yielded before the loop', len(st['yields']) == 0, 'inv')

        def havoc(interp, env, it, n, at_exit):
            G.facts(T.t, n.t)
            G.facts(T.t, n.t - 1)
            env.vars['powers'] = st['powers'] = Powers(n)
            if at_exit:
                # the invariant at exit: one value per chain element was yielded, the k-th being x ** c(T, k)
                st['yields'].extend([_Earlier(), PowVal(SInt(c(T.t, L(T.t) - 1)))])

        def preserve(interp, env, it, n):
            step = c(T.t, n.t)
            p = st['powers']
            ys = st['yields']
            ctx.oblige('inv-step: exactly one value is yielded per chain element', len(ys) == 1 and isinstance(ys[0], PowVal), 'inv')
            if len(ys) == 1 and isinstance(ys[0], PowVal):
                ctx.oblige('inv-step: the value yielded for chain element e is x ** e', ys[0].e.t == step, 'inv')
            if p.store is not None:
                ctx.oblige('inv-step: a new entry is stored under the chain element itself and holds x ** (that element)',
                           z3.And(p.store[0].t == step, p.store[1].e.t == step), 'inv')
            else:
                ctx.oblige('inv-step: nothing stored only if the element is already present', p.present(step), 'inv')
        spec = LoopSpec(establish, havoc, preserve, header='step in exponents')
        interp = Interp(ctx, loop_specs={('power_supply', 0): spec}, source_name=CG)
        r = H.closure(interp, fuc, {'AdditionChains': AC()})(PowVal(1), T)
        ok = isinstance(r, GenList) and len(r.items) == 2 and isinstance(r.items[1], PowVal)
        if not ok:
            raise OutOfSubset('power_supply: the result is not the generator of the loop (contract does not apply)')
        G.facts(T.t, L(T.t) - 1)
        ctx.oblige('post: AdditionChains is asked for the target exponent', len(made) == 1 and isinstance(made[0], SInt) and z3.eq(made[0].t, T.t))
        ctx.oblige('post: the last yielded value is x ** n', r.items[1].e.t == T.t)
        return r
    H.run_paths(fuc, 'int exponent', body)


def vc_power_supply_consecutive(H):
    """power_supply(x, (1, 2, .., N)) for EVERY N >= 1 (the form codegen_shirokov_inv uses): the k-th yielded value is x ** (k + 1).
    Invariant: `powers` holds exactly the exponents 1..k.  For a new exponent v = k + 1 >= 2 the chain of v ends with
    .., a, v with v = a + b, a and b earlier elements, hence 1 <= a, b <= k: both look-ups hit (chain facts A1, A3)."""
    fuc = H.fn(CG, 'power_supply')

    def body(ctx):
        G = _Chains(ctx)
        N = SInt(z3.Int('N'))
        ctx.assume(N.t >= 1)
        L, c = G.L, G.c
        made = []
        exps = SymSeq(None, N, lambda i: i + 1, 'tuple')

        class AC:
            def kvc_call(self, interp, limit):
                made.append(limit)
                return self

            def kvc_getitem(self, interp, n):
                n = sint(n)
                ctx.safety('KeyError: addition chain beyond the limit AdditionChains was built for', z3.And(n.t >= 1, n.t <= sint(made[-1]).t))
                G.facts(n.t, L(n.t) - 1)
                return _ChainSeq(G, n)

        class Max:
            def kvc_call(self, interp, *a, **k):
                if len(a) == 1 and a[0] is exps and not k:
                    return N
                raise OutOfSubset('max() of something other than the exponent sequence')
        st = {}

        class Powers:
            def __init__(self, n):
                self.n, self.store = n, None

            def present(self, k):
                old = z3.Or(k == 1, z3.And(k >= 1, k <= self.n.t))
                return old if self.store is None else z3.Or(k == self.store[0].t, old)

            def kvc_contains(self, interp, k):
                return mkbool(self.present(sint(k).t))

            def kvc_getitem(self, interp, k):
                k = sint(k)
                ctx.safety('KeyError: powers[..] of an exponent that has not been computed yet', self.present(k.t))
                if self.store is not None:
                    return PowVal(SInt(z3.If(k.t == self.store[0].t, self.store[1].e.t, k.t)))
                return PowVal(k)

            def kvc_setitem(self, interp, k, v):
                if self.store is not None or not isinstance(v, PowVal):
                    raise OutOfSubset('powers[..] stored twice in one iteration, or a value that is not a power of x')
                self.store = (sint(k), v)

        def establish(interp, env, it):
            if it is not exps:
                raise OutOfSubset('power_supply: the loop does not run over the exponent sequence')
            p = env.lookup('powers')
            ok = isinstance(p, dict) and list(p) == [1] and isinstance(p[1], PowVal)
            ctx.oblige('inv-init: powers == {1: x}', z3.BoolVal(False) if not ok else p[1].e.t == 1, 'inv')
            st['yields'] = interp._yield_target(env)
            ctx.oblige('inv-init: nothing yielded before the loop', len(st['yields']) == 0, 'inv')

        def havoc(interp, env, it, n, at_exit):
            env.vars['powers'] = st['powers'] = Powers(n)
            if at_exit:
                st['yields'].extend([_Earlier(), PowVal(N)])

        def preserve(interp, env, it, n):
            step = n.t + 1
            p, ys = st['powers'], st['yields']
            ctx.oblige('inv-step: exactly one value is yielded per exponent', len(ys) == 1 and isinstance(ys[0], PowVal), 'inv')
            if len(ys) == 1 and isinstance(ys[0], PowVal):
                ctx.oblige('inv-step: the value yielded for exponent e is x ** e', ys[0].e.t == step, 'inv')
            if p.store is not None:
                ctx.oblige('inv-step: a new entry is stored under the exponent itself and holds x ** (that exponent)',
                           z3.And(p.store[0].t == step, p.store[1].e.t == step), 'inv')
            else:
                ctx.oblige('inv-step: nothing stored only if the exponent is already present', p.present(step), 'inv')
        spec = LoopSpec(establish, havoc, preserve, header='step in exponents')
        interp = Interp(ctx, loop_specs={('power_supply', 0): spec}, source_name=CG)
        r = H.closure(interp, fuc, {'AdditionChains': AC(), 'max': Max()})(PowVal(1), exps)
        ok = isinstance(r, GenList) and len(r.items) == 2 and isinstance(r.items[1], PowVal)
        if not ok:
            raise OutOfSubset('power_supply: the result is not the generator of the loop (contract does not apply)')
        ctx.oblige('post: AdditionChains is built for the largest exponent', len(made) == 1 and isinstance(made[0], SInt) and z3.eq(made[0].t, N.t))
        return r
    H.run_paths(fuc, 'exponents 1..N', body)


# =====================================================================================
# MultiVector.__pow__ / TapeRecorder.__pow__ for a generic integer exponent
# =====================================================================================
class _X:
    """base ** e for base in {'x', 'inv(x)'}: the only operations __pow__ applies to its operand"""

    def __init__(self, base, e, world):
        self.base, self.e, self.world = base, sint(e), world

    def inv(self):
        if self.base != 'x' or not z3.eq(z3.simplify(self.e.t), z3.IntVal(1)):
            raise OutOfSubset('__pow__: inv() of something other than the operand itself')
        return _X('inv(x)', 1, self.world)

    def gp(self, o):
        if not isinstance(o, _X) or o.base != self.base:
            raise OutOfSubset('__pow__: product of powers of different bases')
        return _X(self.base, self.e + o.e, self.world)

    __mul__ = gp

    def sqrt(self):
        return ('sqrt', self)

    def kvc_getattr(self, interp, name):
        if name in ('inv', 'gp', 'sqrt', 'base', 'e', 'world'):
            return getattr(self, name)
        if name == 'algebra':
            return self.world['algebra']
        if name == '__class__':
            return self.world['cls']
        raise OutOfSubset(f'__pow__ reads .{name} of its operand')


def vc_pow_generic(H):
    """x ** n for EVERY integer n >= 1 is a product of exactly n factors x, and for every n <= -1 of exactly -n factors inverse(x)
    (loop invariant: after k iterations `res` is base ** (k + 1)); MultiVector.__pow__ and TapeRecorder.__pow__."""
    from kvc.rec import sym
    for rel, qual in (('kingdon/multivector.py', 'MultiVector.__pow__'), ('kingdon/taperecorder.py', 'TapeRecorder.__pow__')):
        fuc = H.fn(rel, qual)
        for sign in ('positive', 'negative'):
            def body(ctx, sign=sign, rel=rel, fuc=fuc):
                p = SInt(z3.Int('power'))
                ctx.assume(p.t >= 1 if sign == 'positive' else p.t <= -1)
                world = {'algebra': sym('algebra'), 'cls': sym('cls')}
                x = _X('x', 1, world)
                base = 'x' if sign == 'positive' else 'inv(x)'
                st = {}

                def establish(interp, env, it):
                    r0, x0 = env.lookup('res'), env.lookup('x')
                    ok = isinstance(r0, _X) and isinstance(x0, _X) and r0.base == base == x0.base
                    ctx.oblige(f'inv-init: res == x == {base} (one factor)', z3.BoolVal(False) if not ok else z3.And(r0.e.t == 1, x0.e.t == 1), 'inv')
                    st['x'] = x0

                def havoc(interp, env, it, n, at_exit):
                    env.vars['res'] = _X(base, n + 1, world)

                def preserve(interp, env, it, n):
                    r1 = env.lookup('res')
                    ok = isinstance(r1, _X) and r1.base == base and env.lookup('x') is st['x']
                    ctx.oblige('inv-step: one more factor per iteration (res == base ** (k + 2) after iteration k)',
                               z3.BoolVal(False) if not ok else r1.e.t == n.t + 2, 'inv')
                spec = LoopSpec(establish, havoc, preserve)
                interp = Interp(ctx, loop_specs={('__pow__', 0): spec}, source_name=rel)
                r = H.closure(interp, fuc)(x, p)
                if not isinstance(r, _X):
                    raise OutOfSubset(f'__pow__: the result is not a product of powers of the operand ({r!r})')
                n = p.t if sign == 'positive' else -p.t
                ctx.oblige(f'post: x ** n is a product of exactly |n| factors {base}', z3.And(z3.BoolVal(r.base == base), r.e.t == n))
                return r
            H.run_paths(fuc, f'generic {sign} integer exponent', body)


def vc_poly_pow(H):
    """Polynomial.__pow__ / RationalPolynomial.__pow__: the last value of power_supply(self, |n|) (by the contract of power_supply:
    self ** |n| under `*`), inverted by 1 / (..) for negative n."""
    from kvc.rec import Rec, sym, same
    for qual in ('Polynomial.__pow__', 'RationalPolynomial.__pow__'):
        fuc = H.fn('kingdon/polynomial.py', qual)
        for sign in ('positive', 'negative'):
            if sign == 'negative' and qual.startswith('Polynomial'):
                continue

            def body(ctx, sign=sign, qual=qual, fuc=fuc):
                p = SInt(z3.Int('power'))
                ctx.assume(p.t >= 1 if sign == 'positive' else p.t <= -1)
                me = sym('self')
                calls = []
                last = sym('self ** |n|')

                class PS:
                    def kvc_call(self, interp, *a, **k):
                        calls.append((a, k))
                        return GenList([_Earlier(), last])
                r = H.closure(Interp(ctx, source_name='kingdon/polynomial.py'), fuc, {'power_supply': PS()})(me, p)
                ok = len(calls) == 1 and len(calls[0][0]) == 2 and not calls[0][1] and calls[0][0][0] is me and isinstance(calls[0][0][1], SInt)
                ctx.oblige('call: power_supply(self, |n|) with the default operation (*)',
                           z3.BoolVal(False) if not ok else calls[0][0][1].t == (p.t if sign == 'positive' else -p.t))
                if sign == 'positive':
                    ctx.oblige('post: returns the last power yielded (self ** n)', r is last)
                else:
                    ctx.oblige('post: returns 1 / (self ** |n|)', isinstance(r, Rec) and r.kind == 'binop' and r.parts[0] == 'Div' and r.parts[1] == 1 and r.parts[2] is last,
                               meta={'got': repr(r)})
                return r
            H.run_paths(fuc, f'generic {sign} integer exponent', body)


# =====================================================================================
# AdditionChains.minimal_chains: the dictionary it returns satisfies A1..A3 (for every key it holds) and holds every 1..limit
# =====================================================================================
def vc_minimal_chains(H):
    """Loop invariant INV over the three nested loops (while / for over a snapshot of the values / for over one chain):
    every stored chain  s = chains[v]  starts with 1, ends with v, has elements >= 1, and for v != 1 its prefix s[:-1] is the chain
    stored for its last-but-one element p (which is present) and v == p + s[t] for some earlier position t.
    Stores never overwrite (guard `value not in chains`), so the snapshot taken by `chains.copy()` stays a sub-dictionary.
    From INV the chain facts A1..A3 used by the power_supply contract follow by induction over the position (lemmas L-chain-*)."""
    fuc = H.fn(CG, 'AdditionChains.minimal_chains')
    I = z3.IntSort()
    ln = z3.Function('seq_len', I, I)
    el = z3.Function('seq_el', I, I, I)

    class State:
        n = [0]

        def __init__(self, P=None, val=None, wit=None):
            State.n[0] += 1
            k = State.n[0]
            self.P = P or z3.Function(f'present_{k}', I, z3.BoolSort())
            self.val = val or z3.Function(f'chain_of_{k}', I, I)
            self.wit = wit or z3.Function(f'summand_pos_{k}', I, I)

    def WF(S, v):
        s = S.val(v)
        L = ln(s)
        par = el(s, L - 2)
        i = z3.Int('i!wf')
        return z3.Implies(S.P(v), z3.And(
            v >= 1, L >= 1, el(s, 0) == 1, el(s, L - 1) == v,
            z3.ForAll([i], z3.Implies(z3.And(i >= 0, i < L), el(s, i) >= 1)),
            z3.Implies(v == 1, L == 1),
            z3.Implies(v != 1, z3.And(L >= 2, S.P(par), ln(S.val(par)) == L - 1,
                                      z3.ForAll([i], z3.Implies(z3.And(i >= 0, i < L - 1), el(S.val(par), i) == el(s, i))),
                                      S.wit(v) >= 0, S.wit(v) < L - 1, v == par + el(s, S.wit(v))))))

    def body(ctx):
        limit = SInt(z3.Int('limit'))
        ctx.assume(limit.t >= 1)
        v0 = z3.Int('v_generic')
        st = {}

        class SeqVal(SymSeq):
            def __init__(self, sid, key=None):
                self.sid, self.key = sid, key
                super().__init__(None, SInt(ln(sid)), lambda i: SInt(el(sid, i.t)), 'tuple')

            def kvc_getitem(self, interp, idx):
                if isinstance(idx, int) and not isinstance(idx, bool) and idx < 0:
                    n = SInt(ln(self.sid) + idx)
                    ctx.safety('IndexError (negative index into a chain)', n.t >= 0)
                    return self.get(n)
                return super().kvc_getitem(interp, idx)

        class Snapshot:
            def __init__(self, S):
                self.S = S
                self.nkeys = SInt(z3.Int(ctx.fresh('n_keys')))
                self.key_at = z3.Function(ctx.fresh('snapshot_key'), I, I)

            def values(self):
                snap = self

                def get(m):
                    u = snap.key_at(m.t)
                    ctx.assume(snap.S.P(u))
                    ctx.assume(WF(snap.S, u))
                    return SeqVal(snap.S.val(u), key=u)
                seq = SymSeq(None, self.nkeys, get, 'dict_values')
                seq.snapshot = self
                return seq

        class Chains:
            """the dictionary in an abstract state S satisfying INV, plus at most one store made since"""

            def __init__(self, S):
                self.S, self.store = S, None

            def kvc_contains(self, interp, k):
                k = sint(k)
                t = self.S.P(k.t)
                return mkbool(t if self.store is None else z3.Or(k.t == self.store[0].t, t))

            def kvc_setitem(self, interp, k, v):
                if self.store is not None:
                    raise OutOfSubset('minimal_chains: two stores in one iteration')
                self.store = (sint(k), v)

            def copy(self):
                if self.store is not None:
                    raise OutOfSubset('minimal_chains: snapshot taken after a store')
                return Snapshot(self.S)

            def kvc_isinstance(self, interp, cls):
                classes = cls if isinstance(cls, tuple) else (cls,)
                return any(c is dict for c in classes)

        def new_state(snap=None, u=None):
            """havoc: an arbitrary dictionary satisfying INV (instantiated at the generic key, at 1 and at the chain in hand) of
            which the snapshot is still a sub-dictionary"""
            S = State()
            ctx.assume(WF(S, v0))
            ctx.assume(z3.And(S.P(1), WF(S, z3.IntVal(1))))
            if snap is not None:
                ctx.assume(z3.Implies(snap.S.P(u), z3.And(S.P(u), S.val(u) == snap.S.val(u))))
                ctx.assume(WF(S, u))
                u2 = z3.Int('u_generic')
                st['snaprel'] = lambda SS: z3.Implies(snap.S.P(u2), z3.And(SS.P(u2), SS.val(u2) == snap.S.val(u2)))
                ctx.assume(st['snaprel'](S))
            return S

        # ---- while loop
        def w_establish(interp, env, it):
            c0 = env.lookup('chains')
            ctx.oblige('inv-init: chains == {1: (1,)}', isinstance(c0, dict) and list(c0.items()) == [(1, (1,))], 'inv')

        def w_havoc(interp, env, it, n, at_exit):
            st['W'] = Chains(new_state())
            env.vars['chains'] = st['W']

        def w_preserve(interp, env, it, n):
            c1 = env.lookup('chains')
            ok = isinstance(c1, Chains) and c1.store is None
            ctx.oblige('inv (while): the dictionary after one sweep satisfies INV', z3.BoolVal(False) if not ok else WF(c1.S, v0), 'inv')

        # ---- for chain in chains.copy().values()
        def f1_establish(interp, env, it):
            if not hasattr(it, 'snapshot') or env.lookup('chains') is not st['W'] or it.snapshot.S is not st['W'].S:
                raise OutOfSubset('minimal_chains: the sweep does not run over a snapshot (copy) of the dictionary values')
            st['snap'] = it.snapshot

        def f1_havoc(interp, env, it, n, at_exit):
            u = st['snap'].key_at(n.t)
            st['F1'] = Chains(new_state(st['snap'], u))
            env.vars['chains'] = st['F1']

        def f1_preserve(interp, env, it, n):
            c1 = env.lookup('chains')
            ok = isinstance(c1, Chains) and c1.store is None
            ctx.oblige('inv (sweep): INV and the snapshot relation hold after the chain has been extended by all its elements',
                       z3.BoolVal(False) if not ok else z3.And(WF(c1.S, v0), st['snaprel'](c1.S)), 'inv')

        # ---- for left_summand in chain
        def f2_establish(interp, env, it):
            if not isinstance(it, SeqVal) or it.key is None:
                raise OutOfSubset('minimal_chains: the inner loop does not run over the chain in hand')
            st['chain'] = it

        def f2_havoc(interp, env, it, n, at_exit):
            st['F2'] = Chains(new_state(st['snap'], st['chain'].key))
            env.vars['chains'] = st['F2']

        def f2_preserve(interp, env, it, n):
            c1 = env.lookup('chains')
            if c1 is not st['F2']:
                raise OutOfSubset('minimal_chains: the dictionary variable was rebound')
            S, chain = c1.S, st['chain']
            u, su = chain.key, chain.sid
            if c1.store is None:
                ctx.oblige('inv (element): nothing stored, INV unchanged', z3.And(WF(S, v0), st['snaprel'](S)), 'inv')
                return
            k, val = c1.store
            from kvc.models import StarTuple
            ok = (isinstance(val, StarTuple) and len(val.parts) == 2 and val.parts[0][0] and val.parts[0][1] is chain
                  and not val.parts[1][0] and isinstance(val.parts[1][1], SInt))
            if not ok:
                raise OutOfSubset(f'minimal_chains: the stored chain is not (*chain, value): {val!r}')
            last = val.parts[1][1]
            ctx.oblige('store: the new chain is stored under its own last element', k.t == last.t, 'inv')
            ctx.oblige('store: never overwrites an entry (guarded by `value not in chains`)', z3.Not(S.P(k.t)), 'inv')
            ctx.oblige('store: only keys up to the limit', k.t <= limit.t, 'inv')
            nid = z3.Int(ctx.fresh('new_seq'))
            i = z3.Int('i!app')
            ctx.assume(z3.And(ln(nid) == ln(su) + 1, el(nid, ln(su)) == last.t,
                              z3.ForAll([i], z3.Implies(z3.And(i >= 0, i < ln(su)), el(nid, i) == el(su, i)))))
            S2 = State(P=lambda v: z3.Or(v == k.t, S.P(v)), val=lambda v: z3.If(v == k.t, nid, S.val(v)),
                       wit=lambda v: z3.If(v == k.t, n.t, S.wit(v)))
            ctx.oblige('inv (element): INV holds for every key after the store (the new chain is well formed, the others are untouched)',
                       WF(S2, v0), 'inv')
            ctx.oblige('inv (element): the snapshot is still a sub-dictionary', st['snaprel'](S2), 'inv')
        W = LoopSpec(w_establish, w_havoc, w_preserve)
        F1 = LoopSpec(f1_establish, f1_havoc, f1_preserve)
        F2 = LoopSpec(f2_establish, f2_havoc, f2_preserve)
        from kvc.rec import sym
        me = sym('self', attrs={'limit': limit})
        interp = Interp(ctx, loop_specs={('minimal_chains', 0): W, ('minimal_chains', 1): F1, ('minimal_chains', 2): F2}, source_name=CG)
        r = H.closure(interp, fuc)(me)
        if not (isinstance(r, Chains) and r.store is None):
            raise OutOfSubset('minimal_chains: the result is not the dictionary of the loops')
        ctx.oblige('post: INV holds for every key of the result', WF(r.S, v0))
        kk = z3.Int('k_generic')
        ctx.oblige('post: every 1 <= k <= limit has a chain (the while guard is false)', z3.Implies(z3.And(kk >= 1, kk <= limit.t), r.S.P(kk)))
        return r
    H.run_paths(fuc, '', body)

    # ---- lemmas: INV (for the keys involved) implies the chain facts A1..A3 assumed by the power_supply contract
    S = State()
    v, i, ip = z3.Int('v'), z3.Int('i'), z3.Int('ip')
    L = lambda a: ln(S.val(a))
    c = lambda a, j: el(S.val(a), j)

    def Q(a, j, jp):
        """the prefix of chain a up to position j is the chain of its last element (instantiated at position jp <= j)"""
        u = c(a, j)
        return z3.And(S.P(u), L(u) == j + 1, z3.Implies(z3.And(jp >= 0, jp <= j), c(u, jp) == c(a, jp)))
    base = [S.P(v), WF(S, v)]
    H.add_goal('L-chain-prefix (base): the whole chain is the chain of its last element', base, Q(v, L(v) - 1, ip), kind='lemma')
    u = c(v, i)
    hyp = base + [i >= 1, i < L(v), WF(S, u), Q(v, i, i - 1), Q(v, i, ip)]
    H.add_goal('L-chain-prefix (step): if the prefix up to position i is a stored chain, so is the prefix up to i - 1', hyp, Q(v, i - 1, ip), kind='lemma')
    um = c(v, i - 1)
    facts = z3.And(L(v) >= 1, c(v, 0) == 1, c(v, L(v) - 1) == v, c(v, i) >= 1,
                   L(u) == i + 1, c(u, i) == u, z3.Implies(i >= 1, z3.And(c(u, i - 1) == c(v, i - 1), c(v, i - 1) >= 1)),
                   z3.Implies(i >= 1, z3.And(S.wit(u) >= 0, S.wit(u) <= i - 1, c(v, i) == c(v, i - 1) + c(v, S.wit(u)), c(v, S.wit(u)) >= 1)))
    H.add_goal('L-chain-facts: A1..A3 at position i of a stored chain follow from INV and the prefix lemma',
               base + [i >= 0, i < L(v), WF(S, u), Q(v, i, i - 1), Q(v, i, S.wit(u)), Q(v, i, i)], facts, kind='lemma')
