"""Sidecar contracts for the accessors of kingdon/multivector.py (C04 grade, C15 round trip, C08 asfullmv).

`self` is a symbolic multivector with keys/values of unknown length (indexed view) and its keyed view
(In(k), Coef(k)).  The algebra is a model exposing the naming maps as opaque bijections:
  bin2canon[k]            -> CanonName(k)            (the canonical name of key k)
  canon2bin[CanonName(k)] -> k
  _blade2canon(name)      -> contract of Algebra._blade2canon (proved in contracts/algebra_c.py):
                             (CanonName(K), swaps) with par(swaps) = parity of the spelling, or an invalid name
  indices_for_grades[gs]  -> sequence of all keys whose grade is in gs, each once (canonical order)
"""
import z3

from kvc.values import SBool, SKey, SInt, SRing, SSign, OutOfSubset, mkbool, WB
from kvc.engine import Interp, PathEnd
from kvc.models import SymSeq, CompSeq, W, sint
from kvc.rec import Rec, sym, same

MV = 'kingdon/multivector.py'


class CanonName:
    """The canonical blade name of key k (an opaque str)."""

    def __init__(self, k):
        self.k = k

    def kvc_eq(self, interp, other):
        if isinstance(other, CanonName):
            return interp.eq(self.k, other.k)      # bin2canon is injective (naming contract, C01)
        return False

    def kvc_isinstance(self, interp, cls):
        classes = cls if isinstance(cls, tuple) else (cls,)
        return any(c is str for c in classes)


class AnyName:
    """An arbitrary attribute name given to __getattr__: valid spelling of blade K with parity p, or invalid."""

    def __init__(self, K, par, kind):
        self.K, self.par, self.kind = K, par, kind      # kind: 'spelling' | 'unknown-generator' | 'not-a-blade'

    def kvc_eq(self, interp, other):
        return False        # never equal to the literal '__array_priority__' (a blade spelling starts with 'e')

    def kvc_format(self, interp, spec):
        return '<attribute-name>'

    def kvc_isinstance(self, interp, cls):
        classes = cls if isinstance(cls, tuple) else (cls,)
        return any(c is str for c in classes)


class NamingMap:
    def __init__(self, which, alg):
        self.which, self.alg = which, alg

    def kvc_getitem(self, interp, idx):
        if self.which == 'bin2canon':
            return CanonName(idx)
        if isinstance(idx, CanonName):
            return idx.k
        raise OutOfSubset('canon2bin[...] of a non-canonical name')

    def kvc_contains(self, interp, item):
        if self.which == 'canon2bin':
            if isinstance(item, CanonName):
                return True
            if isinstance(item, InvalidName):
                return False
            if isinstance(item, AnyName):
                return item.kind == 'canonical'
        raise OutOfSubset(f'`in` {self.which} for {type(item).__name__}')

    def get(self, item, default=None):
        # dict.get: the stored value for a name the map contains, else the default
        if self.which == 'canon2bin':
            if isinstance(item, CanonName):
                return item.k
            if isinstance(item, InvalidName):
                return default
        raise OutOfSubset(f'{self.which}.get for {type(item).__name__}')


class InvalidName:
    """f'e{2 ** d}': the out-of-space marker _blade2canon returns for unknown generators."""


class GradeIndex:
    """algebra.indices_for_grades: grades tuple -> SymSeq of the keys of those grades.
    Contract (proved for the comprehension in contracts/algebra_c.py): every key of a requested grade occurs
    exactly once, no other key occurs."""

    def __init__(self, alg):
        self.alg = alg

    def kvc_getitem(self, interp, grades):
        alg = self.alg
        n = SInt(z3.Int('G_n'))
        kf = z3.Function('G_key', z3.IntSort(), z3.BitVecSort(WB))

        def get(i):
            k = SKey(kf(sint(i).t), 0, (1 << W) - 1)
            interp.ctx.assume(alg.valid_key(k))
            return k
        s = SymSeq(interp, n, get, 'tuple')
        s.grades = grades
        s.keyf = kf
        return s


class AlgModel:
    def __init__(self, ctx):
        self.N = SKey.fresh('alg_N', 1, 1 << W)
        ctx.assume(self.N.range_constraint())
        ctx.assume(self.N.t & (self.N.t - 1) == 0)
        self.d = SKey.fresh('alg_d', 0, W)
        ctx.assume(self.d.range_constraint())
        self.bin2canon = NamingMap('bin2canon', self)
        self.canon2bin = NamingMap('canon2bin', self)
        self.indices_for_grades = GradeIndex(self)
        self.blade2canon_calls = []

    def valid_key(self, k):
        return z3.And(k.t >= 0, k.t < self.N.t)

    def kvc_len(self):
        return self.N

    def kvc_getattr(self, interp, name):
        if name in ('bin2canon', 'canon2bin', 'indices_for_grades', 'd'):
            return getattr(self, name)
        if name == '_blade2canon':
            return self._blade2canon
        raise OutOfSubset(f'algebra.{name} not modelled here')

    def _blade2canon(self, name):
        self.blade2canon_calls.append(name)
        if isinstance(name, CanonName):
            return name, 0
        if isinstance(name, AnyName):
            if name.kind == 'spelling':
                return CanonName(name.K), name.par           # swaps with the spelling's parity
            if name.kind == 'canonical':
                return CanonName(name.K), 0
            return InvalidName(), 0
        raise OutOfSubset('_blade2canon of an unmodelled name')


class KeysSeq(SymSeq):
    def __init__(self, mv):
        super().__init__(None, mv.n, mv.key, 'tuple')
        self.mv = mv

    def kvc_contains(self, interp, k):
        if isinstance(k, int) and not isinstance(k, bool):
            k = SKey.const(k)
        return mkbool(self.mv.inf(k.t))

    def index(self, k):
        """tuple.index: position of key k (keys are pairwise distinct), ValueError if absent."""
        from kvc.values import current
        ctx = current()
        if not ctx.decide(self.mv.inf(k.t)):
            raise ValueError('tuple.index(x): x not in tuple')
        i = SInt(z3.Int(ctx.fresh('idx')))
        ctx.assume(z3.And(i.t >= 0, i.t < self.mv.n.t, self.mv.keyf(i.t) == k.t,
                          self.mv.coef(k.t) == self.mv.valf(i.t)))      # view link at the found index
        return i


class MVModel:
    """self of a MultiVector method."""

    def __init__(self, ctx, name='self', alg=None):
        self.alg = alg or AlgModel(ctx)
        self.name = name
        self.n = SInt(z3.Int(name + '_n'))
        ctx.assume(self.n.t >= 0)
        self.keyf = z3.Function(name + '_key', z3.IntSort(), z3.BitVecSort(WB))
        self.valf = z3.Function(name + '_val', z3.IntSort(), z3.RealSort())
        self.inf = z3.Function(name + '_In', z3.BitVecSort(WB), z3.BoolSort())
        self.coef = z3.Function(name + '_Coef', z3.BitVecSort(WB), z3.RealSort())
        self.made = []

    def key(self, i):
        from kvc.values import current
        i = sint(i)
        k = SKey(self.keyf(i.t), 0, (1 << W) - 1)
        current().assume(self.alg.valid_key(k))
        current().assume(z3.And(self.inf(k.t), self.coef(k.t) == self.valf(i.t)))
        return k

    def val(self, i):
        return SRing(self.valf(sint(i).t))

    def keys(self):
        return KeysSeq(self)

    def values(self):
        return SymSeq(None, self.n, self.val, 'list')

    def items(self):
        return SymSeq(None, self.n, lambda i: (self.key(i), self.val(i)), 'zip')

    def fromkeysvalues(self, algebra, keys, values):
        r = ('fromkeysvalues', algebra, keys, values)
        self.made.append(r)
        return r

    def kvc_getattr(self, interp, name):
        if isinstance(name, CanonName):
            # contract of MultiVector.__getattr__ for a canonical name (verified by vc_getattr below)
            k = name.k if isinstance(name.k, SKey) else SKey.const(name.k)
            return SRing(z3.If(self.inf(k.t), self.coef(k.t), z3.RealVal(0)))
        if name == 'algebra':
            return self.alg
        if name in ('keys', 'values', 'items', 'fromkeysvalues'):
            return getattr(self, name)
        if name == '_values':
            return self.values()
        if name == '_keys':
            return self.keys()
        if name == '__class__':
            return self
        if name == '__name__':
            return 'MultiVector'
        raise OutOfSubset(f'multivector.{name} not modelled here')


def vc_grade(H, frame=False):
    """C04: a.grade(..) returns exactly the stored coefficients of the requested grades.
    frame=True (C09 only): the result must not share its coefficient storage with the operand."""
    fuc = H.fn(MV, 'MultiVector.grade')
    for form in ('ints', 'tuple'):
        def body(ctx, form=form):
            me = MVModel(ctx)
            interp = Interp(ctx, source_name=MV)
            clo = H.closure(interp, fuc)
            grades = (1, 3)
            r = clo(me, *grades) if form == 'ints' else clo(me, grades)
            ok = isinstance(r, tuple) and len(r) == 4 and r[0] == 'fromkeysvalues' and r[1] is me.alg
            if not ok:
                raise OutOfSubset('grade(): the result is not built by fromkeysvalues(self.algebra, keys, values) (contract does not apply)')
            ctx.oblige('post: returns fromkeysvalues(self.algebra, keys, values)', True)
            ks, vs = r[2], r[3]
            shared = isinstance(vs, SymSeq) and not isinstance(vs, CompSeq) and getattr(vs, 'getter', None) == me.val
            if frame:
                ctx.oblige('frame (C09): the result does not share its coefficient storage with the operand', not shared)
            if shared and frame:
                return r
            if shared:
                # a path that hands back the operand's own keys and values: blade-wise trivially "exactly the stored coefficients";
                # whether those are exactly the requested grades depends on the path condition, which this contract does not model
                raise OutOfSubset('grade(): path returning the stored keys/values unchanged (not modelled; bounded stand-in decides)')
            okc = isinstance(ks, CompSeq) and isinstance(vs, CompSeq) and getattr(ks, 'base', None) is getattr(vs, 'base', 0) and ks.part == 'keys' \
                and vs.part == 'values' and hasattr(ks.base.src, 'grades')
            if not okc:
                # keys and values computed some other way (two comprehensions, an index look-up per kept key, ..): the clauses
                # below read the selection through one dict comprehension only -> undecided here, the bounded stand-in decides
                raise OutOfSubset('grade(): keys and values are not the two halves of one dict comprehension (contract does not apply)')
            ctx.oblige('post: keys and values are the two halves of one selection (aligned)', True)
            G = ks.base.src
            ctx.oblige('post: candidates are the blades of exactly the requested grades', G.grades == grades)
            i = SInt(z3.Int('i'))
            ctx.assume(z3.And(i.t >= 0, i.t < G.length.t))
            cond, (k, v) = ks.base.at(i)
            gk = G.get(i)
            cond_t = cond.t if isinstance(cond, SBool) else z3.BoolVal(bool(cond))
            ctx.oblige('grade: a candidate blade is kept  <=>  it is stored in self', cond_t == me.inf(gk.t))
            ctx.oblige('grade: kept under its own key', z3.Implies(cond_t, k.t == gk.t))
            ctx.oblige('grade: with exactly its stored coefficient', z3.Implies(cond_t, v.t == me.coef(gk.t)))
            return r
        H.run_paths(fuc, f'grades-as-{form}', body)


def vc_getattr(H):
    """C15: attribute access with any spelling: (-1)^parity * stored coefficient, absent blades read 0,
    unknown generators read 0, non-blade names raise AttributeError."""
    fuc = H.fn(MV, 'MultiVector.__getattr__')
    import re as _re

    class ReModel:
        @staticmethod
        def match(pattern, name):
            if pattern != r'^e[0-9a-fA-F]*$':
                raise OutOfSubset('blade-name pattern changed')
            if isinstance(name, AnyName):
                return name.kind != 'not-a-blade'
            if isinstance(name, str):
                return _re.match(pattern, name)
            raise OutOfSubset('re.match on unmodelled name')
    for kind in ('spelling', 'canonical', 'unknown-generator', 'not-a-blade'):
        def body(ctx, kind=kind):
            me = MVModel(ctx)
            K = SKey.fresh('K', 0, (1 << W) - 1)
            ctx.assume(me.alg.valid_key(K))
            swaps = SInt(z3.Int('swaps'))
            ctx.assume(swaps.t >= 0)
            name = AnyName(K, swaps, kind)
            interp = Interp(ctx, source_name=MV)
            clo = H.closure(interp, fuc, {'re': ReModel})
            try:
                r = clo(me, name)
                raised = None
            except AttributeError as e:
                r, raised = None, e
            if kind == 'not-a-blade':
                ctx.oblige('getattr: a name that is not a blade spelling raises AttributeError', raised is not None)
            elif kind == 'unknown-generator':
                ctx.oblige('getattr: a spelling with a generator outside the algebra reads 0', raised is None and isinstance(r, int) and r == 0)
            else:
                neg = (swaps.t % 2 == 1) if kind == 'spelling' else z3.BoolVal(False)
                exp = z3.If(me.inf(K.t), z3.If(neg, -me.coef(K.t), me.coef(K.t)), z3.RealVal(0))
                if raised is not None:
                    ctx.oblige('getattr: valid spelling does not raise', False)
                else:
                    rt = r.t if isinstance(r, SRing) else z3.RealVal(r) if isinstance(r, int) else None
                    ctx.oblige('getattr: (-1)^parity * coefficient, 0 when absent', rt is not None and rt == exp)
            if raised is not None:
                ctx.notes.append('expected-raise'); raise raised
            return r
        H.run_paths(fuc, f'name={kind}', body)
    # the literal numpy probe
    def body(ctx):
        me = MVModel(ctx)
        interp = Interp(ctx, source_name=MV)
        r = H.closure(interp, fuc, {'re': ReModel})(me, '__array_priority__')
        ctx.oblige('getattr: __array_priority__ probe answers 0', r == 0)
        return r
    H.run_paths(fuc, 'name=__array_priority__', body)




def vc_indexing(H):
    """C16: mv[item] indexes every coefficient with the same item (keys untouched); mv[idx] = v assigns exactly the
    addressed entries of every coefficient, pairing coefficients in order; nothing else is written."""
    g = H.fn(MV, 'MultiVector.__getitem__')
    s_ = H.fn(MV, 'MultiVector.__setitem__')
    MVc = sym('MultiVector')
    for branch in ('list', 'tuple', 'ndarray'):
        for item_is_tuple in (False, True):
            def body(ctx, branch=branch, item_is_tuple=item_is_tuple):
                vals = [sym(f'v{i}') for i in range(3)]
                container = list(vals) if branch == 'list' else tuple(vals) if branch == 'tuple' else sym('ndarray-values')
                keys = sym('keys')
                alg = sym('algebra')
                fk = Rec('attr', sym('cls'), 'fromkeysvalues')
                cls = sym('cls', attrs={'fromkeysvalues': fk})
                me = sym('self', attrs={'algebra': alg, '__class__': cls,
                                        'values': sym('values()', callable_result=lambda i, m, a, k: container),
                                        'keys': sym('keys()', callable_result=lambda i, m, a, k: keys)})
                item = (sym('i0'), sym('i1')) if item_is_tuple else sym('i0')
                interp = Interp(ctx, source_name=MV)
                r = H.closure(interp, g, {'slice': slice})(me, item)
                it = item if item_is_tuple else (item,)
                if branch == 'ndarray':
                    exp_vals = Rec('item', container, (slice(None),) + tuple(it))
                else:
                    exp_vals = type(container)(Rec('item', v, it) for v in vals)
                if not (isinstance(r, Rec) and r.kind == 'call' and same(r.parts[0], fk)):
                    raise OutOfSubset('__getitem__: the result is not built by self.__class__.fromkeysvalues(..) (contract does not apply)')
                # fromkeysvalues(algebra, keys, values) with positional or keyword arguments
                pos = list(r.parts[1])
                argd = dict(zip(('algebra', 'keys', 'values'), pos))
                argd.update(r.parts[2])
                ok = (len(pos) <= 3 and set(argd) == {'algebra', 'keys', 'values'} and same(argd['algebra'], alg)
                      and same(argd['keys'], keys) and same(argd['values'], exp_vals)
                      and (branch == 'ndarray' or type(argd['values']) is type(container)))
                ctx.oblige('getitem: same keys; every coefficient indexed with the same item, order kept', bool(ok),
                           meta={'got': repr(r), 'expected_values': repr(exp_vals)})
                ctx.oblige('getitem: nothing is written', not [e for e in ctx.events if e[0] in ('setitem', 'setattr')])
                return r
            H.run_paths(g, f'{branch},item_tuple={item_is_tuple}', body)
    for branch in ('list', 'ndarray'):
        for src in ('sequence', 'multivector', 'multivector-other-keys'):
            def body(ctx, branch=branch, src=src):
                vals = [sym(f'v{i}') for i in range(3)]
                container = list(vals) if branch == 'list' else sym('ndarray-values')
                keys = sym('keys')
                me = sym('self', attrs={'values': sym('values()', callable_result=lambda i, m, a, k: container),
                                        'keys': sym('keys()', callable_result=lambda i, m, a, k: keys)}, isinstance_of=('MultiVector',))
                new = [sym(f'w{i}') for i in range(3)]
                newc = list(new) if branch == 'list' else sym('new-ndarray')
                if src == 'sequence':
                    arg = newc
                else:
                    okeys = keys if src == 'multivector' else sym('other-keys')
                    arg = sym('other', attrs={'values': sym('o.values()', callable_result=lambda i, m, a, k: newc),
                                              'keys': sym('o.keys()', callable_result=lambda i, m, a, k: okeys)}, isinstance_of=('MultiVector',))
                idx = sym('idx')
                interp = Interp(ctx, source_name=MV)
                try:
                    r = H.closure(interp, s_, {'MultiVector': MVc, 'slice': slice})(me, idx, arg)
                    raised = None
                except ValueError as e:
                    r, raised = None, e
                stores = [e for e in ctx.events if e[0] == 'setitem']
                if src == 'multivector-other-keys':
                    ctx.oblige('setitem: a multivector with different keys is rejected and nothing is written', raised is not None and not stores)
                    if raised:
                        ctx.notes.append('expected-raise'); raise raised
                    return r
                if raised:
                    ctx.oblige('setitem: does not raise', False)
                    ctx.notes.append('expected-raise'); raise raised
                if branch == 'list':
                    ok = len(stores) == 3 and all(st[1] is vals[i] and same(st[2], (idx,)) and same(st[3], new[i]) for i, st in enumerate(stores))
                else:
                    ok = len(stores) == 1 and stores[0][1] is container and same(stores[0][2], (slice(None), idx)) and same(stores[0][3], newc)
                ctx.oblige('setitem: exactly the addressed entries of every coefficient are assigned, coefficients paired in order', bool(ok),
                           meta={'stores': repr([(s[1], s[2], s[3]) for s in stores])})
                ctx.oblige('setitem: no attribute is written', not [e for e in ctx.events if e[0] == 'setattr'])
                return r
            H.run_paths(s_, f'{branch},from={src}', body)


def vc_trivial_accessors(H):
    """keys()/values()/items()/fromkeysvalues: the representation is exactly the two sequences given (C08, C15)."""
    for meth, attr in (('keys', '_keys'), ('values', '_values')):
        fuc = H.fn(MV, f'MultiVector.{meth}')

        def body(ctx, meth=meth, attr=attr, fuc=fuc):
            me = sym('self')
            r = H.closure(Interp(ctx, source_name=MV), fuc)(me)
            ctx.oblige(f'post: {meth}() is self.{attr}', same(r, Rec('attr', me, attr)))
            return r
        H.run_paths(fuc, '', body)
    fuc = H.fn(MV, 'MultiVector.items')

    def body(ctx):
        ks, vs = [sym('k0'), sym('k1')], [sym('v0'), sym('v1')]
        me = sym('self', attrs={'_keys': tuple(ks), '_values': list(vs)})
        r = H.closure(Interp(ctx, source_name=MV), fuc)(me)
        ctx.oblige('post: items() pairs the i-th key with the i-th value', same(list(r), [(ks[0], vs[0]), (ks[1], vs[1])]))
        return r
    H.run_paths(fuc, '', body)
    fuc2 = H.fn(MV, 'MultiVector.fromkeysvalues')

    def body2(ctx):
        new = sym('new-object')
        obj = sym('object', attrs={'__new__': sym('object.__new__', callable_result=lambda i, m, a, k: new)})
        cls, alg, keys, vals = sym('cls'), sym('algebra'), sym('keys'), sym('values')
        r = H.closure(Interp(ctx, source_name=MV), fuc2, {'object': obj})(cls, alg, keys, vals)
        sets = {e[2]: e[3] for e in ctx.events if e[0] == 'setattr' and e[1] is new}
        ctx.oblige('post: a fresh object with algebra, _keys, _values exactly as given (no copy, no reorder) and nothing else',
                   r is new and set(sets) == {'algebra', '_keys', '_values'} and sets['algebra'] is alg
                   and sets['_keys'] is keys and sets['_values'] is vals)
        return r
    H.run_paths(fuc2, '', body2)


# =====================================================================================
# MultiVector.__new__ : construction forms (C15)
# =====================================================================================
def _concrete_algebra(d, graded, parity_of):
    """A concrete default-basis algebra table set (names, bins, grade index) written from the naming contract, with the
    real Algebra._blade2canon replaced by its contract: non-canonical spellings get a *symbolic* swap count."""
    import itertools
    names = {}
    for K in range(2 ** d):
        names[K] = 'e' + ''.join(format(i + 1, 'x') for i in range(d) if K >> i & 1)
    canon2bin = dict(sorted(((n, K) for K, n in names.items()), key=lambda x: (len(x[0]), x[0])))
    ifg = {}
    by_grade = {}
    for n, K in canon2bin.items():
        by_grade.setdefault(len(n) - 1, []).append(K)
    for r in range(0, d + 2):
        for comb in itertools.combinations(range(d + 1), r):
            ifg[comb] = tuple(k for g in comb for k in by_grade.get(g, []))

    def blade2canon(interp, me, args, kw):
        name = args[0]
        if name in canon2bin:
            return name, 0
        chars = name[1:]
        try:
            K = 0
            for c in chars:
                K |= 1 << (int(c, 16) - 1)
        except ValueError:
            K = 2 ** d
        if K in names and len(set(chars)) == len(chars):
            return names[K], parity_of(name)
        return f'e{2 ** d}', 0
    alg = sym('algebra', attrs={'canon2bin': canon2bin, 'bin2canon': names, 'indices_for_grades': ifg, 'd': d, 'graded': graded,
                                '_blade2canon': sym('_blade2canon', callable_result=blade2canon)})
    return alg, names, canon2bin, ifg


def vc_grade_layouts(H):
    """a.grade(..) on concrete storage layouts of a 3-generator algebra (dense in canonical, binary, reversed order; sparse
    permuted) with *opaque coefficient values*: the (blade -> coefficient) view of the result is exactly the stored
    coefficients of the requested grades.  Bounded in shapes (labelled so), unbounded in values; complements vc_grade, which is
    generic in the layout but only follows bodies of its own shape."""
    fuc = H.fn(MV, 'MultiVector.grade')
    d = 3
    layouts = {'dense-canonical': None, 'dense-binary': list(range(8)), 'dense-reversed': 'rev', 'sparse-permuted': [6, 1, 7, 2], 'single': [5]}
    for lname, keys0 in layouts.items():
        for grades, form in (((1,), 'ints'), ((2, 0), 'ints'), ((1, 3), 'tuple'), ((0, 1, 2, 3), 'tuple'), ((2,), 'tuple')):
            def body(ctx, lname=lname, keys0=keys0, grades=grades, form=form):
                alg, names, canon2bin, ifg = _concrete_algebra(d, False, lambda n: 0)
                canon = list(canon2bin.values())
                keys = canon if keys0 is None else (canon[::-1] if keys0 == 'rev' else list(keys0))
                vals = [sym(f'v{k}') for k in keys]
                stored = dict(zip(keys, vals))
                # indices_for_grades answers any tuple of grades in the order given (DefaultKeyDict in the real class)
                by_grade = {g: [k for k in canon if bin(k).count('1') == g] for g in range(d + 1)}
                ifg_model = sym('indices_for_grades', on_getitem=lambda interp, me, idx: tuple(k for g in idx for k in by_grade.get(g, [])))
                alg.attrs['indices_for_grades'] = ifg_model
                alg.kvc_len = lambda: 2 ** d
                made = []
                fk = sym('fromkeysvalues', callable_result=lambda i, m, a, k: made.append((a, k)) or ('MV', a, k))
                attrs = {'algebra': alg, 'fromkeysvalues': fk, '_keys': tuple(keys), '_values': list(vals),
                         'keys': sym('keys', callable_result=lambda i, m, a, k: tuple(keys)),
                         'values': sym('values', callable_result=lambda i, m, a, k: list(vals)),
                         'items': sym('items', callable_result=lambda i, m, a, k: list(zip(keys, vals)))}
                for K, n in names.items():
                    attrs[n] = stored.get(K, 0)
                me = sym('self', attrs=attrs)
                me.kvc_len = lambda: len(keys)
                r = H.closure(Interp(ctx, source_name=MV), fuc)(me, *grades) if form == 'ints' else H.closure(Interp(ctx, source_name=MV), fuc)(me, grades)
                if len(made) != 1:
                    raise OutOfSubset('grade() did not build its result with one fromkeysvalues call')
                a, k = made[0]
                a = list(a) + [k.get(x) for x in ('keys', 'values') if x in k]
                try:
                    rk, rv = list(a[1]), list(a[2])
                except Exception:
                    raise OutOfSubset('grade(): keys / values of the result are not concrete sequences')
                got = {}
                for kk, vv in zip(rk, rv):
                    if not (isinstance(vv, int) and vv == 0):
                        got[kk] = vv
                want = {kk: vv for kk, vv in stored.items() if bin(kk).count('1') in grades}
                ok = len(rk) == len(rv) and len(set(rk)) == len(rk) and set(got) == set(want) and all(got[kk] is want[kk] for kk in want)
                ctx.oblige(f'grade{grades} on a {lname} multivector: exactly the stored coefficients of the requested grades, each on its own blade',
                           bool(ok), meta={'got': repr(dict(zip(rk, rv)))[:300], 'expected': repr(want)[:300]})
                return r
            H.run_paths(fuc, f'layout={lname},grades={grades},{form}', body)


def vc_new(H, only=None, order=False):
    """The real body of MultiVector.__new__ is interpreted with *opaque coefficient values* and *symbolic spelling parities*
    over concrete small default-basis algebras (d = 2, 3) and the construction forms below (bounded in shapes, unbounded in
    values and parities).  Post: the (blade -> coefficient) view handed to fromkeysvalues is exactly the supplied one."""
    fuc = H.fn(MV, 'MultiVector.__new__')
    from collections.abc import Mapping
    cases = []
    for d in (2, 3):
        full = 2 ** d
        cases += [
            (d, 'keys+values', dict(keys=(1, 3), nvals=2)),
            (d, 'keys+values reversed order', dict(keys=(3, 0, 2), nvals=3)),
            (d, 'string keys', dict(keys=('e12', 'e1'), nvals=2)),
            (d, 'mapping int keys', dict(mapping=(2, 0, 3))),
            (d, 'mapping str keys', dict(mapping=('e2', 'e', 'e12'))),
            (d, 'full values', dict(nvals=full)),
            (d, 'grades+values', dict(grades=(1,), nvals=d)),
            (d, 'grades (0,2)+values', dict(grades=(0, 2), nvals=1 + d * (d - 1) // 2)),
            (d, 'keyword blades canonical', dict(kw=('e1', 'e12'))),
            (d, 'keyword blade odd/even spelling', dict(kw=('e', 'e21'))),
            (d, 'length mismatch', dict(keys=(1, 2), nvals=3, expect='TypeError')),
            (d, 'keys outside grades', dict(keys=(1, 3), nvals=2, grades=(1,), expect='ValueError')),
            (d, 'invalid grade', dict(keys=(1,), nvals=1, grades=(d + 1,), expect='ValueError')),
        ]
    cases += [(3, 'keyword blade 3-cycle spelling', dict(kw=('e', 'e231'))),
              (3, 'keyword blade transposition spelling', dict(kw=('e2', 'e132'))),
              (2, 'graded: incomplete grade', dict(keys=(1,), nvals=1, graded=True, expect='ValueError')),
              (2, 'graded: complete grade', dict(keys=(1, 2), nvals=2, graded=True)),
              (2, 'name only', dict(name='x')),
              (2, 'name + keys', dict(name='x', keys=(3, 1))),
              (3, 'name + keys, descending vector', dict(name='x', keys=(4, 2, 1))),
              (3, 'name + keys, binary order', dict(name='x', keys=(0, 1, 2, 3, 4, 5, 6, 7))),
              (3, 'name only', dict(name='x'))]
    if only == 'symbolic':
        # the supplier contract the operator dictionaries rely on: symbolic operands keep the key order they were asked for
        cases = [c for c in cases if 'name' in c[2]]
    for d, label, spec in cases:
        def body(ctx, d=d, label=label, spec=spec):
            par = {}

            def parity_of(name):
                if name not in par:
                    par[name] = SInt(z3.Int('swaps_' + name))
                    ctx.assume(par[name].t >= 0)
                return par[name]
            alg, names, canon2bin, ifg = _concrete_algebra(d, spec.get('graded', False), parity_of)
            made = []
            fk = sym('fromkeysvalues', callable_result=lambda i, m, a, k: made.append((a, k)) or ('MV', a, k))
            cls = sym('cls', attrs={'fromkeysvalues': fk})
            vals = [sym(f'v{i}') for i in range(spec.get('nvals', 0))]
            kwargs = {}
            args = [cls, alg]
            if 'mapping' in spec:
                mvals = [sym(f'v{i}') for i in range(len(spec['mapping']))]
                kwargs['values'] = dict(zip(spec['mapping'], mvals))
                supplied = dict(zip(spec['mapping'], mvals))
            elif 'kw' in spec:
                kvals = [sym(f'v{i}') for i in range(len(spec['kw']))]
                kwargs.update(dict(zip(spec['kw'], kvals)))
                supplied = dict(zip(spec['kw'], kvals))
            else:
                if vals or 'keys' in spec and 'name' not in spec:
                    kwargs['values'] = list(vals)
                if 'keys' in spec:
                    kwargs['keys'] = spec['keys']
                if 'grades' in spec:
                    kwargs['grades'] = spec['grades']
                if 'name' in spec:
                    kwargs['name'] = spec['name']
                    kwargs['symbolcls'] = sym('symbolcls', callable_result=lambda i, m, a, k: ('SYMBOL', a[0]))
                ks = spec.get('keys')
                if ks is None:
                    ks = ifg[spec['grades']] if 'grades' in spec else ifg[tuple(range(d + 1))]
                supplied = dict(zip(ks, vals))
            interp = Interp(ctx, source_name=MV)
            env = {'Mapping': Mapping, 'Symbol': sym('Symbol'), 'sympify': sym('sympify')}
            try:
                r = H.closure(interp, fuc, env)(*args, **kwargs)
                raised = None
            except (TypeError, ValueError, KeyError, IndexError, AttributeError, AssertionError) as e:
                r, raised = None, e
            exp = spec.get('expect')
            if exp:
                # the property only demands that it raises (the documented type is recorded in the evidence)
                ctx.oblige(f'new[{label}]: inconsistent input raises (documented: {exp}) instead of producing a multivector',
                           raised is not None and not made, meta={'raised': repr(raised)})
                if raised:
                    ctx.notes.append('expected-raise'); raise raised
                return r
            if raised is not None or len(made) != 1:
                ctx.oblige(f'new[{label}]: consistent input produces one multivector', False, meta={'raised': repr(raised)})
                if raised:
                    ctx.notes.append('expected-raise'); raise raised
                return r
            (a, k) = made[0]
            a = list(a) + [k.get(x) for x in ('keys', 'values') if x in k]
            okk = len(a) == 3 and a[0] is alg and isinstance(a[1], tuple) and all(isinstance(x, int) for x in a[1]) and isinstance(a[2], list) \
                and len(a[1]) == len(a[2]) and len(set(a[1])) == len(a[1])
            ctx.oblige(f'new[{label}]: fromkeysvalues(algebra, tuple of distinct int keys, list of as many values)', bool(okk), meta={'got': repr(a)})
            if not okk:
                return r
            got = dict(zip(a[1], a[2]))
            if 'name' in spec:
                exp_keys = spec.get('keys') or ifg[tuple(range(d + 1))]
                ok = set(a[1]) == set(exp_keys) and all(v == ('SYMBOL', 'x' + names[kk][1:]) for kk, v in got.items())
                ctx.oblige(f'new[{label}]: one symbol per requested key, named name + blade digits', bool(ok), meta={'got': repr(got)})
                if order:
                    # needed by the operator dictionaries (generated functions unpack their operands positionally), not by C15
                    ctx.oblige(f'new[{label}]: the symbolic operand stores its keys in the order asked for', tuple(a[1]) == tuple(exp_keys),
                               meta={'got': repr(a[1]), 'asked': repr(tuple(exp_keys))})
                return r
            # expected view: supplied (blade -> value), non-canonical spellings re-keyed with their parity sign
            expv = {}
            for key, v in supplied.items():
                if isinstance(key, str):
                    if key in canon2bin:
                        expv[canon2bin[key]] = ('plain', v)
                    else:
                        K = 0
                        for c in key[1:]:
                            K |= 1 << (int(c, 16) - 1)
                        expv[K] = ('signed', v, par[key])
                else:
                    expv[key] = ('plain', v)
            ctx.oblige(f'new[{label}]: no supplied blade is dropped and none is invented', set(got) == set(expv),
                       meta={'got': sorted(got), 'expected': sorted(expv)})
            for K, e in expv.items():
                if K not in got:
                    continue
                if e[0] == 'plain':
                    ctx.oblige(f'new[{label}]: blade {names[K]} carries exactly the supplied coefficient', same(got[K], e[1]))
                else:
                    odd = ctx.decide(e[2].t % 2 == 1)
                    want = Rec('unop', 'USub', e[1]) if odd else e[1]
                    ctx.oblige(f'new[{label}]: permuted spelling of {names[K]} carries the coefficient times the permutation parity',
                               same(got[K], want), meta={'got': repr(got[K]), 'expected': repr(want)})
            if order and 'kw' not in spec and 'mapping' not in spec and 'keys' in spec:
                ctx.oblige(f'new[{label}]: keys keep the given order', tuple(a[1]) == tuple(canon2bin[x] if isinstance(x, str) else x for x in spec['keys']))
            return r
        H.run_paths(fuc, f'd={d},{label}', body)


def vc_contains(H):
    fuc = H.fn(MV, 'MultiVector.__contains__')
    for form in ('int', 'name'):
        def body(ctx, form=form):
            me = MVModel(ctx)
            K = SKey.fresh('K', 0, (1 << W) - 1)
            ctx.assume(me.alg.valid_key(K))
            r = H.closure(Interp(ctx, source_name=MV), fuc)(me, K if form == 'int' else CanonName(K))
            rt = r.t if isinstance(r, SBool) else z3.BoolVal(bool(r))
            ctx.oblige('contains: blade in mv  <=>  the blade is stored', rt == me.inf(K.t))
            return r
        H.run_paths(fuc, f'item={form}', body)


def _shaped_self(d, keys, parity_of=None):
    alg, names, canon2bin, ifg = _concrete_algebra(d, False, parity_of or (lambda n: 0))
    vals = [sym(f'v{i}') for i in range(len(keys))]
    made = []

    def ga(interp, me, name):
        raise AttributeError(name)
    me = sym('self', attrs={'algebra': alg, '_keys': tuple(keys), '_values': list(vals),
                            'keys': sym('keys()', callable_result=lambda i, m, a, k: tuple(keys)),
                            'values': sym('values()', callable_result=lambda i, m, a, k: list(vals)),
                            'items': sym('items()', callable_result=lambda i, m, a, k: list(zip(keys, vals))),
                            'fromkeysvalues': sym('fromkeysvalues', callable_result=lambda i, m, a, k: made.append((a, k)) or ('MV', a, k))})
    # coefficient access by canonical name: contract of __getattr__ (vc_getattr)
    for K, n in names.items():
        me.attrs[n] = vals[keys.index(K)] if K in keys else 0
    return me, alg, names, canon2bin, ifg, vals, made


def vc_asfullmv(H):
    """asfullmv(): every blade of the algebra in canonical (or binary) order with its stored coefficient, 0 when absent
    (concrete shapes d = 2, 3, opaque values)."""
    fuc = H.fn(MV, 'MultiVector.asfullmv')
    for d, keys in ((2, (3, 1)), (2, ()), (3, (5, 0, 6)), (3, (7, 6, 5, 4, 3, 2, 1, 0))):
        for canonical in (True, False):
            def body(ctx, d=d, keys=keys, canonical=canonical):
                me, alg, names, canon2bin, ifg, vals, made = _shaped_self(d, list(keys))
                alg.kvc_len = lambda: 2 ** d
                r = H.closure(Interp(ctx, source_name=MV), fuc)(me, canonical)
                ok = len(made) == 1
                ctx.oblige('asfullmv: builds one multivector', ok)
                if not ok:
                    return r
                a, k = made[0]
                ks, vs = k.get('keys', a[1] if len(a) > 1 else None), k.get('values', a[2] if len(a) > 2 else None)
                exp_keys = tuple(canon2bin.values()) if canonical else tuple(range(2 ** d))
                ctx.oblige('asfullmv: all blades, in canonical order (canonical=True) or binary order', tuple(ks) == exp_keys,
                           meta={'got': repr(ks)})
                exp_vals = [vals[list(keys).index(K)] if K in keys else 0 for K in exp_keys]
                ctx.oblige('asfullmv: each blade carries its stored coefficient, 0 when absent; aligned with the keys',
                           isinstance(vs, list) and same(vs, exp_vals), meta={'got': repr(vs)})
                return r
            H.run_paths(fuc, f'd={d},keys={keys},canonical={canonical}', body)


def vc_map_filter(H):
    fm = H.fn(MV, 'MultiVector.map')
    ff = H.fn(MV, 'MultiVector.filter')
    for nargs in (1, 2):
        def body(ctx, nargs=nargs):
            me, alg, names, canon2bin, ifg, vals, made = _shaped_self(2, [3, 0, 1])
            func = sym('func', attrs={'__code__': sym('code', attrs={'co_argcount': nargs})})
            r = H.closure(Interp(ctx, source_name=MV), fm)(me, func)
            a, k = made[0] if made else ((), {})
            ks, vs = k.get('keys'), k.get('values')
            call = (lambda K, v: Rec('call', func, (K, v), {})) if nargs == 2 else (lambda K, v: Rec('call', func, (v,), {}))
            ctx.oblige('map: same keys, func applied to every coefficient (with its key when func takes two arguments), order kept',
                       len(made) == 1 and tuple(ks) == (3, 0, 1) and same(list(vs), [call(K, v) for K, v in zip((3, 0, 1), vals)]))
            return r
        H.run_paths(fm, f'func-args={nargs}', body)
    for nargs in (1, 2):
        def body(ctx, nargs=nargs):
            me, alg, names, canon2bin, ifg, vals, made = _shaped_self(2, [3, 0, 1])
            keep = [SBool(z3.Bool(f'keep{i}')) for i in range(3)]
            func = sym('func', attrs={'__code__': sym('code', attrs={'co_argcount': nargs})},
                       callable_result=lambda i, m, a, k: Rec('call', m, tuple(a), {}, truth=keep[[x.key() for x in vals].index(a[-1].key())]))
            r = H.closure(Interp(ctx, source_name=MV), ff)(me, func)
            kept = [i for i in range(3) if ctx.decide(keep[i].t)]
            a, k = made[0] if made else ((), {})
            ks, vs = k.get('keys'), k.get('values')
            ctx.oblige('filter: exactly the entries for which func is true-ish survive, original coefficients, order and pairing kept',
                       len(made) == 1 and tuple(ks) == tuple((3, 0, 1)[i] for i in kept) and same(list(vs), [vals[i] for i in kept]),
                       meta={'got': repr((ks, vs))})
            return r
        H.run_paths(ff, f'func-args={nargs}', body)


def vc_constructors(H):
    """Algebra.multivector / evenmv / oddmv / purevector / scalar..pseudoquadvector: MultiVector(self, *args, grades=.., **kwargs)."""
    REL = 'kingdon/algebra.py'
    table = {'scalar': 0, 'vector': 1, 'bivector': 2, 'trivector': 3, 'quadvector': 4,
             'pseudoscalar': 'd-0', 'pseudovector': 'd-1', 'pseudobivector': 'd-2', 'pseudotrivector': 'd-3', 'pseudoquadvector': 'd-4'}
    d = 5
    MVc = sym('MultiVector')
    for meth, g in table.items():
        fuc = H.fn(REL, f'Algebra.{meth}')

        def body(ctx, meth=meth, g=g, fuc=fuc):
            pv = []
            me = sym('self', attrs={'d': d, 'purevector': sym('purevector', callable_result=lambda i, m, a, k: pv.append((a, k)) or 'PV')})
            arg = sym('arg')
            r = H.closure(Interp(ctx, source_name=REL), fuc, {'MultiVector': MVc})(me, arg, name='n')
            grade = g if isinstance(g, int) else d - int(g[2:])
            ctx.oblige(f'{meth}: purevector(*args, grade={g}, **kwargs)', len(pv) == 1 and same(tuple(pv[0][0]), (arg,))
                       and pv[0][1] == {'grade': grade, 'name': 'n'} and r == 'PV', meta={'got': repr(pv)})
            return r
        H.run_paths(fuc, '', body)
    for meth, grades in (('purevector', (3,)), ('evenmv', (0, 2, 4)), ('oddmv', (1, 3, 5)), ('multivector', None)):
        fuc = H.fn(REL, f'Algebra.{meth}')

        def body(ctx, meth=meth, grades=grades, fuc=fuc):
            me = sym('self', attrs={'d': d})
            arg = sym('arg')
            kw = {'grade': 3} if meth == 'purevector' else {}
            r = H.closure(Interp(ctx, source_name=REL), fuc, {'MultiVector': MVc, 'filter': filter})(me, arg, name='n', **kw)
            exp_kw = {'name': 'n'}
            if grades is not None:
                exp_kw['grades'] = grades
            ok = isinstance(r, Rec) and r.kind == 'call' and r.parts[0] is MVc and same(tuple(r.parts[1]), (me, arg)) and r.parts[2] == exp_kw
            ctx.oblige(f'{meth}: MultiVector(self, *args, grades={grades}, **kwargs)', bool(ok), meta={'got': repr(r)})
            return r
        H.run_paths(fuc, '', body)


def vc_call(H):
    """C12: calling a multivector binds positional arguments to its free symbols in name order and keyword arguments by name
    (values sorted by keyword, matching the name-sorted symbols when the keyword set equals the symbol names)."""
    fuc = H.fn(MV, 'MultiVector.__call__')
    fl = H.fn('kingdon/codegen.py', '_lambdify_mv')

    def body(ctx):
        func = sym('func')
        me = sym('self', attrs={'free_symbols': {'s'}, '_callable': (sym('keys_out'), func), 'algebra': sym('algebra'),
                                'fromkeysvalues': sym('fromkeysvalues')})
        a1, a2 = sym('a1'), sym('a2')
        r = H.closure(Interp(ctx, source_name=MV), fuc, {'sorted': sorted})(me, a1, a2)
        exp = Rec('call', me.attrs['fromkeysvalues'], (me.attrs['algebra'], sym('keys_out'), Rec('call', func, ((a1, a2),), {})), {})
        ctx.oblige('call(*args): the function receives the positional values as one sequence, in order', same(r, exp), meta={'got': repr(r)})
        return r
    H.run_paths(fuc, 'positional', body)

    def body2(ctx):
        func = sym('func')

        class Sy:
            def __init__(self, n):
                self.name = n

            def __repr__(self):
                return self.name
        # free symbols named like the keywords (objects with a .name, as sympy symbols / kingdon's own symbol class have)
        me = sym('self', attrs={'free_symbols': {Sy('c'), Sy('a'), Sy('b')}, '_callable': (sym('keys_out'), func), 'algebra': sym('algebra'),
                                'fromkeysvalues': sym('fromkeysvalues')})
        vb, va, vc = sym('vb'), sym('va'), sym('vc')
        r = H.closure(Interp(ctx, source_name=MV), fuc, {'sorted': sorted})(me, b=vb, a=va, c=vc)
        exp = Rec('call', me.attrs['fromkeysvalues'], (me.attrs['algebra'], sym('keys_out'), Rec('call', func, ([va, vb, vc],), {})), {})
        ctx.oblige('call(**kwargs): values are passed sorted by keyword name', same(r, exp), meta={'got': repr(r)})
        return r
    H.run_paths(fuc, 'keywords', body2)

    def body3(ctx):
        me = sym('self', attrs={'free_symbols': set()})
        r = H.closure(Interp(ctx, source_name=MV), fuc)(me, sym('x'))
        ctx.oblige('call on a multivector without free symbols returns it unchanged', r is me)
        return r
    H.run_paths(fuc, 'no-symbols', body3)

    def body4(ctx):
        class S:
            def __init__(self, n):
                self.name = n
        sb, sa, sc = S('a2'), S('a12'), S('a')          # name order a < a12 < a2 (as MultiVector.__call__ sorts keywords)
        vals, keys = sym('values'), sym('keys')
        alg = sym('algebra', attrs={'cse': sym('cse')})
        mv = sym('mv', attrs={'free_symbols': {sb, sa, sc}, 'algebra': alg, 'values': sym('mv.values', callable_result=lambda i, m, a, k: [vals]),
                              'keys': sym('mv.keys', callable_result=lambda i, m, a, k: (keys,)), 'type_number': 5})
        lam = sym('lambdify')
        r = H.closure(Interp(ctx, source_name='kingdon/codegen.py'), fl,
                      {'lambdify': lam, 'sorted': sorted, 'CodegenOutput': lambda k, f: ('CodegenOutput', k, f),
                       '_type_id': sym('_type_id', callable_result=lambda i, m, a, k: 'T')})(mv)
        calls = [e for e in ctx.events if e[0] == 'call' and e[1] is lam]
        ok = len(calls) == 1 and calls[0][3].get('args') == {'x': [sc, sa, sb]} and same(calls[0][3].get('exprs'), [vals]) \
            and isinstance(r, tuple) and same(r[1], (keys,))
        ctx.oblige('_lambdify_mv: the single argument unpacks into the free symbols sorted by name; expressions are the values in order; '
                   'result keys are the keys in order', bool(ok), meta={'got': repr(calls)})
        return r
    H.run_paths(fl, '', body4)


def vc_new_graded_reordered(H):
    """graded mode, complete grades supplied in a non-canonical order: either rejected or stored blade-correctly
    (never with the values attached to other blades)."""
    fuc = H.fn(MV, 'MultiVector.__new__')
    from collections.abc import Mapping
    for d, keys in ((2, (2, 1)), (3, (4, 1, 2)), (3, (6, 3, 5))):
        def body(ctx, d=d, keys=keys):
            alg, names, canon2bin, ifg = _concrete_algebra(d, True, lambda n: 0)
            made = []
            fk = sym('fromkeysvalues', callable_result=lambda i, m, a, k: made.append((a, k)) or ('MV', a, k))
            cls = sym('cls', attrs={'fromkeysvalues': fk})
            vals = [sym(f'v{i}') for i in range(len(keys))]
            try:
                H.closure(Interp(ctx, source_name=MV), fuc, {'Mapping': Mapping, 'Symbol': sym('Symbol'), 'sympify': sym('sympify')})(cls, alg, values=list(vals), keys=keys)
                raised = None
            except (TypeError, ValueError, KeyError) as e:
                raised = e
            if raised is None and len(made) == 1:
                a, k = made[0]
                a = list(a) + [k.get(x) for x in ('keys', 'values') if x in k]
                got = dict(zip(a[1], a[2]))
                ok = set(got) == set(keys) and all(same(got[kk], v) for kk, v in zip(keys, vals))
            else:
                ok = raised is not None
            ctx.oblige('new[graded, reordered complete keys]: rejected, or every coefficient stays on the blade it was supplied for', bool(ok),
                       meta={'made': repr(made)[:300]})
            if raised is not None:
                ctx.notes.append('expected-raise'); raise raised
        H.run_paths(fuc, f'd={d},graded,keys={keys}', body)
