"""Sidecar contracts for kingdon/taperecorder.py and do_compile (C11): simulation of the MultiVector surface.

Simulation relation R(tape, mv): tape.keys() == mv.keys() and evaluating tape.expr in algebra.numspace with the
arguments bound yields mv.values().  Each member in the must-equal list of C11 preserves R if it (1) looks up the
same algebra operator as the MultiVector member of the same name (README table), (2) with the key tuples in the
same order, (3) emits a call of that generated function by name with the argument expressions in the same order,
and (4) takes keys_out from that lookup.  Call-by-name resolution is Inv(2) of C09.
"""
import z3

from kvc.values import SBool, SKey, SInt, OutOfSubset
from kvc.engine import Interp, PathEnd
from kvc.rec import Rec, sym, same
from contracts.multivector_c import BINARY, UNARY, vc_dual, vc_mv_norms

TR = 'kingdon/taperecorder.py'
MV = 'kingdon/multivector.py'
CG = 'kingdon/codegen.py'
# operators for which a scalar commutes with every multivector (sign(0,K) == sign(K,0) == 1: L-unit; a+b == b+a)
SCALAR_COMMUTES = {'gp', 'op', 'add'}


class TapeCls:
    """TapeRecorder class object as seen from inside its methods (`self.__class__(...)`, isinstance)."""

    def __init__(self):
        self.made = []

    def kvc_call(self, interp, *a, **kw):
        names = ['algebra', 'expr', 'keys']
        d = dict(zip(names, a))
        d.update(kw)
        t = Tape(self, d.get('algebra'), d.get('expr'), d.get('keys'))
        self.made.append(t)
        return t

    def kvc_instancecheck(self, interp, v):
        return isinstance(v, Tape)


class Tape:
    def __init__(self, cls, algebra, expr, keys):
        self.cls, self.algebra, self.expr, self._keys = cls, algebra, expr, keys

    def kvc_getattr(self, interp, name):
        if name == '__class__':
            return self.cls
        if name in ('algebra', 'expr', '_keys'):
            return getattr(self, name)
        if name == 'keys':
            return lambda: self._keys
        res = getattr(self, 'method_resolver', None)
        if res is not None:
            m = res(interp, self, name)        # a helper method that is not in the baseline of TapeRecorder: inlined
            if m is not None:
                return m
        # not part of this model of a tape: whether the real object has it is unknown here -> undecided, not an AttributeError
        raise OutOfSubset(f'TapeRecorder.{name} is not modelled')

    def kvc_isinstance(self, interp, cls):
        classes = cls if isinstance(cls, tuple) else (cls,)
        return any(c is self.cls for c in classes)

    def kvc_format(self, interp, spec):
        raise OutOfSubset('a tape object spliced into source text (only .expr may be)')


def _alg_with_ops(ctx, looked):
    def mk_op(name):
        def on_getitem(interp, me, idx):
            looked.append((name, idx))
            fn = sym(f'func<{name}>', attrs={'__name__': f'FN_{name}'})
            return (sym(f'keys_out<{name}>'), fn)
        return sym(f'alg.{name}', on_getitem=on_getitem)
    ops = {n: mk_op(n) for n in set(v[0] for v in BINARY.values()) | set(UNARY.values())}
    r = SKey.fresh('alg_r', 0, 16)
    ctx.assume(r.range_constraint())
    return sym('algebra', attrs=dict(ops, r=r)), ops


def vc_tape_operators(H):
    # ---- binary members
    for meth, (op, refl) in BINARY.items():
        try:
            fuc = H.fn(TR, f'TapeRecorder.{meth}')
        except Exception:
            continue        # member absent from TapeRecorder: registered functions using it raise (allowed by C11)
        if fuc.ex.alias_of is None and meth == '__rsub__':
            _vc_tape_rsub(H, fuc)
            continue
        kw = fuc.ex.bound_kwargs
        for other_kind in ('tape', 'number'):
            def body(ctx, meth=meth, op=op, refl=refl, fuc=fuc, kw=kw, other_kind=other_kind):
                looked = []
                alg, ops = _alg_with_ops(ctx, looked)
                cls = TapeCls()
                me = Tape(cls, alg, 'SELF', sym('self.keys'))
                other = Tape(cls, alg, 'OTHER', sym('other.keys')) if other_kind == 'tape' else 7
                interp = Interp(ctx, source_name=TR)
                r = H.closure(interp, fuc)(me, other, **kw)
                if len(looked) != 1:
                    # composed from several operators (or none): equality with the single table operator is not decidable from the
                    # recorded look-ups -> undecided, the register stand-in compares values
                    raise OutOfSubset(f'TapeRecorder.{meth}: {len(looked)} operator look-ups instead of one (contract does not apply)')
                ok = len(looked) == 1 and looked[0][0] == op
                ctx.oblige(f'C11 sim: TapeRecorder.{meth} uses algebra.{op} (as MultiVector.{meth})', bool(ok),
                           meta={'looked_up': repr(looked)})
                if not ok or not isinstance(r, Tape):
                    ctx.oblige('C11 sim: returns a tape', isinstance(r, Tape))
                    return r
                name, idx = looked[0]
                if other_kind == 'tape':
                    exp_idx = (other._keys, me._keys) if refl else (me._keys, other._keys)
                    exp_expr = f'FN_{op}(OTHER, SELF)' if refl else f'FN_{op}(SELF, OTHER)'
                    if op in SCALAR_COMMUTES and refl:
                        # reflected forms are only reached with a non-tape left operand; with two tapes Python calls the
                        # left operand's method, so the non-reflected order is what can be observed
                        exp_idx, exp_expr = (me._keys, other._keys), f'FN_{op}(SELF, OTHER)'
                    ctx.oblige('C11 sim: key tuples looked up in operand order', same(idx, exp_idx), meta={'got': repr(idx)})
                    ctx.oblige('C11 sim: emitted call passes the operand expressions in the same order', r.expr == exp_expr,
                               meta={'got': r.expr, 'expected': exp_expr})
                else:
                    if refl and op not in SCALAR_COMMUTES:
                        ctx.oblige(f'C11 sim: reflected {meth} with a number must keep the number on the left', False)
                        return r
                    ctx.oblige('C11 sim: a plain number is the scalar pattern (0,) (as _call_binary wraps it)',
                               same(idx, (me._keys, (0,))) , meta={'got': repr(idx)})
                    ctx.oblige('C11 sim: emitted call passes (number,) as the scalar operand', r.expr == f'FN_{op}(SELF, (7,))',
                               meta={'got': r.expr})
                ctx.oblige('C11 sim: result keys are the keys_out of that lookup', same(r._keys, sym(f'keys_out<{op}>')))
                return r
            H.run_paths(fuc, f'{meth},other={other_kind}', body)
    # ---- unary members
    for meth, op in UNARY.items():
        try:
            fuc = H.fn(TR, f'TapeRecorder.{meth}')
        except Exception:
            continue
        kw = fuc.ex.bound_kwargs

        def body(ctx, meth=meth, op=op, fuc=fuc, kw=kw):
            looked = []
            alg, ops = _alg_with_ops(ctx, looked)
            cls = TapeCls()
            me = Tape(cls, alg, 'SELF', sym('self.keys'))
            r = H.closure(Interp(ctx, source_name=TR), fuc)(me, **kw)
            if len(looked) != 1:
                raise OutOfSubset(f'TapeRecorder.{meth}: {len(looked)} operator look-ups instead of one (contract does not apply)')
            ok = len(looked) == 1 and looked[0][0] == op and same(looked[0][1], me._keys) and isinstance(r, Tape)
            ctx.oblige(f'C11 sim: TapeRecorder.{meth} uses algebra.{op}[self.keys()]', bool(ok), meta={'looked_up': repr(looked)})
            if ok:
                ctx.oblige('C11 sim: emitted call and keys_out', r.expr == f'FN_{op}(SELF)' and same(r._keys, sym(f'keys_out<{op}>')))
            return r
        H.run_paths(fuc, meth, body)


def _vc_tape_rsub(H, fuc):
    def body(ctx):
        me, other = sym('self'), sym('other')
        r = H.closure(Interp(ctx, source_name=TR), fuc)(me, other)
        exp = Rec('binop', 'Add', other, Rec('unop', 'USub', me))
        ctx.oblige('C11 sim: number - tape == number + (-tape)', same(r, exp), meta={'got': repr(r)})
        return r
    H.run_paths(fuc, '', body)


def vc_tape_pow(H):
    """Same branch structure as MultiVector.__pow__ for every power: both bodies are run on the same opaque operand and
    must produce the same call tree (0 -> scalar one; negative -> inverse first; 0.5 -> sqrt; n -> n-1 products)."""
    ft = H.fn(TR, 'TapeRecorder.__pow__')
    fm = H.fn(MV, 'MultiVector.__pow__')
    for power in (0, 1, 2, 3, 5, -1, -2, -3, 0.5):
        def body(ctx, power=power):
            one_mv = sym('scalar-one')
            alg = sym('algebra', attrs={'scalar': sym('alg.scalar', callable_result=lambda i, m, a, k: one_mv)})
            cls = TapeCls()
            me = sym('x', attrs={'algebra': alg, '__class__': cls})
            r_t = H.closure(Interp(ctx, source_name=TR), ft)(me, power)
            ev_t = [e for e in ctx.events if e[0] == 'call']
            del ctx.events[:]
            r_m = H.closure(Interp(ctx, source_name=MV), fm)(me, power)
            if power == 0:
                ok = isinstance(r_t, Tape) and r_t.expr == '(1,)' and r_t._keys == (0,) and r_m is one_mv
                ctx.oblige('C11 sim: x**0 is the scalar 1 in both worlds', bool(ok))
            elif same(r_t, r_m):
                ctx.oblige(f'C11 sim: x**{power} builds the same operator tree as MultiVector.__pow__', True)
            else:
                # different bracketing is fine as long as both are products of equally many factors of the same base
                # (powers of one element associate and commute)
                base = me if power > 0 else Rec('call', Rec('attr', me, 'inv'), (), {})

                def count(t):
                    if isinstance(t, Rec) and same(t, base):
                        return 1
                    if isinstance(t, Rec) and t.kind == 'call' and isinstance(t.parts[0], Rec) and t.parts[0].kind == 'attr' \
                            and t.parts[0].parts[1] in ('gp', '__mul__') and len(t.parts[1]) == 1 and not t.parts[2]:
                        a, b = count(t.parts[0].parts[0]), count(t.parts[1][0])
                        return None if a is None or b is None else a + b
                    if isinstance(t, Rec) and t.kind == 'binop' and t.parts[0] == 'Mult':
                        a, b = count(t.parts[1]), count(t.parts[2])
                        return None if a is None or b is None else a + b
                    return None
                nt, nm = count(r_t), count(r_m)
                if nt is None or nm is None:
                    raise OutOfSubset(f'x**{power}: results are not product trees over one base (tape {r_t!r}, multivector {r_m!r})')
                ctx.oblige(f'C11 sim: x**{power} is a product of equally many factors in both worlds', nt == nm,
                           meta={'tape': repr(r_t)[:200], 'multivector': repr(r_m)[:200], 'factors': [nt, nm]})
            return r_t
        H.run_paths(ft, f'power={power}', body)


def vc_tape_grade(H):
    """TapeRecorder.grade keeps exactly the stored keys of the requested grades, each paired with its own position.
    (a) generic membership on a key tuple of length 3 (the comprehension is uniform in the length);
    (b) concrete requested-blade lists whose (canonical) order differs from the stored order: the (key, position) pairs must
        stay paired whatever order the implementation emits them in."""
    import re as _re
    fuc = H.fn(TR, 'TapeRecorder.grade')
    for form in ('ints', 'tuple'):
        for scenario in ('generic-membership', 'canonical-order-differs'):
            def body(ctx, form=form, scenario=scenario):
                keys = tuple(sym(f'k{i}') for i in range(3))
                member = [SBool(z3.Bool(f'k{i}_has_requested_grade')) for i in range(3)]
                seen = {}

                def contains(interp, me, item):
                    for i, k in enumerate(keys):
                        if item is k:
                            return member[i]
                    raise OutOfSubset('membership of an unknown key')

                def gi(interp, me, idx):
                    seen['grades'] = idx
                    if scenario == 'generic-membership':
                        return sym('requested-blades', on_contains=contains)
                    return (keys[2], sym('unstored-blade'), keys[0])       # canonical order: k2 before k0; k1 not requested
                alg = sym('algebra', attrs={'indices_for_grades': sym('indices_for_grades', on_getitem=gi)})
                cls = TapeCls()
                me = Tape(cls, alg, 'SELF', keys)
                interp = Interp(ctx, source_name=TR)
                r = H.closure(interp, fuc)(me, *((1, 2) if form == 'ints' else ((1, 2),)))
                if scenario == 'generic-membership':
                    kept = [i for i in range(3) if ctx.decide(member[i].t)]
                else:
                    kept = [0, 2]
                ctx.oblige('C11 sim: grades are looked up as a tuple', seen.get('grades') == (1, 2))
                ok = isinstance(r, Tape) and isinstance(r.expr, str)
                m = _re.fullmatch(r'\[SELF\[idx\] for idx in \(([0-9, ]*)\)\]', r.expr) if ok else None
                ctx.oblige('C11 sim: result is a tape selecting positions of the operand', bool(m), meta={'got': getattr(r, 'expr', None)})
                if not m:
                    return r
                idxs = [int(x) for x in m.group(1).replace(' ', '').split(',') if x]
                rk = list(r._keys)
                ctx.oblige('C11 sim: keeps exactly the stored keys of the requested grades',
                           len(rk) == len(idxs) == len(kept) and sorted(idxs) == kept, meta={'keys': repr(rk), 'positions': idxs})
                ctx.oblige('C11 sim: each kept key is paired with the value at its own position',
                           len(rk) == len(idxs) and all(0 <= i < 3 and rk[j] is keys[i] for j, i in enumerate(idxs)),
                           meta={'keys': repr(rk), 'positions': idxs})
                return r
            H.run_paths(fuc, f'grades-as-{form},{scenario}', body)


def vc_tape_getattr(H):
    """Coefficient access inside a registered function: the scalar (keys (0,)) with the MultiVector.__getattr__ value:
    (-1)^parity * values[idx], 0 when absent / unknown generator; not a blade name -> AttributeError."""
    fuc = H.fn(TR, 'TapeRecorder.__getattr__')
    import re as _re
    from contracts.access_c import AnyName, CanonName, InvalidName

    class ReModel:
        @staticmethod
        def match(pattern, name):
            if pattern != r'^e[0-9a-fA-F]*$':
                raise OutOfSubset('blade-name pattern changed')
            return name.kind != 'not-a-blade'
    for kind in ('spelling', 'canonical', 'unknown-generator', 'not-a-blade'):
        def body(ctx, kind=kind):
            ks = [SKey.fresh(f'k{i}', 0, 65535) for i in range(3)]
            for k in ks:
                ctx.assume(k.range_constraint())
            ctx.assume(z3.Distinct(*[k.t for k in ks]))
            K = SKey.fresh('K', 0, 65535)
            ctx.assume(K.range_constraint())
            swaps = SInt(z3.Int('swaps'))
            ctx.assume(swaps.t >= 0)
            name = AnyName(K, swaps, kind)

            class C2B:
                def kvc_contains(self, interp, item):
                    return isinstance(item, CanonName)

                def kvc_getitem(self, interp, item):
                    return item.k

                def get(self, item, default=None):
                    return item.k if isinstance(item, CanonName) else default

            def b2c(interp, me, a, kw):
                n = a[0]
                if n.kind == 'spelling':
                    return (CanonName(n.K), n.par)
                if n.kind == 'canonical':
                    return (CanonName(n.K), 0)
                return (InvalidName(), 0)
            alg = sym('algebra', attrs={'canon2bin': C2B(), '_blade2canon': sym('_blade2canon', callable_result=b2c)})
            cls = TapeCls()
            me = Tape(cls, alg, 'SELF', tuple(ks))
            interp = Interp(ctx, source_name=TR)
            try:
                r = H.closure(interp, fuc, {'re': ReModel})(me, name)
                raised = None
            except AttributeError as e:
                r, raised = None, e
            if kind == 'not-a-blade':
                ctx.oblige('C11: a non-blade attribute raises AttributeError', raised is not None)
                if raised:
                    ctx.notes.append('expected-raise'); raise raised
                return r
            if raised or not isinstance(r, Tape):
                raise OutOfSubset('C11: coefficient access returns a tape' + ' -- shape not recognised, contract does not apply')
                return r
            ctx.oblige('C11: a coefficient is a scalar: keys == (0,)', r._keys == (0,))
            if kind == 'unknown-generator':
                ctx.oblige('C11: unknown generator reads 0', r.expr == '(0,)')
                return r
            pos = [i for i in range(3) if ctx.decide(ks[i].t == K.t)]
            if not pos:
                ctx.oblige('C11: absent blade reads 0', r.expr == '(0,)')
            else:
                odd = ctx.decide(swaps.t % 2 == 1) if kind == 'spelling' else False
                exp = f'({"-" if odd else ""}SELF[{pos[0]}],)'
                ctx.oblige('C11: (-1)^parity * value at the position of the blade', r.expr == exp, meta={'got': r.expr, 'expected': exp})
            return r
        H.run_paths(fuc, f'name={kind}', body)


def vc_do_compile(H):
    """do_compile: compiles `def <name>(<arg exprs>): return <result expr>` in algebra.numspace and returns
    (result keys, that function); a scalar string result is wrapped as the 1-tuple with key (0,)."""
    fuc = H.fn(CG, 'do_compile')
    for res_kind in ('tape', 'str'):
        def body(ctx, res_kind=res_kind):
            numspace = sym('numspace')
            alg = sym('algebra', attrs={'numspace': numspace})
            cls = TapeCls()
            t1, t2 = Tape(cls, alg, 'a', sym('keys_a')), Tape(cls, alg, 'b', sym('keys_b'))
            res = Tape(cls, alg, 'RESULT_EXPR', sym('keys_res')) if res_kind == 'tape' else 'SCALAR_EXPR'
            codegen = sym('codegen', attrs={'__name__': 'userf'}, callable_result=lambda i, m, a, k: res)
            compiled, execs, lc = [], [], []
            the_func = sym('compiled-function')

            def m_compile(src, filename, mode):
                compiled.append((src, filename, mode))
                return ('code', src)

            def m_exec(code, glob, loc):
                execs.append((code, glob, loc))
                loc[_funcname(code[1])] = the_func

            def _funcname(src):
                return src[4:src.index('(')]

            class TypeId:
                def kvc_call(self, interp, t):
                    return 'T' + t.expr
            linecache = sym('linecache', attrs={'cache': sym('linecache.cache')})
            env = {'compile': m_compile, 'exec': m_exec, 'linecache': linecache, '_type_id': TypeId(),
                   'CodegenOutput': lambda keys, func: ('CodegenOutput', keys, func), 'len': len}
            for t in (t1, t2, res):
                if isinstance(t, Tape):
                    t.type_number = 0
            interp = Interp(ctx, source_name=CG)
            r = H.closure(interp, fuc, env)(codegen, t1, t2)
            ok = len(compiled) == 1 and len(execs) == 1
            ctx.oblige('compiles and executes exactly one definition', bool(ok))
            if not ok:
                return r
            src = compiled[0][0]
            body_expr = 'RESULT_EXPR' if res_kind == 'tape' else '(SCALAR_EXPR,)'
            import ast as _ast
            try:
                tree = _ast.parse(src)
                fd = tree.body[0]
                good = (isinstance(fd, _ast.FunctionDef) and [a.arg for a in fd.args.args] == ['a', 'b'] and len(fd.body) == 1
                        and isinstance(fd.body[0], _ast.Return) and _ast.unparse(fd.body[0].value) == _ast.unparse(_ast.parse(body_expr, mode='eval').body))
            except SyntaxError:
                good = False
            ctx.oblige('source: def <name>(a, b) returning the recorded result expression (parameters are the tapes\' argument names, in order)',
                       bool(good), meta={'source': src})
            ctx.oblige('executes in algebra.numspace (calls by name resolve there at call time)', execs[0][1] is numspace)
            keys = sym('keys_res') if res_kind == 'tape' else (0,)
            ctx.oblige('returns (result keys, the compiled function)',
                       isinstance(r, tuple) and r[0] == 'CodegenOutput' and same(r[1], keys) and r[2] is the_func,
                       meta={'got': repr(r)})
            return r
        H.run_paths(fuc, f'result={res_kind}', body)


def vc_tape_all(H):
    vc_tape_operators(H)
    vc_tape_pow(H)
    vc_tape_grade(H)
    vc_tape_getattr(H)
    vc_dual(H, cls='TapeRecorder', rel=TR)
    vc_mv_norms(H, cls='TapeRecorder', rel=TR)
    vc_do_compile(H)
