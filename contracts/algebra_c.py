"""Sidecar contracts for kingdon/algebra.py: the blade-sign chain behind C01 (C14, C15).

_swap_blades(blade1, blade2, target)
  requires  the characters of blade1 are pairwise distinct, those of blade2 likewise; if target is
            non-empty it is a permutation of the symmetric difference of the two character sets
  ensures   par(swaps) == Inv(blade1 ++ blade2) xor P(prod)
              Inv(w) = parity of #{p < q : w[p] > w[q]} (so Inv(b1++b2) = P(b1)+P(b2)+#{a in b1, b in b2 : a > b}),
              P = Inv on a word of distinct characters (its sorting parity)
            c in prod <=> (c in blade1) xor (c in blade2);  c in eliminated <=> c in both;
            prod == target when a target is given
  proof     loop invariants, checked per concrete list length n <= 16 with symbolic contents (the naming
            scheme admits at most 16 distinct hex digits, so this is complete, not a sample).  Parity terms
            are kept in XOR-normal form (kvc/xnf.py).
   loop 0   Psi_t := par(swaps) ^ P(cur) ^ XOR_{c in cur} G_t(c) ^ Psuf_t  is constant, where
            G_t(c) = parity #{s in blade2[t:] : c > s} and Psuf_t = P(blade2[t:]) are ghost functions of the
            unprocessed suffix: Psi_t = par(swaps) ^ Inv(cur ++ blade2[t:]).  Unfolding for the head `ch`:
            G_t(c) = [c > ch] ^ G_{t+1}(c),  Psuf_t = G_{t+1}(ch) ^ Psuf_{t+1}.
   loop 1   par(swaps) ^ P(blade1) constant; blade1 is a rearrangement of its entry value;
            blade1[:i] == target[:i].
"""
import z3

from kvc.values import SBool, SKey, SInt, SSign, SChar, OutOfSubset, mkbool, WB, CB
from kvc.engine import Interp, LoopSpec, PathEnd
from kvc.models import Spelling, JoinText, W
from kvc.xnf import X, Cells

REL = 'kingdon/algebra.py'
MAXLEN = 16


def _cells(prefix, n):
    return [SChar(z3.BitVec(f'{prefix}{i}', CB)) for i in range(n)]


def _distinct(cells):
    if len(cells) < 2:
        return z3.BoolVal(True)
    return z3.Distinct(*[c.c for c in cells])


def _member(c, cells):
    return z3.Or([c == x.c for x in cells]) if cells else z3.BoolVal(False)


class _Marker:
    """Stands for the (unknown) earlier content of the `eliminated` list."""
    def __repr__(self):
        return '<eliminated-so-far>'


def vc_swap_blades(H, lengths=range(0, MAXLEN + 1)):
    fuc = H.fn(REL, '_swap_blades')
    bvc = z3.BitVecSort(CB)
    G1 = z3.Function('G_suffix_after', bvc, z3.BoolSort())       # G_{t+1}
    InB1 = z3.Function('InB1', bvc, z3.BoolSort())
    InPre = z3.Function('InPre', bvc, z3.BoolSort())               # c in blade2[:t]
    InElim = z3.Function('InElim', bvc, z3.BoolSort())             # c in eliminated (so far)

    # ---------------------------------------------------------------- (E) entry: invariant of loop 0 established
    def run_entry(n1):
        def body(ctx):
            b1 = _cells('a', n1)
            tgt = []
            seen = {}

            def establish(interp, env, it):
                cur, sw, el = env.lookup('blade1'), env.lookup('swaps'), env.lookup('eliminated')
                ok = (isinstance(cur, list) and len(cur) == n1 and all(x is y for x, y in zip(cur, b1))
                      and sw == 0 and el == [] and isinstance(sw, int))
                ctx.oblige('inv0-init: blade1 == list(blade1), swaps == 0, eliminated == []', bool(ok), 'inv')
                seen['ok'] = True
                raise PathEnd('entry checked')
            spec = LoopSpec(establish, None, None)
            interp = Interp(ctx, loop_specs={('_swap_blades', 0): spec}, source_name=REL)
            clo = H.closure(interp, fuc)
            clo(Spelling(b1), Spelling(_cells('b', 2)), Spelling(tgt))
            ctx.oblige('loop 0 is reached', False, 'inv')
        H.run_paths(fuc, f'entry,n1={n1}', body)

    # ---------------------------------------------------------------- (A) loop 0 step for a current list of length m
    def run_step0(m):
        def body(ctx):
            cells = Cells()
            cur0 = _cells('c', m)
            for i, c in enumerate(cur0):
                cells.name(c, f'c{i}')
            ch = SChar(z3.BitVec('ch', CB))
            cells.name(ch, 'ch')
            marker = _Marker()
            s0 = z3.Int('s0')
            ctx.assume(_distinct(cur0))
            state = {}

            def establish(interp, env, it):
                pass

            def havoc(interp, env, it, n, at_exit):
                env.vars['blade1'] = list(cur0)
                env.vars['swaps'] = SInt(s0)
                env.vars['eliminated'] = [marker]

            def element(it, n):
                return ch

            def preserve(interp, env, it, n):
                new, sw, el = env.lookup('blade1'), env.lookup('swaps'), env.lookup('eliminated')
                if not (isinstance(new, list) and all(isinstance(x, SChar) for x in new)
                        and isinstance(el, list) and el and el[0] is marker):
                    ctx.oblige('inv0: blade1 / eliminated keep their list shape', False, 'inv')
                    return
                swt = sw.t if isinstance(sw, SInt) else z3.IntVal(sw)
                for x in new:
                    cells.name(x)
                # (1) distinctness of the current list is preserved
                ctx.oblige('inv0-step: characters of blade1 stay pairwise distinct', _distinct(new), 'inv')
                # (2) Psi_t == Psi_{t+1}
                d = cells.inv(cur0) ^ cells.inv(new)
                for c in cur0:
                    d = d ^ cells.gt(c, ch) ^ cells.uf(G1, 'G1', c)
                d = d ^ cells.uf(G1, 'G1', ch)
                for c in new:
                    d = d ^ cells.uf(G1, 'G1', c)
                table = dict(cells.table)
                dsw = (swt - s0) % 2 == 1
                ctx.oblige('inv0-step: par(swaps) ^ Inv(blade1 ++ rest of blade2) is unchanged',
                           z3.Not(z3.Xor(d.term(table), dsw)), 'inv', meta={'residual_atoms': len(d.atoms)})
                # (3) membership ghosts, generic character q
                q = z3.BitVec('q', CB)
                hyp = z3.And(_member(q, cur0) == z3.Xor(InB1(q), InPre(q)),
                             _member(ch.c, cur0) == z3.Xor(InB1(ch.c), InPre(ch.c)),
                             z3.Not(InPre(ch.c)))                                    # blade2 has distinct characters
                pre1 = z3.Or(InPre(q), q == ch.c)
                ctx.oblige('inv0-step: c in blade1  <=>  (c in blade1_0) xor (c in blade2[:t+1])',
                           z3.Implies(hyp, _member(q, new) == z3.Xor(InB1(q), pre1)), 'inv')
                added = el[1:]
                if not all(isinstance(x, SChar) for x in added):
                    ctx.oblige('inv0: eliminated holds characters', False, 'inv')
                    return
                in_el1 = z3.Or(InElim(q), _member(q, added))
                ctx.oblige('inv0-step: c in eliminated  <=>  c in blade1_0 and c in blade2[:t+1]',
                           z3.Implies(z3.And(hyp, InElim(q) == z3.And(InB1(q), InPre(q))),
                                      in_el1 == z3.And(InB1(q), pre1)), 'inv')
            spec = LoopSpec(establish, havoc, preserve, element=element)
            spec.mode = 'step'
            interp = Interp(ctx, loop_specs={('_swap_blades', 0): spec}, source_name=REL)
            clo = H.closure(interp, fuc)
            clo(Spelling(_cells('a', 1)), Spelling([ch]), Spelling([]))
        H.run_paths(fuc, f'loop0,len={m}', body)

    # ---------------------------------------------------------------- (B) loop 1 step at position i of a list of length m
    def run_step1(m, i0):
        def body(ctx):
            cells = Cells()
            cur0 = _cells('c', m)
            tgt = _cells('t', m)
            for j, c in enumerate(cur0):
                cells.name(c, f'c{j}')
            s0 = z3.Int('s0')
            ctx.assume(_distinct(cur0))
            ctx.assume(_distinct(tgt))
            for j in range(i0):
                ctx.assume(cur0[j].c == tgt[j].c)                 # blade1[:i] == target[:i]
            for t in tgt:
                ctx.assume(_member(t.c, cur0))                   # requires: target is a permutation of the result set

            def nothing(interp, env, it, *a):
                pass

            def havoc0(interp, env, it, n, at_exit):
                env.vars['blade1'] = list(cur0)
                env.vars['swaps'] = SInt(s0)
                env.vars['eliminated'] = [_Marker()]

            def element1(it, n):
                return (i0, tgt[i0])

            def preserve1(interp, env, it, n):
                new, sw = env.lookup('blade1'), env.lookup('swaps')
                swt = sw.t if isinstance(sw, SInt) else z3.IntVal(sw)
                if not (isinstance(new, list) and sorted(map(id, new)) == sorted(map(id, cur0))):
                    ctx.oblige('inv1-step: blade1 is a rearrangement of its previous value', False, 'inv')
                    return
                ctx.oblige('inv1-step: blade1 is a rearrangement of its previous value', True, 'inv')
                ctx.oblige('inv1-step: blade1[:i+1] == target[:i+1]',
                           z3.And([new[j].c == tgt[j].c for j in range(i0 + 1)]), 'inv')
                d = cells.inv(cur0) ^ cells.inv(new)
                dsw = (swt - s0) % 2 == 1
                ctx.oblige('inv1-step: par(swaps) ^ P(blade1) is unchanged',
                           z3.Not(z3.Xor(d.term(dict(cells.table)), dsw)), 'inv', meta={'residual_atoms': len(d.atoms)})
            spec0 = LoopSpec(nothing, havoc0, nothing)
            spec0.mode = 'exit'
            spec1 = LoopSpec(nothing, nothing, preserve1, element=element1)
            spec1.mode = 'step'
            interp = Interp(ctx, loop_specs={('_swap_blades', 0): spec0, ('_swap_blades', 1): spec1}, source_name=REL)
            clo = H.closure(interp, fuc)
            clo(Spelling(_cells('a', 1)), Spelling(_cells('b', 1)), Spelling(tgt))
        H.run_paths(fuc, f'loop1,len={m},i={i0}', body)

    # ---------------------------------------------------------------- (C) exit: what is returned
    def run_exit(m, with_target):
        def body(ctx):
            cur0 = _cells('c', m)
            tgt = _cells('t', m) if with_target else []
            marker = _Marker()
            s0, s1 = z3.Int('s0'), z3.Int('s1')
            fin = list(tgt) if with_target else list(cur0)

            def nothing(interp, env, it, *a):
                pass

            def havoc0(interp, env, it, n, at_exit):
                env.vars['blade1'] = list(cur0)
                env.vars['swaps'] = SInt(s0)
                env.vars['eliminated'] = [marker]

            def havoc1(interp, env, it, n, at_exit):
                # exit state of loop 1: blade1 == target (invariant at i == len(target)), swaps havoced
                env.vars['blade1'] = list(tgt)
                env.vars['swaps'] = SInt(s1)
            spec0 = LoopSpec(nothing, havoc0, nothing)
            spec0.mode = 'exit'
            spec1 = LoopSpec(nothing, havoc1, nothing)
            spec1.mode = 'exit'
            interp = Interp(ctx, loop_specs={('_swap_blades', 0): spec0, ('_swap_blades', 1): spec1}, source_name=REL)
            clo = H.closure(interp, fuc)
            r = clo(Spelling(_cells('a', 1)), Spelling(_cells('b', 1)), Spelling(tgt))
            ok = (isinstance(r, tuple) and len(r) == 3 and isinstance(r[0], SInt)
                  and z3.eq(r[0].t, s1 if (with_target and m) else s0)
                  and isinstance(r[1], (Spelling, str)) and len(r[1]) == len(fin)
                  and all(x is y for x, y in zip(r[1], fin))
                  and isinstance(r[2], JoinText) and r[2].sep == '' and len(r[2].xs) == 1 and r[2].xs[0] is marker)
            ctx.oblige('post: returns (swaps, "".join(blade1), "".join(eliminated)) of the exit state', bool(ok))
            if ok and m:
                pass
            return r
        H.run_paths(fuc, f'exit,len={m},target={with_target}', body)

    for n1 in (0, 1, 5, MAXLEN):
        run_entry(n1)
    for m in lengths:
        run_step0(m)
    for m in lengths:
        for i0 in range(m):
            run_step1(m, i0)
    for m in (0, 1, 4):
        run_exit(m, True)
        run_exit(m, False)
