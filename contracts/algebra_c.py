"""Sidecar contracts for kingdon/algebra.py: the blade-sign chain behind C01 (C14, C15).

_swap_blades(blade1, blade2, target)
  requires  the characters of blade1 are pairwise distinct, those of blade2 likewise; if target is
            non-empty it is a permutation of the symmetric difference of the two character sets
  ensures   par(swaps) == Inv(blade1 ++ blade2) xor P(prod)
              Inv(w) = parity of #{p < q : w[p] > w[q]} (so Inv(b1++b2) = P(b1)+P(b2)+#{a in b1, b in b2 : a > b}),
              P = Inv on a word of distinct characters (its sorting parity)
            c in prod <=> (c in blade1) xor (c in blade2);  c in eliminated <=> c in both;
            prod == target when a target is given
  proof     loop invariants, checked per concrete list length n <= 16 with symbolic contents (the naming
            scheme admits at most 16 distinct hex digits, so this is complete, not a sample).  Parity terms
            are kept in XOR-normal form (kvc/xnf.py).
   loop 0   Psi_t := par(swaps) ^ P(cur) ^ XOR_{c in cur} G_t(c) ^ Psuf_t  is constant, where
            G_t(c) = parity #{s in blade2[t:] : c > s} and Psuf_t = P(blade2[t:]) are ghost functions of the
            unprocessed suffix: Psi_t = par(swaps) ^ Inv(cur ++ blade2[t:]).  Unfolding for the head `ch`:
            G_t(c) = [c > ch] ^ G_{t+1}(c),  Psuf_t = G_{t+1}(ch) ^ Psuf_{t+1}.
   loop 1   par(swaps) ^ P(blade1) constant; blade1 is a rearrangement of its entry value;
            blade1[:i] == target[:i].
"""
import z3

from kvc.values import SBool, SKey, SInt, SSign, SChar, OutOfSubset, mkbool, WB, CB
from kvc.engine import Interp, LoopSpec, PathEnd
from kvc.models import Spelling, JoinText, W
from kvc.xnf import X, Cells

REL = 'kingdon/algebra.py'
MAXLEN = 16


def _cells(prefix, n):
    return [SChar(z3.BitVec(f'{prefix}{i}', CB)) for i in range(n)]


def _distinct(cells):
    if len(cells) < 2:
        return z3.BoolVal(True)
    return z3.Distinct(*[c.c for c in cells])


def _member(c, cells):
    return z3.Or([c == x.c for x in cells]) if cells else z3.BoolVal(False)


class _Marker:
    """Stands for the (unknown) earlier content of the `eliminated` list."""
    def __repr__(self):
        return '<eliminated-so-far>'


def vc_swap_blades(H, lengths=range(0, MAXLEN + 1)):
    fuc = H.fn(REL, '_swap_blades')
    bvc = z3.BitVecSort(CB)
    G1 = z3.Function('G_suffix_after', bvc, z3.BoolSort())       # G_{t+1}
    InB1 = z3.Function('InB1', bvc, z3.BoolSort())
    InPre = z3.Function('InPre', bvc, z3.BoolSort())               # c in blade2[:t]
    InElim = z3.Function('InElim', bvc, z3.BoolSort())             # c in eliminated (so far)

    # ---------------------------------------------------------------- (E) entry: invariant of loop 0 established
    def run_entry(n1):
        def body(ctx):
            b1 = _cells('a', n1)
            tgt = []
            seen = {}

            def establish(interp, env, it):
                cur, sw, el = env.lookup('blade1'), env.lookup('swaps'), env.lookup('eliminated')
                ok = (isinstance(cur, list) and len(cur) == n1 and all(x is y for x, y in zip(cur, b1))
                      and sw == 0 and el == [] and isinstance(sw, int))
                ctx.oblige('inv0-init: blade1 == list(blade1), swaps == 0, eliminated == []', bool(ok), 'inv')
                seen['ok'] = True
                raise PathEnd('entry checked')
            spec = LoopSpec(establish, None, None)
            interp = Interp(ctx, loop_specs={('_swap_blades', 0): spec}, source_name=REL)
            clo = H.closure(interp, fuc)
            clo(Spelling(b1), Spelling(_cells('b', 2)), Spelling(tgt))
            raise OutOfSubset('loop 0 is reached' + ' -- shape not recognised, contract does not apply')
        H.run_paths(fuc, f'entry,n1={n1}', body)

    # ---------------------------------------------------------------- (A) loop 0 step for a current list of length m
    def run_step0(m):
        def body(ctx):
            cells = Cells()
            cur0 = _cells('c', m)
            for i, c in enumerate(cur0):
                cells.name(c, f'c{i}')
            ch = SChar(z3.BitVec('ch', CB))
            cells.name(ch, 'ch')
            marker = _Marker()
            s0 = z3.Int('s0')
            ctx.assume(_distinct(cur0))
            state = {}

            def establish(interp, env, it):
                pass

            def havoc(interp, env, it, n, at_exit):
                env.vars['blade1'] = list(cur0)
                env.vars['swaps'] = SInt(s0)
                env.vars['eliminated'] = [marker]

            def element(it, n):
                return ch

            def preserve(interp, env, it, n):
                new, sw, el = env.lookup('blade1'), env.lookup('swaps'), env.lookup('eliminated')
                if not (isinstance(new, list) and all(isinstance(x, SChar) for x in new)
                        and isinstance(el, list) and el and el[0] is marker):
                    raise OutOfSubset('inv0: blade1 / eliminated keep their list shape' + ' -- shape not recognised, contract does not apply')
                    return
                swt = sw.t if isinstance(sw, SInt) else z3.IntVal(sw)
                for x in new:
                    cells.name(x)
                # (1) distinctness of the current list is preserved
                ctx.oblige('inv0-step: characters of blade1 stay pairwise distinct', _distinct(new), 'inv')
                # (2) Psi_t == Psi_{t+1}
                d = cells.inv(cur0) ^ cells.inv(new)
                for c in cur0:
                    d = d ^ cells.gt(c, ch) ^ cells.uf(G1, 'G1', c)
                d = d ^ cells.uf(G1, 'G1', ch)
                for c in new:
                    d = d ^ cells.uf(G1, 'G1', c)
                table = dict(cells.table)
                dsw = (swt - s0) % 2 == 1
                ctx.oblige('inv0-step: par(swaps) ^ Inv(blade1 ++ rest of blade2) is unchanged',
                           z3.Not(z3.Xor(d.term(table), dsw)), 'inv', meta={'residual_atoms': len(d.atoms)})
                # (3) membership ghosts, generic character q
                q = z3.BitVec('q', CB)
                hyp = z3.And(_member(q, cur0) == z3.Xor(InB1(q), InPre(q)),
                             _member(ch.c, cur0) == z3.Xor(InB1(ch.c), InPre(ch.c)),
                             z3.Not(InPre(ch.c)))                                    # blade2 has distinct characters
                pre1 = z3.Or(InPre(q), q == ch.c)
                ctx.oblige('inv0-step: c in blade1  <=>  (c in blade1_0) xor (c in blade2[:t+1])',
                           z3.Implies(hyp, _member(q, new) == z3.Xor(InB1(q), pre1)), 'inv')
                added = el[1:]
                if not all(isinstance(x, SChar) for x in added):
                    raise OutOfSubset('inv0: eliminated holds characters' + ' -- shape not recognised, contract does not apply')
                    return
                in_el1 = z3.Or(InElim(q), _member(q, added))
                ctx.oblige('inv0-step: c in eliminated  <=>  c in blade1_0 and c in blade2[:t+1]',
                           z3.Implies(z3.And(hyp, InElim(q) == z3.And(InB1(q), InPre(q))),
                                      in_el1 == z3.And(InB1(q), pre1)), 'inv')
            spec = LoopSpec(establish, havoc, preserve, element=element)
            spec.mode = 'step'
            interp = Interp(ctx, loop_specs={('_swap_blades', 0): spec}, source_name=REL)
            clo = H.closure(interp, fuc)
            clo(Spelling(_cells('a', 1)), Spelling([ch]), Spelling([]))
        H.run_paths(fuc, f'loop0,len={m}', body)

    # ---------------------------------------------------------------- (B) loop 1 step at position i of a list of length m
    def run_step1(m, i0):
        def body(ctx):
            cells = Cells()
            cur0 = _cells('c', m)
            tgt = _cells('t', m)
            for j, c in enumerate(cur0):
                cells.name(c, f'c{j}')
            s0 = z3.Int('s0')
            ctx.assume(_distinct(cur0))
            ctx.assume(_distinct(tgt))
            for j in range(i0):
                ctx.assume(cur0[j].c == tgt[j].c)                 # blade1[:i] == target[:i]
            for t in tgt:
                ctx.assume(_member(t.c, cur0))                   # requires: target is a permutation of the result set

            def nothing(interp, env, it, *a):
                pass

            def havoc0(interp, env, it, n, at_exit):
                env.vars['blade1'] = list(cur0)
                env.vars['swaps'] = SInt(s0)
                env.vars['eliminated'] = [_Marker()]

            def element1(it, n):
                return (i0, tgt[i0])

            def preserve1(interp, env, it, n):
                new, sw = env.lookup('blade1'), env.lookup('swaps')
                swt = sw.t if isinstance(sw, SInt) else z3.IntVal(sw)
                if not (isinstance(new, list) and sorted(map(id, new)) == sorted(map(id, cur0))):
                    ctx.oblige('inv1-step: blade1 is a rearrangement of its previous value', False, 'inv')
                    return
                ctx.oblige('inv1-step: blade1 is a rearrangement of its previous value', True, 'inv')
                ctx.oblige('inv1-step: blade1[:i+1] == target[:i+1]',
                           z3.And([new[j].c == tgt[j].c for j in range(i0 + 1)]), 'inv')
                d = cells.inv(cur0) ^ cells.inv(new)
                dsw = (swt - s0) % 2 == 1
                ctx.oblige('inv1-step: par(swaps) ^ P(blade1) is unchanged',
                           z3.Not(z3.Xor(d.term(dict(cells.table)), dsw)), 'inv', meta={'residual_atoms': len(d.atoms)})
            spec0 = LoopSpec(nothing, havoc0, nothing)
            spec0.mode = 'exit'
            spec1 = LoopSpec(nothing, nothing, preserve1, element=element1)
            spec1.mode = 'step'
            interp = Interp(ctx, loop_specs={('_swap_blades', 0): spec0, ('_swap_blades', 1): spec1}, source_name=REL)
            clo = H.closure(interp, fuc)
            clo(Spelling(_cells('a', 1)), Spelling(_cells('b', 1)), Spelling(tgt))
        H.run_paths(fuc, f'loop1,len={m},i={i0}', body)

    # ---------------------------------------------------------------- (C) exit: what is returned
    def run_exit(m, with_target):
        def body(ctx):
            cur0 = _cells('c', m)
            tgt = _cells('t', m) if with_target else []
            marker = _Marker()
            s0, s1 = z3.Int('s0'), z3.Int('s1')
            fin = list(tgt) if with_target else list(cur0)

            def nothing(interp, env, it, *a):
                pass

            seen_loops = set()

            def havoc0(interp, env, it, n, at_exit):
                seen_loops.add(0)
                env.vars['blade1'] = list(cur0)
                env.vars['swaps'] = SInt(s0)
                env.vars['eliminated'] = [marker]

            def havoc1(interp, env, it, n, at_exit):
                # exit state of loop 1: blade1 == target (invariant at i == len(target)), swaps havoced
                seen_loops.add(1)
                env.vars['blade1'] = list(tgt)
                env.vars['swaps'] = SInt(s1)
            spec0 = LoopSpec(nothing, havoc0, nothing)
            spec0.mode = 'exit'
            spec1 = LoopSpec(nothing, havoc1, nothing)
            spec1.mode = 'exit'
            interp = Interp(ctx, loop_specs={('_swap_blades', 0): spec0, ('_swap_blades', 1): spec1}, source_name=REL)
            clo = H.closure(interp, fuc)
            r = clo(Spelling(_cells('a', 1)), Spelling(_cells('b', 1)), Spelling(tgt))
            if 0 not in seen_loops:
                # the two loops are not (both) in the body of _swap_blades itself any more (moved into a helper, replaced):
                # the exit-state clause has nothing to compare with
                raise OutOfSubset('_swap_blades: the loops under contract are not in this function body (contract does not apply)')
            ok = (isinstance(r, tuple) and len(r) == 3 and isinstance(r[0], SInt)
                  and z3.eq(r[0].t, s1 if (with_target and m) else s0)
                  and isinstance(r[1], (Spelling, str)) and len(r[1]) == len(fin)
                  and all(x is y for x, y in zip(r[1], fin))
                  and isinstance(r[2], JoinText) and r[2].sep == '' and len(r[2].xs) == 1 and r[2].xs[0] is marker)
            ctx.oblige('post: returns (swaps, "".join(blade1), "".join(eliminated)) of the exit state', bool(ok))
            if ok and m:
                pass
            return r
        H.run_paths(fuc, f'exit,len={m},target={with_target}', body)

    for n1 in (0, 1, 5, MAXLEN):
        run_entry(n1)
    for m in lengths:
        run_step0(m)
    for m in lengths:
        for i0 in range(m):
            run_step1(m, i0)
    for m in (0, 1, 4):
        run_exit(m, True)
        run_exit(m, False)


# =====================================================================================
# _compute_sign  (nested in Algebra._prepare_signs):  sign = (-1)^swaps * prod_{c in eliminated} met(c)
# =====================================================================================
from kvc.models import SymSeq, sint, CompSeq, Text   # noqa: E402
from kvc.rec import Rec, sym, same          # noqa: E402


class NameOf:
    """self.bin2canon[K]: the canonical name of key K (opaque); name[1:] is its spelling."""

    def __init__(self, K):
        self.K = K

    def kvc_getitem(self, interp, idx):
        if isinstance(idx, slice) and idx.start == 1 and idx.stop is None and idx.step is None:
            return SpellOf(self.K)
        raise OutOfSubset('use of a blade name other than name[1:]')


class SpellOf:
    def __init__(self, K):
        self.K = K


class Bin2Canon:
    def kvc_getitem(self, interp, K):
        return NameOf(K)


class Signature:
    """self.signature as (zero?, negative?) of entry i; reading outside 0 <= i < d is a safety obligation
    (a negative index would silently wrap in numpy)."""

    def __init__(self, d):
        bv = z3.BitVecSort(WB)
        self.zf = z3.Function('sig_zero', bv, z3.BoolSort())
        self.nf = z3.Function('sig_neg', bv, z3.BoolSort())
        self.d = d

    def kvc_getitem(self, interp, i):
        if isinstance(i, int):
            i = SKey.const(i)
        interp.ctx.safety('signature index within 0 <= i < d', z3.And(i.t >= 0, i.t < self.d.t))
        return SSign(self.zf(i.t), self.nf(i.t))


def vc_compute_sign(H):
    fuc = H.fn(REL, 'Algebra._prepare_signs._compute_sign')
    bv = z3.BitVecSort(WB)
    SP = z3.Function('swap_parity_spec', bv, bv, z3.BoolSort())    # Inv(sI ++ sJ) xor P(sIJ): post of _swap_blades
    for with_canon in (False, True):
        def body(ctx, with_canon=with_canon):
            I = SKey.fresh('I', 0, (1 << W) - 1)
            J = SKey.fresh('J', 0, (1 << W) - 1)
            d = SKey.fresh('d', 0, W)
            start = SKey.fresh('start_index', 0, 15)
            for v in (I, J, d, start):
                ctx.assume(v.range_constraint())
            sig = Signature(d)
            me = sym('self', attrs={'bin2canon': Bin2Canon(), 'signature': sig, 'start_index': start})
            m = SInt(z3.Int('n_eliminated'))
            ctx.assume(m.t >= 0)
            ef = z3.Function('elim_char', z3.IntSort(), z3.BitVecSort(CB))
            calls = []

            def elim_get(i):
                c = SChar(ef(sint(i).t))
                # naming contract N-chars: every character of a blade name is hex(g + start_index) of a generator 0 <= g < d
                g = z3.ZeroExt(WB - CB, c.c) - start.t
                ctx.assume(z3.And(z3.ULE(c.c, 15), g >= 0, g < d.t))
                return c
            elim = SymSeq(None, m, elim_get, 'str')
            s0 = SInt(z3.Int('swaps'))
            ctx.assume(s0.t >= 0)

            class SwapStub:
                def kvc_call(self, interp, *a, **kw):
                    calls.append((a, kw))
                    return (s0, SpellOf('prod'), elim)
            ZF = z3.Function('ZeroFold', z3.IntSort(), z3.BoolSort())
            NF = z3.Function('NegFold', z3.IntSort(), z3.BoolSort())
            st = {}

            def establish(interp, env, it):
                sg = env.lookup('sign')
                if it is not elim:
                    raise OutOfSubset('loop iterates over the eliminated characters' + ' -- shape not recognised, contract does not apply')
                    raise PathEnd('shape')
                st['init'] = sg
                ok = isinstance(sg, int) and sg in (-1, 1)
                ctx.oblige('inv-init: sign == (-1)^swaps', z3.BoolVal(ok) if not ok else ((sg == -1) == (s0.t % 2 == 1)), 'inv')

            def havoc(interp, env, it, n, at_exit):
                init_neg = s0.t % 2 == 1
                env.vars['sign'] = SSign(ZF(n.t), z3.Xor(init_neg, NF(n.t)))
                st['n'] = n

            def preserve(interp, env, it, n):
                sg = env.lookup('sign')
                c = it.get(n)
                g = z3.ZeroExt(WB - CB, c.c) - start.t
                z1 = z3.Or(ZF(n.t), sig.zf(g))
                n1 = z3.Xor(NF(n.t), sig.nf(g))
                if not isinstance(sg, SSign):
                    raise OutOfSubset('inv: sign stays a sign value' + ' -- shape not recognised, contract does not apply')
                    return
                ctx.oblige('inv-step: sign is zero iff some eliminated generator so far is null', sg.z == z1, 'inv')
                ctx.oblige('inv-step: sign negativity == par(swaps) xor #negative eliminated generators so far',
                           z3.Implies(z3.Not(z1), sg.n == z3.Xor(s0.t % 2 == 1, n1)), 'inv')
            spec = LoopSpec(establish, havoc, preserve, header='key in eliminated')
            interp = Interp(ctx, loop_specs={('_compute_sign', 0): spec}, source_name=REL)
            clo = H.closure(interp, fuc, {'self': me, '_swap_blades': SwapStub()})
            if with_canon:
                r = clo((I, J), (NameOf(I), NameOf(J)))
            else:
                r = clo((I, J))
            ok = (len(calls) == 1 and len(calls[0][0]) + len(calls[0][1]) == 3)
            if ok:
                a = list(calls[0][0]) + [calls[0][1].get('target')] if len(calls[0][0]) == 2 else list(calls[0][0])
                ok = (isinstance(a[0], SpellOf) and a[0].K is I and isinstance(a[1], SpellOf) and a[1].K is J
                      and isinstance(a[2], SpellOf) and isinstance(a[2].K, SKey) and z3.eq(z3.simplify(a[2].K.t), z3.simplify(I.t ^ J.t)))
            ctx.oblige('call: _swap_blades(name(I)[1:], name(J)[1:], target = name(I ^ J)[1:])', bool(ok))
            n = st.get('n')
            okr = isinstance(r, SSign) and n is not None
            ctx.oblige('post: returns the accumulated sign', bool(okr))
            if okr:
                ctx.oblige('post: sign == 0  <=>  an eliminated (common) generator is null', r.z == ZF(n.t))
                ctx.oblige('post: sign < 0  <=>  par(swaps) xor #negative common generators', 
                           z3.Implies(z3.Not(r.z), r.n == z3.Xor(s0.t % 2 == 1, NF(n.t))))
            return r
        H.run_paths(fuc, f'canon_pair={"given" if with_canon else "None"}', body)


# =====================================================================================
# default naming: bin2canon[K] = 'e' + hex digits (i + start_index) of the set bits i of K, ascending
# =====================================================================================
def vc_default_naming(H):
    """Executes the real dict comprehension of Algebra.__post_init__ (extracted by position) for a generic key eJ
    and a generic generator index ei."""
    import ast
    from kvc import extract as X
    from kvc.engine import Env, BUILTIN_ENV
    fuc = H.fn(REL, 'Algebra.__post_init__')
    # locate `self.bin2canon = { ... for eJ in range(2 ** self.d) }`
    node = None
    for n in ast.walk(fuc.ex.node):
        if (isinstance(n, ast.Assign) and isinstance(n.value, ast.DictComp) and isinstance(n.targets[0], ast.Attribute)
                and n.targets[0].attr == 'bin2canon' and isinstance(n.value.generators[0].iter, ast.Call)
                and getattr(n.value.generators[0].iter.func, 'id', '') == 'range'):
            node = n

    def body(ctx):
        if node is None:
            raise OutOfSubset('default-basis bin2canon comprehension not found in __post_init__')
        d = SKey.fresh('d', 0, W)
        start = SKey.fresh('start_index', 0, 15)
        ctx.assume(d.range_constraint())
        ctx.assume(start.range_constraint())
        ctx.assume(d.t + start.t <= 16)           # admissible: every generator gets a single hex digit
        me = sym('self', attrs={'d': d, 'start_index': start})
        interp = Interp(ctx, source_name=REL)
        env = Env(dict(BUILTIN_ENV))
        env.vars['self'] = me
        r = interp.eval(node.value, env)
        ok = isinstance(r, CompSeq) and r.kind == 'dict'
        if not ok:
            raise OutOfSubset('default-basis naming: bin2canon is not built by one dict comprehension over range(2 ** d) (contract does not apply)')
        ctx.oblige('shape: bin2canon = {key: name for key in range(2 ** d)}', True)
        i = SInt(z3.Int('i'))
        ctx.assume(z3.And(i.t >= 0, i.t < r.src.kvc_len().t))
        cond, (k, name) = r.at(i)
        ctx.oblige('naming: every key 0 <= K < 2**d gets a name', cond is True)
        ctx.oblige('naming: keys are the ints of range(2 ** d)', z3.And(k.t >= 0, k.t < (z3.BitVecVal(1, WB) << d.t)))
        from kvc.models import JoinText
        okn = (isinstance(name, Text) and len(name.parts) == 2 and name.parts[0] == 'e'
               and isinstance(name.parts[1], JoinText) and name.parts[1].sep == '' and isinstance(name.parts[1].xs, CompSeq))
        if not okn:
            # the name is computed some other way (a helper, a loop): this contract reads only the one-comprehension form
            raise OutOfSubset("default-basis naming: the name is not of the form 'e' + ''.join(<comprehension>) (contract does not apply)")
        ctx.oblige("naming: name == 'e' + ''.join(<one digit per selected generator>)", True)
        gen = name.parts[1].xs
        j = SInt(z3.Int('j'))
        ctx.assume(z3.And(j.t >= 0, j.t < gen.src.kvc_len().t))
        c2, ch = gen.at(j)
        ei = gen.src.get(j)
        # the generic generator index visited at position j (ascending order: range(0, d))
        bit_set = (z3.LShR(k.t, ei.t) & 1) == 1
        c2t = c2.t if isinstance(c2, SBool) else z3.BoolVal(bool(c2))
        ctx.oblige('naming: generators are visited in ascending order 0..d-1',
                   z3.And(ei.t >= 0, ei.t < d.t, z3.BV2Int(ei.t) == j.t))
        ctx.oblige('naming: a digit is emitted  <=>  that bit of the key is set', c2t == bit_set)
        okc = isinstance(ch, SChar)
        if not okc:
            raise OutOfSubset('default-basis naming: the digit is not computed as hex(..)[2:] of one generator index (contract does not apply)')
        ctx.oblige('naming: the digit is a single hex character', True)
        if okc:
            ctx.oblige('naming: the digit of generator i is hex(i + start_index)',
                       z3.Implies(bit_set, z3.ZeroExt(WB - CB, ch.c) == ei.t + start.t))
        return r
    H.run_paths(fuc, 'default-basis naming', body)


# =====================================================================================
# cayley, _prepare_signs (eager and lazy), DefaultKeyDict.__missing__
# =====================================================================================
class NameFmt:
    pass


def _name_kvc_format(self, interp, spec):
    if spec:
        raise OutOfSubset('format spec on a blade name')
    return self


NameOf.kvc_format = _name_kvc_format
NameOf.kvc_eq = lambda self, interp, other: isinstance(other, NameOf) and interp.eq(self.K, other.K)


class Canon2BinItems(SymSeq):
    """self.canon2bin.items(): pairs (name of K, K) over all blades (naming contract: canon2bin is the inverse of bin2canon)."""

    def __init__(self, ctx, N):
        n = SInt(z3.Int('n_blades'))
        kf = z3.Function('blade_at', z3.IntSort(), z3.BitVecSort(WB))

        def get(i):
            k = SKey(kf(sint(i).t), 0, (1 << W) - 1)
            ctx.assume(z3.And(k.t >= 0, k.t < N.t))
            return (NameOf(k), k)
        super().__init__(None, n, get, 'items')


class PairDict:
    """dict keyed by pairs, recording stores (for loops that fill a table)."""

    def __init__(self, tag):
        self.tag = tag
        self.stores = []

    def kvc_setitem(self, interp, k, v):
        self.stores.append((k, v))


def _algebra_self(ctx):
    N = SKey.fresh('alg_N', 1, 1 << W)
    ctx.assume(N.range_constraint())
    ctx.assume(N.t & (N.t - 1) == 0)
    d = SKey.fresh('d', 0, W)
    ctx.assume(d.range_constraint())
    from kvc.models import SignsTable
    signs = SignsTable()
    ctx.ghost['N'] = N

    class C2B:
        def items(self):
            return Canon2BinItems(ctx, N)
    from kvc.values import SBool as _SB
    basis = sym('self.basis', truth=_SB(z3.Bool('custom_basis_given')))
    me = sym('self', attrs={'bin2canon': Bin2Canon(), 'canon2bin': C2B(), 'signs': signs, 'd': d, 'basis': basis})
    return me, N, d, signs


def vc_cayley(H):
    """C01: the Cayley table reported by the algebra is the sign table: entry (name I, name J) is '0' when
    signs[I,J] == 0, else ['-'] + name(I ^ J)."""
    fuc = H.fn(REL, 'Algebra.cayley')

    def body(ctx):
        me, N, d, signs = _algebra_self(ctx)
        st = {}

        def establish(interp, env, it):
            c = env.lookup('cayley')
            ctx.oblige('inv-init: the table starts empty', isinstance(c, dict) and not c, 'inv')

        def havoc(interp, env, it, n, at_exit):
            st['tab'] = PairDict('cayley')
            env.vars['cayley'] = st['tab']

        def preserve(interp, env, it, n):
            (eI, I), (eJ, J) = it.get(n)
            tab = env.lookup('cayley')
            ok = tab is st['tab'] and len(tab.stores) == 1
            ctx.oblige('inv-step: exactly one entry is written per pair', bool(ok), 'inv')
            if not ok:
                return
            k, v = tab.stores[0]
            okk = isinstance(k, tuple) and len(k) == 2 and all(isinstance(x, NameOf) for x in k)
            ctx.oblige('inv-step: the entry is keyed by (name(I), name(J))',
                       z3.BoolVal(False) if not okk else z3.And(k[0].K.t == I.t, k[1].K.t == J.t), 'inv')
            s = signs.at(I, J)
            if v == '0':
                ctx.oblige("inv-step: '0' only where signs[I,J] == 0", s.z, 'inv')
            else:
                parts = v.parts if isinstance(v, Text) else [v]
                parts = [p for p in parts if p != '']
                neg = len(parts) == 2 and parts[0] == '-'
                nm = parts[-1]
                okv = isinstance(nm, NameOf) and len(parts) in (1, 2) and (len(parts) == 1 or neg)
                ctx.oblige("inv-step: entry is ['-'] + name of the product blade", bool(okv), 'inv')
                if okv:
                    ctx.oblige('inv-step: product blade is I ^ J', nm.K.t == (I.t ^ J.t), 'inv')
                    ctx.oblige('inv-step: non-zero entry only where signs[I,J] != 0', z3.Not(s.z), 'inv')
                    ctx.oblige("inv-step: '-' prefix  <=>  signs[I,J] == -1", z3.Implies(z3.Not(s.z), s.n == z3.BoolVal(neg)), 'inv')
        spec = LoopSpec(establish, havoc, preserve)
        interp = Interp(ctx, loop_specs={('cayley', 0): spec}, source_name=REL)
        r = H.closure(interp, fuc)(me)
        ctx.oblige('post: returns the filled table', r is st.get('tab'))
        return r
    H.run_paths(fuc, '', body)


def vc_prepare_signs(H):
    """The sign table is _compute_sign for every pair: eagerly stored for d <= 6, computed on first access and
    stored for d > 6 (DefaultKeyDict) -- the same function either way."""
    fuc = H.fn(REL, 'Algebra._prepare_signs')
    from kvc.engine import Closure
    for lazy in (None,):
        def body(ctx, lazy=lazy):
            me, N, d, signs = _algebra_self(ctx)
            # the eager/lazy threshold is a performance choice: either outcome is accepted for every d
            st = {'calls': []}
            made = []

            def hook(interp, f, args, kwargs):
                if isinstance(f, Closure) and f.qualname.endswith('._compute_sign'):
                    st['calls'].append((args, kwargs))
                    return sym('sign-value', attrs={'args': (tuple(args), dict(kwargs))})
                return NotImplemented

            def establish(interp, env, it):
                c = env.lookup('signs')
                ctx.oblige('inv-init: the table starts empty', isinstance(c, dict) and not c, 'inv')

            def havoc(interp, env, it, n, at_exit):
                st['tab'] = PairDict('signs')
                env.vars['signs'] = st['tab']
                st['calls'].clear()

            def preserve(interp, env, it, n):
                (eI, I), (eJ, J) = it.get(n)
                tab = env.lookup('signs')
                ok = tab is st['tab'] and len(tab.stores) == 1 and len(st['calls']) == 1
                ctx.oblige('inv-step: one _compute_sign call and one store per pair', bool(ok), 'inv')
                if not ok:
                    return
                k, v = tab.stores[0]
                args, kw = st['calls'][0]
                okk = isinstance(k, tuple) and len(k) == 2 and all(isinstance(x, SKey) for x in k)
                ctx.oblige('inv-step: stored under the key (I, J)',
                           z3.BoolVal(False) if not okk else z3.And(k[0].t == I.t, k[1].t == J.t), 'inv')
                a = list(args) + [kw[x] for x in ('bin_pair', 'canon_pair') if x in kw]
                oka = (len(a) >= 1 and isinstance(a[0], tuple) and len(a[0]) == 2 and all(isinstance(x, SKey) for x in a[0]))
                ctx.oblige('inv-step: the value is _compute_sign((I, J), ...)',
                           z3.BoolVal(False) if not oka else z3.And(a[0][0].t == I.t, a[0][1].t == J.t, z3.BoolVal(isinstance(v, Rec) and v.attrs.get('args') is not None)), 'inv')
                if oka and len(a) > 1 and a[1] is not None:
                    c = a[1]
                    okc = isinstance(c, tuple) and len(c) == 2 and all(isinstance(x, NameOf) for x in c)
                    ctx.oblige('inv-step: the names passed along are those of I and J (same function as the lazy path)',
                               z3.BoolVal(False) if not okc else z3.And(c[0].K.t == I.t, c[1].K.t == J.t), 'inv')

            class DKD:
                def kvc_call(self, interp, factory):
                    made.append(factory)
                    return ('DefaultKeyDict', factory)
            spec = LoopSpec(establish, havoc, preserve)
            interp = Interp(ctx, loop_specs={('_prepare_signs', 0): spec}, source_name=REL, call_hook=hook)
            r = H.closure(interp, fuc, {'DefaultKeyDict': DKD()})(me)
            ok_lazy = (isinstance(r, tuple) and r[0] == 'DefaultKeyDict' and isinstance(r[1], Closure)
                       and r[1].qualname.endswith('._compute_sign'))
            ok_eager = st.get('tab') is not None and r is st.get('tab')
            ctx.oblige('post: returns the eagerly filled table, or DefaultKeyDict(_compute_sign) whose entries are '
                       'computed by the same function on first access', bool(ok_lazy or ok_eager))
            return r
        H.run_paths(fuc, '', body)
    fuc2 = H.fn(REL, 'DefaultKeyDict.__missing__')

    def body2(ctx):
        fac = sym('factory')
        me = sym('self', attrs={'factory': fac})
        key = sym('key')
        interp = Interp(ctx, source_name=REL)
        r = H.closure(interp, fuc2)(me, key)
        exp = Rec('call', fac, (key,), {})
        stores = [e for e in ctx.events if e[0] == 'setitem']
        ctx.oblige('post: self[key] = factory(key) is stored once and returned',
                   same(r, exp) and len(stores) == 1 and stores[0][1] is me and same(stores[0][2], key) and same(stores[0][3], exp))
        return r
    H.run_paths(fuc2, '', body2)


# =====================================================================================
# _blade2canon / BladeDict.__getitem__ : sign of non-canonical spellings
# =====================================================================================
class GenName:
    """f'e{c}': the name of the vector with generator character c."""

    def __init__(self, c):
        self.c = c


def _schar_format(self, interp, spec):
    return GenName(self)


def vc_blade2canon(H):
    """For a spelling (any order) of distinct generator characters: returns (canonical name of the blade with those
    generators, swaps) where swaps comes from _swap_blades(spelling, '', target=canonical name); a spelling that uses
    a generator outside the algebra returns the out-of-space marker; a canonical name is returned unchanged with 0 swaps."""
    fuc = H.fn(REL, 'Algebra._blade2canon')
    import operator
    import functools
    for n in (1, 2, 3):
        for variant in ('permuted', 'canonical'):
            def body(ctx, n=n, variant=variant):
                N = SKey.fresh('alg_N', 1, 1 << W)
                ctx.assume(N.range_constraint())
                ctx.assume(N.t & (N.t - 1) == 0)
                d = SKey.fresh('d', 0, W)
                ctx.assume(d.range_constraint())
                ctx.assume(N.t == (z3.BitVecVal(1, WB) << d.t))
                chars = _cells('s', n)
                ctx.assume(_distinct(chars))
                bitf = z3.Function('gen_bit', z3.BitVecSort(CB), z3.BitVecSort(WB))   # vec2bin: generator char -> its bit
                known = z3.Function('gen_known', z3.BitVecSort(CB), z3.BoolSort())
                name = Spelling(['e'] + chars)
                name.is_canon = (variant == 'canonical')
                calls = []
                old = SChar.__dict__.get('kvc_format')
                SChar.kvc_format = _schar_format

                class C2B:
                    def kvc_contains(self, interp, item):
                        if item is name:
                            return name.is_canon
                        raise OutOfSubset('canon2bin membership of an unmodelled name')

                    def get(self, key, default=None):
                        if isinstance(key, Text) and len(key.parts) == 2 and key.parts[0] == 'e':
                            key = key.parts[1]
                        if isinstance(key, GenName) and isinstance(key.c, SChar):
                            c = key.c.c
                            bit = SKey(bitf(c), 1, 1 << (W - 1))
                            # naming contract: a known generator maps to a single bit below 2**d; distinct chars -> distinct bits
                            ctx.assume(z3.Implies(known(c), z3.And(bit.t & (bit.t - 1) == 0, bit.t != 0, z3.ULT(bit.t, N.t))))
                            m = merge(known(c), bit, default if isinstance(default, SKey) else SKey.const(default))
                            return m
                        raise OutOfSubset('canon2bin.get of an unmodelled key')

                class B2C:
                    def get(self, key, default=None):
                        if not isinstance(key, SKey):
                            raise OutOfSubset('bin2canon.get of a non-int')
                        if ctx.decide(z3.And(key.t >= 0, key.t < N.t)):
                            return NameOf(key)
                        return default
                me = sym('self', attrs={'canon2bin': C2B(), 'bin2canon': B2C(), 'd': d})

                class SwapStub:
                    def kvc_call(self, interp, *a, **kw):
                        calls.append((a, kw))
                        return (sym('swaps'), 'prod', 'elim')
                from kvc.values import merge
                interp = Interp(ctx, source_name=REL)
                try:
                    r = H.closure(interp, fuc, {'_swap_blades': SwapStub(), 'reduce': functools.reduce, 'operator': operator})(me, name)
                finally:
                    if old is None:
                        del SChar.kvc_format
                    else:
                        SChar.kvc_format = old
                if variant == 'canonical':
                    ctx.oblige('post: a canonical name is returned as is with 0 swaps', isinstance(r, tuple) and r[0] is name and r[1] == 0 and not calls)
                    return r
                allknown = z3.And([known(c.c) for c in chars])
                mask = functools.reduce(lambda a, b: a | b, [bitf(c.c) for c in chars])
                valid = ctx.decide(allknown)
                if valid:
                    ok = (isinstance(r, tuple) and len(r) == 2 and isinstance(r[0], NameOf) and len(calls) == 1
                          and isinstance(r[1], Rec) and r[1].parts[0] == 'swaps')
                    ctx.oblige('post: (canonical name, swaps of _swap_blades)', bool(ok))
                    if ok:
                        ctx.oblige('post: the canonical blade is the one with exactly the spelled generators', r[0].K.t == mask)
                        a, kw = calls[0]
                        tgt = kw.get('target', a[2] if len(a) > 2 else None)
                        # the generator characters only (without the 'e' every name starts with: a generator may itself be named 'e')
                        ok_sp = isinstance(a[0], Spelling) and len(a[0].chars) == len(chars) and all(x is y for x, y in zip(a[0].chars, chars))
                        ok_tg = isinstance(tgt, SpellOf) and tgt.K is r[0].K
                        ctx.oblige("call: _swap_blades(spelling[1:], '', target=canonical name[1:])", ok_sp and a[1] == '' and ok_tg,
                                   meta={'got': repr((a, kw))[:200]})
                else:
                    ok = isinstance(r, tuple) and len(r) == 2 and r[1] == 0 and not calls and not isinstance(r[0], NameOf)
                    ctx.oblige('post: a generator outside the algebra yields the out-of-space marker and 0 swaps', bool(ok))
                return r
            H.run_paths(fuc, f'len={n},{variant}', body)


def vc_blade2canon_concrete(H, d=4, start=1):
    """Bounded (all spellings of all blades of the default-basis algebra with d generators, d=4: 64 spellings): the real
    _blade2canon with the real _swap_blades inlined must return the canonical name and a swap count with the parity of the
    spelling."""
    import itertools
    import operator
    import functools
    fuc = H.fn(REL, 'Algebra._blade2canon')
    names = {K: 'e' + ''.join(format(i + start, 'x') for i in range(d) if K >> i & 1) for K in range(2 ** d)}
    canon2bin = {n: K for K, n in names.items()}

    def body(ctx):
        me = sym('self', attrs={'canon2bin': canon2bin, 'bin2canon': names, 'd': d})
        interp = Interp(ctx, source_name=REL)
        clo = H.closure(interp, fuc, {'reduce': functools.reduce, 'operator': operator})
        bad = []
        n = 0
        for K, nm in names.items():
            for perm in itertools.permutations(nm[1:]):
                sp = 'e' + ''.join(perm)
                inv = sum(1 for i in range(len(perm)) for j in range(i + 1, len(perm)) if perm[i] > perm[j])
                r = clo(me, sp)
                n += 1
                if not (isinstance(r, tuple) and r[0] == nm and isinstance(r[1], int) and r[1] % 2 == inv % 2):
                    bad.append((sp, repr(r)))
        ctx.oblige(f'_blade2canon on all {n} spellings (d={d}): canonical name and swap parity == permutation parity', not bad,
                   meta={'wrong': bad[:5]})
        r = clo(me, 'e9' if start + d <= 9 else 'e1')
        ctx.oblige('_blade2canon: a generator outside the algebra gives the out-of-space marker', r == (f'e{2 ** d}', 0))
    H.run_paths(fuc, f'all-spellings-d={d},start_index={start}', body)


def vc_bladedict_getitem(H):
    """blades[spelling] == (-1)^swaps * blades[canonical name]  (C01: named blade = ordered product; C15 accessors)."""
    fuc = H.fn(REL, 'BladeDict.__getitem__')
    import re as _re

    class ReModel:
        @staticmethod
        def match(pattern, name):
            if pattern != r'^e[0-9a-fA-F]*$':
                raise OutOfSubset('blade-name pattern changed')
            return name.valid
    for valid in (True, False):
        for cached in (True, False):
            for graded in (False, True):
                def body(ctx, valid=valid, cached=cached, graded=graded):
                    swaps = SInt(z3.Int('swaps'))
                    ctx.assume(swaps.t >= 0)
                    canon = sym('canonical-name')
                    name = sym('requested-name')
                    name.valid = valid
                    blade = sym('stored-blade')
                    blades = sym('blades', on_contains=lambda i, me, item: cached and same(item, canon),
                                 on_getitem=lambda i, me, idx: blade,
                                 attrs={'get': sym('blades.get', callable_result=lambda i, m, a, k: blade if (cached and same(a[0], canon))
                                                   else (a[1] if len(a) > 1 else k.get('default')))})
                    BIN = 6                                     # e23 in a 4-generator algebra: grade 2, not in ascending key position
                    made = []
                    alg = sym('algebra', attrs={'graded': graded,
                                                'canon2bin': sym('canon2bin', on_getitem=lambda i, me, idx: BIN if same(idx, canon) else None),
                                                'indices_for_grade': {0: (0,), 1: (1, 2, 4, 8), 2: (3, 5, 9, 6, 10, 12), 3: (7, 11, 13, 14), 4: (15,)},       # canonical (name) order
                                                'multivector': sym('alg.multivector', callable_result=lambda i, m, a, k: made.append(('mv', a, k)) or sym('new-graded-blade')),
                                                '_blade2canon': sym('_blade2canon', callable_result=lambda i, m, a, k: (canon, swaps))})
                    me = sym('self', attrs={'algebra': alg, 'blades': blades})
                    interp = Interp(ctx, source_name=REL)
                    MVc = sym('MultiVector', attrs={'fromkeysvalues': sym('fromkeysvalues', callable_result=lambda i, m, a, k: made.append(('fkv', a, k)) or sym('new-blade'))})
                    try:
                        r = H.closure(interp, fuc, {'re': ReModel, 'MultiVector': MVc})(me, name)
                        raised = None
                    except AttributeError as e:
                        r, raised = None, e
                    if not valid:
                        ctx.oblige('post: a name that is not e<hex digits> raises AttributeError', raised is not None)
                        if raised:
                            ctx.notes.append('expected-raise'); raise raised
                        return r
                    if raised:
                        ctx.oblige('post: valid names do not raise', False)
                        ctx.notes.append('expected-raise'); raise raised
                    stores = [e for e in ctx.events if e[0] == 'setitem']
                    if cached:
                        ctx.oblige('post: an existing blade is not rebuilt', not stores and not made)
                        b = blade
                    else:
                        ok = len(stores) == 1 and stores[0][1] is blades and same(stores[0][2], canon) and len(made) == 1
                        ctx.oblige('post: the blade is built once and stored under its canonical name', bool(ok))
                        if not ok:
                            return r
                        b = stores[0][3]
                        kind, a, k = made[0]
                        if graded:
                            ctx.oblige('post (graded): unit coefficient at the position of the blade within its complete grade',
                                       kind == 'mv' and list(k.get('values') or []) == [0, 0, 0, 1, 0, 0] and k.get('grades') == (2,), meta={'got': repr((a, k))})
                        else:
                            aa = list(a) + [k.get(x) for x in ('keys', 'values') if x in k]
                            ctx.oblige('post: the blade is fromkeysvalues(algebra, (key,), [1])',
                                       kind == 'fkv' and aa[0] is alg and tuple(aa[1]) == (BIN,) and list(aa[2]) == [1], meta={'got': repr((a, k))})
                    odd = ctx.decide(swaps.t % 2 == 1)
                    exp = Rec('unop', 'USub', b) if odd else b
                    if not (r is b or (isinstance(r, Rec) and r.kind == 'unop')):
                        # the result is neither the stored blade nor its negation as far as the models can see (reached through an
                        # accessor the dictionary model does not have, built by a helper, ..): undecided
                        raise OutOfSubset(f'BladeDict.__getitem__: result not recognisable as +- the stored blade: {r!r}'[:200])
                    ctx.oblige('post: blade by any spelling == (-1)^swaps * canonical blade', same(r, exp), meta={'got': repr(r), 'expected': repr(exp)})
                    return r
                H.run_paths(fuc, f'valid={valid},cached={cached},graded={graded}', body)


# =====================================================================================
# custom basis: the `if self.basis:` branch of Algebra.__post_init__
# =====================================================================================
class _CBWorld:
    """Ghost description of an arbitrary user-supplied basis: n names, name i has ln(i) characters ch(i, 0..ln(i)-1); the names
    of length 2 ('e' + one generator character) are, in basis order, the vectors vc(0..nv-1)."""

    def __init__(self, ctx):
        I, C, B = z3.IntSort(), z3.BitVecSort(CB), z3.BitVecSort(WB)
        self.ctx = ctx
        self.n = SInt(z3.Int('n_basis'))
        self.nv = SInt(z3.Int('n_vectors'))
        self.ln = z3.Function('name_len', I, I)
        self.ch = z3.Function('name_char', I, I, C)
        self.vc = z3.Function('vec_char', I, C)
        self.idx = z3.Function('vec_index', I, I)          # basis position of the j-th vector
        self.vno = z3.Function('vec_no', I, I)             # vector number of basis position i (when ln(i) == 2)
        self.pos = z3.Function('gen_pos', C, I)            # vector number of a generator character
        self.pm = z3.Function('prefix_mask', I, I, B)      # ghost: OR of the bits of the first k generator characters of name i
        ctx.assume(z3.And(self.n.t >= 1, self.nv.t >= 0, self.nv.t <= W))

    def bit(self, c):
        """2 ** (vector number of generator character c)"""
        return z3.BitVecVal(1, WB) << z3.Int2BV(self.pos(c), WB)

    # -- preconditions on the input (well-formed basis), instantiated at the terms in use
    def name_facts(self, i):
        self.ctx.assume(z3.And(i >= 0, i < self.n.t, self.ln(i) >= 1))

    def char_facts(self, i, k):
        """W3: every generator character of a name is one of the vector names"""
        c = self.ch(i, k)
        p = self.pos(c)
        self.ctx.assume(z3.And(p >= 0, p < self.nv.t, self.vc(p) == c))

    def vec_facts(self, j):
        """the vectors are the length-2 names in basis order (semantics of a filtering list comprehension) and pairwise
        distinct (W4): pos is the inverse of vc"""
        i = self.idx(j)
        self.ctx.assume(z3.And(j >= 0, j < self.nv.t, i >= 0, i < self.n.t, self.ln(i) == 2, self.ch(i, 1) == self.vc(j),
                               self.vno(i) == j, self.pos(self.vc(j)) == j))

    def vecpos_facts(self, i):
        self.ctx.assume(z3.Implies(self.ln(i) == 2, z3.And(self.vno(i) >= 0, self.vno(i) < self.nv.t, self.idx(self.vno(i)) == i)))


class _BName:
    """basis[i]"""

    def __init__(self, M, i):
        self.M, self.i = M, i

    def kvc_len(self):
        return SInt(self.M.ln(self.i.t))

    def kvc_getitem(self, interp, idx):
        if isinstance(idx, slice) and idx.start == 1 and idx.stop is None and idx.step is None:
            return _BSuffix(self.M, self.i)
        if isinstance(idx, int) and not isinstance(idx, bool) and idx == 0:
            return 'e'                      # asserted by the branch itself before any use
        raise OutOfSubset('use of a basis name other than name[0], name[1:], len(name)')

    def kvc_eq(self, interp, other):
        if isinstance(other, _BName):
            return mkbool(self.i.t == other.i.t) if not z3.eq(self.i.t, other.i.t) else True
        raise OutOfSubset('comparison of a basis name with something else')

    def kvc_isinstance(self, interp, cls):
        classes = cls if isinstance(cls, tuple) else (cls,)
        return any(c is str for c in classes)


from kvc.models import SymSeq as _SymSeq, CompSeq as _CompSeq, sint as _sint      # noqa: E402


class _BSuffix(_SymSeq):
    """basis[i][1:]: the generator characters of name i"""

    def __init__(self, M, i):
        self.M, self.i = M, i

        def get(k):
            M.char_facts(i.t, k.t + 1)
            return SChar(M.ch(i.t, k.t + 1))
        super().__init__(None, SInt(M.ln(i.t) - 1), get, 'str')


def vc_custom_basis(H):
    """C01 / C14 / C15: for ANY user-supplied basis (any number of names, any lengths, any generator characters) that is well
    formed -- every generator character of a name is one of the one-character vector names, vector names pairwise distinct,
    the characters within a name pairwise distinct -- the branch establishes the naming facts the sign chain relies on:
      P1  start_index is the digit of a vector name and at most the digit of every vector name
      P2  canon2bin[basis[i]] == OR of 2**(vector number of c) over the generator characters c of basis[i]; the j-th vector
          (in basis order) has key 2**j; the keys are below 2**(number of vectors)
      P3  bin2canon maps canon2bin[name] back to name and is filled in ascending key order.
    The statements of the branch are executed one by one on the ghost basis; after each, the value it produced is checked for a
    generic index and replaced by its abstract description.  `assert` statements are skipped (they only reject inputs)."""
    import ast
    from kvc.engine import Env, BUILTIN_ENV, Closure
    fuc = H.fn(REL, 'Algebra.__post_init__')
    branch = None
    for n in ast.walk(fuc.ex.node):
        if (isinstance(n, ast.If) and isinstance(n.test, ast.Attribute) and n.test.attr == 'basis'
                and isinstance(n.test.value, ast.Name) and n.test.value.id == 'self'):
            branch = n
            break

    def body(ctx):
        if branch is None:
            raise OutOfSubset('custom-basis branch `if self.basis:` not found in __post_init__')
        M = _CBWorld(ctx)
        bv = lambda t, hi=(1 << W) - 1: SKey(t, 0, hi)
        basis = _SymSeq(None, M.n, lambda i: (M.name_facts(i.t), _BName(M, i))[1], 'list')
        basis.is_basis = True
        done = {}

        class Self:
            def __init__(self):
                self.attrs = {'basis': basis}

            def kvc_getattr(self, interp, name):
                if name in self.attrs:
                    return self.attrs[name]
                raise OutOfSubset(f'custom-basis branch reads self.{name}')

            def kvc_setattr(self, interp, name, v):
                self.attrs[name] = v
        me = Self()

        # ---- models of the builtins the branch applies to sequences of unknown length
        class VecSeq(_SymSeq):
            def __init__(self):
                def get(j):
                    M.vec_facts(j.t)
                    return SChar(M.vc(j.t))
                super().__init__(None, M.nv, get, 'list')
        st = {}

        class ExtremumModel:
            """min / max of the list of vector names: builtin contract = one of the elements (witness) that bounds every element
            (instantiated at the generic vector j used by the P1 obligation)"""

            def __init__(self, lower):
                self.lower = lower

            def kvc_call(self, interp, *a, **k):
                if len(a) == 1 and not k and a[0] is st.get('vecs'):
                    jm = z3.Int(ctx.fresh('j_extremum'))
                    M.vec_facts(jm)
                    c = M.vc(jm)
                    ctx.assume(z3.ULE(c, M.vc(j)) if self.lower else z3.UGE(c, M.vc(j)))
                    return SChar(c)
                raise OutOfSubset('min() / max() of something other than the list of vector names')

        class IntModel:
            def kvc_call(self, interp, x=0, base=10):
                if isinstance(x, SChar) and base == 10:
                    # int() of a letter raises ValueError (input rejected): only decimal digits continue
                    ctx.assume(z3.ULE(x.c, 9))
                    return SKey(z3.ZeroExt(WB - CB, x.c), 0, 9)
                from kvc.engine import _m_int
                return _m_int(interp, x, base)

        class ReduceModel:
            def kvc_call(self, interp, f, it, *init):
                if not (isinstance(it, _CompSeq) and isinstance(it.src, _BSuffix)):
                    from kvc.engine import _m_reduce
                    return _m_reduce(interp, f, it, *init)
                i = it.src.i
                if len(init) != 1:
                    raise OutOfSubset('reduce without an initial value over the generator characters')
                a0 = init[0]
                ctx.oblige('fold-init: the mask of no characters is 0', (a0 == 0) if isinstance(a0, (int, SKey)) else False, 'inv')
                k = z3.Int(ctx.fresh('k'))
                ctx.assume(z3.And(k >= 0, k < M.ln(i.t) - 1))
                cond, el = it.at(SInt(k))
                if cond is not True:
                    raise OutOfSubset('filtered generator inside the fold')
                c = M.ch(i.t, k + 1)
                pmk = bv(M.pm(i.t, k))
                # ghost invariant (lemma L-prefix-disjoint below): the bits collected so far do not contain the next one
                ctx.assume(pmk.t & M.bit(c) == 0)
                r = interp.call(f, [pmk, el], {})
                ctx.oblige('fold-step: acc <op> vec2bin[c] == acc with the bit of generator c added',
                           (r.t == (pmk.t | M.bit(c))) if isinstance(r, SKey) else False, 'inv')
                st.setdefault('folded', []).append(i)
                return bv(M.pm(i.t, M.ln(i.t) - 1))

        class SortedModel:
            def kvc_call(self, interp, it, key=None, reverse=False):
                if it is not st.get('items'):
                    from kvc.engine import _m_sorted
                    return _m_sorted(interp, it, key, reverse)
                sigma = z3.Function('sorted_perm', z3.IntSort(), z3.IntSort())
                st['sigma'] = sigma
                i = z3.Int(ctx.fresh('i'))
                M.name_facts(i)
                el = it.get(SInt(i))
                kv = interp.call(key, [el], {}) if key is not None else None
                ctx.oblige('sorted: the sort key of a (name, key) pair is its key', isinstance(kv, SKey) and z3.eq(kv.t, el[1].t), 'post')
                ctx.oblige('sorted: ascending', reverse is False, 'post')

                def get(m):
                    s_ = sigma(m.t)
                    ctx.assume(z3.And(s_ >= 0, s_ < M.n.t))
                    return it.get(SInt(s_))
                out = _SymSeq(None, M.n, get, 'list')
                out.sorted_of = it
                return out

        class C2B:
            def items(self):
                if 'items' not in st:
                    def get(i):
                        M.name_facts(i.t)
                        return (_BName(M, i), bv(M.pm(i.t, M.ln(i.t) - 1)))
                    st['items'] = _SymSeq(None, M.n, get, 'items')
                return st['items']

        class Vec2Bin:
            def kvc_getitem(self, interp, c):
                if not isinstance(c, SChar):
                    raise OutOfSubset('vec2bin lookup of something other than one generator character')
                p = M.pos(c.c)
                ctx.safety('KeyError: generator character is not a vector name', z3.And(p >= 0, p < M.nv.t, M.vc(p) == c.c))
                return SKey(M.bit(c.c), 1, 1 << (W - 1))

        interp = Interp(ctx, source_name=REL)
        env = Env(dict(BUILTIN_ENV))
        env.vars.update({'self': me, 'min': ExtremumModel(True), 'max': ExtremumModel(False), 'int': IntModel(), 'reduce': ReduceModel(), 'sorted': SortedModel()})
        i = z3.Int('i')
        M.name_facts(i)
        j = z3.Int('j')
        M.vec_facts(j)

        def chk_vecs():
            v = env.lookup('vecs')
            if not (isinstance(v, _CompSeq) and v.kind == 'list' and v.src is basis):
                raise OutOfSubset('vecs is not one list comprehension over self.basis')
            cond, el = v.at(SInt(i))
            ct = cond.t if isinstance(cond, SBool) else z3.BoolVal(bool(cond))
            ctx.oblige('vecs: a name is selected  <=>  it has exactly one generator character', ct == (M.ln(i) == 2))
            ctx.oblige('vecs: the selected element is the generator character (name[1:])', isinstance(el, _BSuffix) and z3.eq(el.i.t, i))
            st['vecs'] = VecSeq()
            env.vars['vecs'] = st['vecs']

        def chk_start():
            v = me.attrs.get('start_index')
            ctx.oblige('P1: start_index is at most the digit of every vector name (it is the smallest one)',
                       z3.ULE(v.t, z3.ZeroExt(WB - CB, M.vc(j))) if isinstance(v, SKey) else False)

        def chk_vec2bin():
            v = env.lookup('vec2bin')
            if not (isinstance(v, _CompSeq) and v.kind == 'dict'):
                raise OutOfSubset('vec2bin is not one dict comprehension')
            cond, (k, val) = v.at(SInt(j))
            ctx.oblige('vec2bin: every vector gets an entry', cond is True)
            ctx.oblige('vec2bin: the entry of the j-th vector (basis order) is keyed by its character', isinstance(k, SChar) and (k.c == M.vc(j)))
            ctx.oblige('vec2bin: the j-th vector gets the key 2**j', (val.t == (z3.BitVecVal(1, WB) << z3.Int2BV(j, WB))) if isinstance(val, SKey) else False)
            env.vars['vec2bin'] = Vec2Bin()

        def chk_canon2bin():
            v = me.attrs.get('canon2bin')
            if not (isinstance(v, _CompSeq) and v.kind == 'dict' and v.src is basis):
                raise OutOfSubset('canon2bin is not one dict comprehension over self.basis')
            cond, (k, val) = v.at(SInt(i))
            ctx.oblige('canon2bin: every name gets an entry', cond is True)
            ctx.oblige('canon2bin: the entry of basis[i] is keyed by that name', isinstance(k, _BName) and z3.eq(k.i.t, i))
            ctx.oblige('P2: canon2bin[basis[i]] == OR of the bits of its generator characters',
                       (val.t == M.pm(i, M.ln(i) - 1)) if isinstance(val, SKey) else False)
            me.attrs['canon2bin'] = C2B()

        def chk_bin2canon():
            v = me.attrs.get('bin2canon')
            srt = getattr(v, 'src', None)
            if not (isinstance(v, _CompSeq) and v.kind == 'dict' and getattr(srt, 'sorted_of', None) is st.get('items')):
                raise OutOfSubset('bin2canon is not one dict comprehension over sorted(self.canon2bin.items(), ...)')
            m = z3.Int('m')
            ctx.assume(z3.And(m >= 0, m < M.n.t))
            cond, (k, val) = v.at(SInt(m))
            s_ = st['sigma'](m)
            ctx.oblige('bin2canon: every pair gets an entry', cond is True)
            ctx.oblige('P3: the m-th entry (ascending key order) maps canon2bin[name] to that name',
                       z3.And(k.t == M.pm(s_, M.ln(s_) - 1), val.i.t == s_) if isinstance(k, SKey) and isinstance(val, _BName) else False)
        handlers = {'vecs': chk_vecs, 'self.start_index': chk_start, 'vec2bin': chk_vec2bin, 'self.canon2bin': chk_canon2bin,
                    'self.bin2canon': chk_bin2canon}
        skipped = 0
        for s_ in branch.body:
            if isinstance(s_, ast.Assert):
                skipped += 1
                continue
            tgt = None
            if isinstance(s_, ast.Assign) and len(s_.targets) == 1:
                t = s_.targets[0]
                tgt = t.id if isinstance(t, ast.Name) else ('self.' + t.attr if isinstance(t, ast.Attribute) and isinstance(t.value, ast.Name) and t.value.id == 'self' else None)
            if tgt not in handlers or tgt in done:
                raise OutOfSubset(f'custom-basis branch: statement at line {getattr(s_, "lineno", "?")} is not one of the five recognised assignments')
            interp.exec_stmt(s_, env, 'Algebra.__post_init__')
            handlers[tgt]()
            done[tgt] = True
        if set(done) != set(handlers):
            raise OutOfSubset(f'custom-basis branch: assignments missing: {sorted(set(handlers) - set(done))}')
        ctx.notes.append(f'{skipped} assert statement(s) skipped (they only reject inputs)')
        # ---- lemmas about the ghost prefix mask (code independent): definition pm(i,0) = 0, pm(i,k+1) = pm(i,k) | bit(ch(i,k+1))
        k, m2 = z3.Int('k'), z3.Int('m2')
        defs = [M.pm(i, 0) == 0, M.pm(i, k + 1) == (M.pm(i, k) | M.bit(M.ch(i, k + 1)))]
        ck, cm = M.ch(i, k + 1), M.ch(i, m2 + 1)
        wf = [k >= 0, m2 > k, m2 < M.ln(i) - 1, ck != cm,                                   # W6: characters within a name are distinct
              M.pos(ck) >= 0, M.pos(ck) < M.nv.t, M.vc(M.pos(ck)) == ck, M.pos(cm) >= 0, M.pos(cm) < M.nv.t, M.vc(M.pos(cm)) == cm]
        H.add_goal('L-prefix-disjoint (base): the empty prefix mask contains no bit', defs, M.pm(i, 0) & M.bit(cm) == 0, kind='lemma')
        H.add_goal('L-prefix-disjoint (step): a later character\'s bit is not in the prefix mask after adding an earlier one',
                   list(ctx.pc) + defs + wf + [M.pm(i, k) & M.bit(cm) == 0], M.pm(i, k + 1) & M.bit(cm) == 0, kind='lemma')
        lim = z3.BitVecVal(1, WB) << z3.Int2BV(M.nv.t, WB)
        H.add_goal('L-mask-range (step): prefix masks stay below 2**(number of vectors)',
                   list(ctx.pc) + defs + wf + [z3.ULT(M.pm(i, k), lim)], z3.ULT(M.pm(i, k + 1), lim), kind='lemma')
        # the j-th vector (basis order) has key 2**j
        iv = M.idx(j)
        H.add_goal('P2 (vectors): canon2bin of the j-th vector name is 2**j',
                   list(ctx.pc) + [M.pm(iv, 0) == 0, M.pm(iv, 1) == (M.pm(iv, 0) | M.bit(M.ch(iv, 1)))],
                   M.pm(iv, M.ln(iv) - 1) == (z3.BitVecVal(1, WB) << z3.Int2BV(j, WB)), kind='lemma')
        # P1 as a statement about the input: the character chosen by min() is one of the vector names (the minimality is the
        # builtin's contract)
        return True
    H.run_paths(fuc, 'custom-basis branch', body)
