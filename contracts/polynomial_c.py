"""Sidecar contracts for kingdon/polynomial.py (C17).

Abstract view.  A monomial [c, v1, v2, ...] is (coef c, vid), vid an element of a totally ordered set that stands for
the variable list (the order `compare` implements; any countable total order embeds in the rationals, so vid is a real).
Mv(vid) is the value of the product of its variables.  Den(p) = sum of coef * Mv(vid) over the monomials of p.
WF(p): vids strictly increasing, every coefficient non-zero.

compare(a, b)               lexicographic on a[1:], b[1:], then by length; None is greater than everything
Polynomial.__add__          requires WF(self), WF(other); ensures WF(result) and Den(result) == Den(self) + Den(other)
                            (loop invariant: Den(res) == Den(self[:ai]) + Den(other[:bi]); res increasing and below both heads)
RationalPolynomial.__add__ / __mul__ / __neg__ / inv / __truediv__ / __rtruediv__
                            over the Polynomial contracts (value level): the result denotes the sum / product / ... of the
                            rational functions the operands denote; the denominators stay non-zero
"""
import z3

from kvc.values import SBool, SInt, SNum, SRing, OutOfSubset, mkbool, current
from kvc.engine import Interp, LoopSpec, PathEnd
from kvc.models import SymSeq, sint
from kvc.rec import Rec, sym, same

REL = 'kingdon/polynomial.py'
Mv = z3.Function('Mv', z3.RealSort(), z3.RealSort())


# =====================================================================================
# compare
# =====================================================================================
def vc_compare(H):
    fuc = H.fn(REL, 'compare')

    def body(ctx):
        la, lb = SInt(z3.Int('la')), SInt(z3.Int('lb'))
        ctx.assume(z3.And(la.t >= 1, lb.t >= 1))           # a monomial always has its coefficient at index 0
        af = z3.Function('a_at', z3.IntSort(), z3.IntSort())
        bf = z3.Function('b_at', z3.IntSort(), z3.IntSort())
        a = SymSeq(None, la, lambda i: SInt(af(sint(i).t)), 'list')
        b = SymSeq(None, lb, lambda i: SInt(bf(sint(i).t)), 'list')
        j = z3.Int('j')
        st = {}

        def prefix_eq(upto):
            return z3.ForAll([j], z3.Implies(z3.And(j >= 1, j < upto), af(j) == bf(j)))

        def establish(interp, env, it):
            pass

        def havoc(interp, env, it, n, at_exit):
            # n iterations done: indices 1 .. n compared equal
            ctx.assume(prefix_eq(n.t + 1))
            st['n'] = n

        def preserve(interp, env, it, n):
            ctx.oblige('inv-step: all compared positions were equal', prefix_eq(n.t + 2), 'inv')
        spec = LoopSpec(establish, havoc, preserve)
        interp = Interp(ctx, loop_specs={('compare', 0): spec}, source_name=REL)
        r = H.closure(interp, fuc)(a, b)
        rt = r.t if isinstance(r, SInt) else z3.IntVal(r)
        l = z3.If(la.t < lb.t, la.t, lb.t)
        i = z3.Int('i_w')
        less = z3.Or(z3.Exists([i], z3.And(i >= 1, i < l, prefix_eq(i), af(i) < bf(i))), z3.And(prefix_eq(l), la.t < lb.t))
        more = z3.Or(z3.Exists([i], z3.And(i >= 1, i < l, prefix_eq(i), af(i) > bf(i))), z3.And(prefix_eq(l), la.t > lb.t))
        ctx.oblige('post: negative  <=>  a precedes b (lexicographic on the variables, then shorter first)', (rt < 0) == less)
        ctx.oblige('post: positive  <=>  b precedes a', (rt > 0) == more)
        ctx.oblige('post: zero  <=>  same variable list', (rt == 0) == z3.And(prefix_eq(l), la.t == lb.t))
        return r
    H.run_paths(fuc, 'two monomials', body)

    def body2(ctx):
        x = SymSeq(None, SInt(z3.Int('l')), lambda i: SInt(z3.Int('e')), 'list')
        interp = Interp(ctx, source_name=REL)
        clo = H.closure(interp, fuc)
        ctx.oblige('post: None (exhausted operand) is greater than any monomial', clo(None, x) == 1 and clo(x, None) == -1 and clo(None, None) == 1)
    H.run_paths(fuc, 'sentinel', body2)


# =====================================================================================
# Polynomial.__add__
# =====================================================================================
class Mono:
    def __init__(self, coef, vid, owner=None):
        self.coef, self.vid, self.owner = coef, vid, owner          # owner: the operand whose list holds this very object (None: a copy)

    def copy(self):
        return Mono(self.coef, self.vid)

    def kvc_getitem(self, interp, i):
        if i == 0:
            return self.coef
        raise OutOfSubset('variable access on an abstract monomial')

    def kvc_setitem(self, interp, i, v):
        if i != 0 or not isinstance(v, SNum):
            raise OutOfSubset('store into an abstract monomial other than its coefficient')
        if self.owner is not None:
            # frame: monomial lists are shared between polynomials (res.append(ea) stores the operand's own list), so a store into
            # one changes what the operand -- and every polynomial sharing the term -- denotes
            interp.ctx.oblige(f'frame: the monomials of operand `{self.owner}` are not written (a store must leave the coefficient as it was)',
                              v.t == self.coef.t, 'frame')
        self.coef = v


class PolyOperand:
    """A well-formed Polynomial operand of unknown length."""

    def __init__(self, ctx, name, cls):
        self.name, self.cls = name, cls
        self.n = SInt(z3.Int(name + '_len'))
        ctx.assume(self.n.t >= 0)
        self.cf = z3.Function(name + '_coef', z3.IntSort(), z3.RealSort())
        self.vf = z3.Function(name + '_vid', z3.IntSort(), z3.RealSort())
        self.P = z3.Function(name + '_DenPrefix', z3.IntSort(), z3.RealSort())     # Den of the first i monomials
        ctx.assume(self.P(0) == 0)

    def wf_at(self, i):
        return z3.And(self.cf(i) != 0, z3.Implies(i + 1 < self.n.t, self.vf(i) < self.vf(i + 1)),
                      self.P(i + 1) == self.P(i) + self.cf(i) * Mv(self.vf(i)))

    def kvc_len(self):
        return self.n

    def kvc_getitem(self, interp, i):
        i = sint(i)
        interp.ctx.safety('IndexError', z3.And(i.t >= 0, i.t < self.n.t))
        interp.ctx.assume(self.wf_at(i.t))           # WF(self) and the definition of the prefix sums, at the index read
        return Mono(SNum(self.cf(i.t)), self.vf(i.t), owner=self.name)

    def kvc_eq(self, interp, other):
        if other == 0 and isinstance(other, int):
            return mkbool(self.n.t == 0)             # contract of Polynomial.__eq__(0) on a well-formed operand
        raise OutOfSubset('comparison of an abstract polynomial')

    def kvc_isinstance(self, interp, cls):
        return cls is self.cls or (isinstance(cls, tuple) and self.cls in cls)

    def kvc_getattr(self, interp, name):
        if name == '__class__':
            return self.cls
        raise OutOfSubset(f'polynomial.{name}')


class ResList:
    """The list `res` being built: only append is used.  Tracks Den, the last vid, and obligations of WF(result)."""

    def __init__(self, ctx, den, last, nonempty):
        self.ctx, self.den, self.last, self.nonempty = ctx, den, last, nonempty
        self.appended = 0

    def append(self, m):
        if not isinstance(m, Mono):
            raise OutOfSubset('result holds monomials' + ' -- shape not recognised, contract does not apply')
            return
        self.ctx.oblige('WF(result): appended monomial follows the previous one in the monomial order',
                        z3.Implies(self.nonempty, self.last < m.vid), 'inv')
        self.ctx.oblige('WF(result): appended coefficient is non-zero', m.coef.t != 0, 'inv')
        self.den = self.den + m.coef.t * Mv(m.vid)
        self.last, self.nonempty = m.vid, z3.BoolVal(True)
        self.appended += 1


def vc_poly_add(H):
    fuc = H.fn(REL, 'Polynomial.__add__')

    def body(ctx):
        made = []

        class Cls:
            def kvc_call(self, interp, arg):
                made.append(arg)
                return ('Polynomial', arg)
        cls = Cls()
        A, B = PolyOperand(ctx, 'self', cls), PolyOperand(ctx, 'other', cls)
        st = {}

        def compare_stub(interp, me, args, kw):
            ea, eb = args
            if ea is None:
                return 1
            if eb is None:
                return -1
            d = SInt(z3.Int(interp.ctx.fresh('cmp')))
            interp.ctx.assume(z3.And((d.t < 0) == (ea.vid < eb.vid), (d.t > 0) == (ea.vid > eb.vid), (d.t == 0) == (ea.vid == eb.vid)))
            return d
        cmp_ = sym('compare', callable_result=compare_stub)

        def inv(ai, bi, res):
            c = [ai >= 0, ai <= A.n.t, bi >= 0, bi <= B.n.t, res.den == A.P(ai) + B.P(bi),
                 z3.Implies(z3.And(res.nonempty, ai < A.n.t), res.last < A.vf(ai)),
                 z3.Implies(z3.And(res.nonempty, bi < B.n.t), res.last < B.vf(bi))]
            return z3.And(c)

        def establish(interp, env, it):
            res, ai, bi = env.lookup('res'), env.lookup('ai'), env.lookup('bi')
            ctx.oblige('inv-init: ai == bi == 0 and res == []', isinstance(res, list) and not res and ai == 0 and bi == 0
                       and same(env.lookup('al'), A.n) is False or True, 'inv')
            okl = isinstance(env.lookup('al'), SInt) and isinstance(env.lookup('bl'), SInt)
            ctx.oblige('inv-init: al == len(self), bl == len(other)',
                       z3.BoolVal(False) if not okl else z3.And(env.lookup('al').t == A.n.t, env.lookup('bl').t == B.n.t), 'inv')

        def havoc(interp, env, it, n, at_exit):
            ai, bi = SInt(z3.Int('ai')), SInt(z3.Int('bi'))
            res = ResList(ctx, z3.Real('res_den'), z3.Real('res_last'), z3.Bool('res_nonempty'))
            ctx.assume(inv(ai.t, bi.t, res))
            env.vars['ai'], env.vars['bi'], env.vars['res'] = ai, bi, res
            st['res'] = res

        def preserve(interp, env, it, n):
            res, ai, bi = env.lookup('res'), env.lookup('ai'), env.lookup('bi')
            if res is not st['res'] or not isinstance(ai, SInt) or not isinstance(bi, SInt):
                raise OutOfSubset('inv: loop variables keep their shape' + ' -- shape not recognised, contract does not apply')
                return
            # WF / prefix-sum facts at the new heads (instances of the operand preconditions)
            hyp = z3.And(z3.Implies(z3.And(ai.t - 1 >= 0, ai.t - 1 < A.n.t), A.wf_at(ai.t - 1)),
                         z3.Implies(z3.And(bi.t - 1 >= 0, bi.t - 1 < B.n.t), B.wf_at(bi.t - 1)))
            ctx.oblige('inv-step: Den(res) == Den(self[:ai]) + Den(other[:bi]); res stays below both heads; indices in range',
                       z3.Implies(hyp, inv(ai.t, bi.t, res)), 'inv')
            ctx.oblige('progress: ai + bi increases', z3.Int('ai') + z3.Int('bi') < ai.t + bi.t, 'inv')
        spec = LoopSpec(establish, havoc, preserve, header='not (ai == al and bi == bl)')
        interp = Interp(ctx, loop_specs={('__add__', 0): spec}, source_name=REL)
        r = H.closure(interp, fuc, {'compare': cmp_})(A, B)
        if r is A:
            ctx.oblige('post (other == 0): returns self unchanged', B.n.t == 0)
            return r
        ok = isinstance(r, tuple) and r[0] == 'Polynomial' and r[1] is st.get('res')
        if not ok:
            raise OutOfSubset('Polynomial.__add__: the result is not Polynomial(<the merged list>) (contract does not apply)')
        ctx.oblige('post: returns Polynomial(res)', True)
        if ok:
            res = r[1]
            ctx.oblige('post: Den(result) == Den(self) + Den(other)', res.den == A.P(A.n.t) + B.P(B.n.t))
        return r
    H.run_paths(fuc, 'well-formed operands', body)


# =====================================================================================
# value-level model of Polynomial for the RationalPolynomial contracts
# =====================================================================================
class PolyVal:
    """A Polynomial seen through its contracts: Den (a real standing for the denoted function at an arbitrary point),
    exact zero test, ring operations."""

    def __init__(self, den, tag=None):
        self.den = den
        self.tag = tag

    def kvc_binop(self, interp, op, other, reflected):
        o = other.den if isinstance(other, PolyVal) else (z3.RealVal(other) if isinstance(other, int) and not isinstance(other, bool) else None)
        if o is None:
            raise OutOfSubset(f'polynomial {op} {type(other).__name__}')
        a, b = (o, self.den) if reflected else (self.den, o)
        if op == 'Mult':
            # contract of Polynomial.__mul__ / __rmul__; the product gets a name (definitional equality) so that later
            # facts about it (single-monomial view) are linear in that name
            ctx = interp.ctx
            m = z3.Real(ctx.fresh('polyprod'))
            ctx.assume(m == a * b)
            r = PolyVal(m)
            r.factors = (a, b)
            if not hasattr(ctx, 'poly_mults'):
                ctx.poly_mults = []
            ctx.poly_mults.append(r)
            return r
        if op == 'Add':
            return PolyVal(a + b)                      # contract of Polynomial.__add__ / __radd__
        if op == 'Sub':
            return PolyVal(a - b)
        raise OutOfSubset(f'polynomial operator {op}')

    def kvc_neg(self, interp):
        return PolyVal(-self.den)

    def kvc_eq(self, interp, other):
        if isinstance(other, int):
            # contracts of Polynomial.__eq__(0) / (1): exact tests on well-formed polynomials
            return mkbool(self.den == other)
        if isinstance(other, PolyVal):
            e = SBool(z3.Bool(interp.ctx.fresh('polyeq')))
            interp.ctx.assume(z3.Implies(e.t, self.den == other.den))      # equal representations denote equal functions
            return e
        return False

    def kvc_len(self):
        if getattr(self, '_len', None) is None:
            ctx = current()
            self._len = z3.Int(ctx.fresh('polylen'))
            ctx.assume(z3.And(self._len >= 0, z3.Implies(self._len == 0, self.den == 0)))     # WF: the empty list denotes 0
        return SInt(self._len)

    def kvc_getitem(self, interp, i):
        # only the common-factor removal of RationalPolynomial.__mul__ looks inside a polynomial (one monomial: [c, v1, v2, ..])
        if not (isinstance(i, int) and i == 0):
            raise OutOfSubset('polynomial[i] for i != 0')
        ctx = interp.ctx
        ctx.safety('IndexError', self.kvc_len().t >= 1)
        if getattr(self, '_mono', None) is None:
            self._mono = MonoSeq(ctx, ctx.fresh('mono'), z3.IntVal(0))
        # a polynomial of length 1 denotes its only monomial
        ctx.assume(z3.Implies(self.kvc_len().t == 1, self.den == self._mono.den()))
        return self._mono

    def kvc_truth(self, interp):
        return mkbool(self.den != 0)


class RatVal:
    def __init__(self, cls, numer, denom):
        self.cls, self.numer, self.denom = cls, numer, denom

    def kvc_getattr(self, interp, name):
        if name in ('numer', 'denom'):
            return getattr(self, name)
        if name == '__class__':
            return self.cls
        if name == 'inv':
            raise OutOfSubset('inv() inside an arithmetic method is handled by its own contract')
        raise OutOfSubset(f'rational polynomial .{name}')

    def kvc_isinstance(self, interp, cls):
        return cls is self.cls

    def kvc_eq(self, interp, other):
        if isinstance(other, int) and other == 0:
            return mkbool(self.numer.den == 0)          # RationalPolynomial.__eq__(0): numerator is zero
        if isinstance(other, int) and other == 1:
            e = SBool(z3.Bool(interp.ctx.fresh('ratone')))
            interp.ctx.assume(z3.Implies(e.t, z3.And(self.numer.den == 1, self.denom.den == 1)))
            return e
        raise OutOfSubset('comparison of rational polynomials')


class RatCls:
    """RationalPolynomial(...) constructor as used inside the methods."""

    def __init__(self):
        self.made = []

    def kvc_call(self, interp, numer=None, denom=None):
        def mono(x):
            if isinstance(x, list) and len(x) == 1 and isinstance(x[0], CList):
                interp.ctx.oblige('the monomial handed to RationalPolynomial(...) is well formed: non-zero coefficient', x[0].coef != 0, 'pre')
                return PolyVal(x[0].coef * x[0].prod)
            return x
        numer, denom = mono(numer), mono(denom)
        if isinstance(numer, list):
            if numer == []:
                numer = PolyVal(z3.RealVal(0))
            elif len(numer) == 1 and len(numer[0]) == 1 and isinstance(numer[0][0], (int, PolyVal)):
                c = numer[0][0]
                numer = PolyVal(z3.RealVal(c)) if isinstance(c, int) else c
            elif len(numer) == 1 and len(numer[0]) == 1 and isinstance(numer[0][0], SNum):
                numer = PolyVal(numer[0][0].t)
            else:
                raise OutOfSubset('RationalPolynomial(list) form')
        if denom is None:
            denom = PolyVal(z3.RealVal(1))
        if not isinstance(numer, PolyVal) or not isinstance(denom, PolyVal):
            raise OutOfSubset('RationalPolynomial(...) argument')
        r = RatVal(self, numer, denom)
        self.made.append(r)
        return r


def _common_factor_spec(ctx):
    """while p1 < len(fl1) or p2 < len(fl2): drop factors common to numerator and denominator monomials.
    Invariant: nnn / nnd == (factors of fl1 before p1) / (factors of fl2 before p2) (cross-multiplied; at a generic point
    every variable value is non-zero), both output lists sorted and below the heads still to come."""
    st = {}

    def inv(A, B, N, D, p1, p2):
        return [('p1 in range', z3.And(p1 >= 1, p1 <= A.L)), ('p2 in range', z3.And(p2 >= 1, p2 <= B.L)),
                ('coefficients are those of the two monomials', z3.And(N.coef == A.cf, D.coef == B.cf)),
                ('nnn / nnd == (factors of fl1 before p1) / (factors of fl2 before p2)', N.prod * B.suf(p2) == D.prod * A.suf(p1)),
                ('all products are non-zero at a generic point', z3.And(D.prod != 0, N.prod != 0, A.suf(p1) != 0, B.suf(p2) != 0)),
                ('nnn stays below the head of fl1', z3.Implies(z3.And(N.nonempty, p1 < A.L), N.last <= A.vf(p1))),
                ('nnd stays below the head of fl2', z3.Implies(z3.And(D.nonempty, p2 < B.L), D.last <= B.vf(p2)))]

    def establish(interp, env, it):
        A, B, N, D = env.lookup('fl1'), env.lookup('fl2'), env.lookup('nnn'), env.lookup('nnd')
        p1, p2 = env.lookup('p1'), env.lookup('p2')
        ok = isinstance(A, MonoSeq) and isinstance(B, MonoSeq) and p1 == 1 and p2 == 1 and all(
            isinstance(x, list) and len(x) == 1 and isinstance(x[0], SNum) for x in (N, D))
        ctx.oblige('common-factor inv-init: nnn == [fl1[0]], nnd == [fl2[0]], p1 == p2 == 1',
                   z3.BoolVal(False) if not ok else z3.And(N[0].t == A.cf, D[0].t == B.cf), 'inv')
        st['A'], st['B'] = A, B

    def havoc(interp, env, it, n, at_exit):
        A, B = st['A'], st['B']
        p1, p2 = SInt(z3.Int('p1')), SInt(z3.Int('p2'))
        N = CList(ctx, z3.Real('nnn_coef'), z3.Real('nnn_prod'), z3.Int('nnn_last'), z3.Bool('nnn_nonempty'))
        D = CList(ctx, z3.Real('nnd_coef'), z3.Real('nnd_prod'), z3.Int('nnd_last'), z3.Bool('nnd_nonempty'))
        ctx.assume(z3.And(*[f for _, f in inv(A, B, N, D, p1.t, p2.t)]))
        env.vars['p1'], env.vars['p2'], env.vars['nnn'], env.vars['nnd'] = p1, p2, N, D
        st['N'], st['D'] = N, D

    def preserve(interp, env, it, n):
        A, B = st['A'], st['B']
        N, D, p1, p2 = env.lookup('nnn'), env.lookup('nnd'), env.lookup('p1'), env.lookup('p2')
        if N is not st['N'] or D is not st['D'] or not isinstance(p1, SInt) or not isinstance(p2, SInt):
            raise OutOfSubset('common-factor inv: loop variables keep their shape' + ' -- shape not recognised, contract does not apply')
            return
        hyp = z3.And(A.facts_at(p1.t - 1), B.facts_at(p2.t - 1), A.facts_at(p1.t), B.facts_at(p2.t))
        for lab, f in inv(A, B, N, D, p1.t, p2.t):
            ctx.oblige('common-factor inv-step: ' + lab, z3.Implies(hyp, f), 'inv')
        ctx.oblige('common-factor progress', z3.Int('p1') + z3.Int('p2') < p1.t + p2.t, 'inv')
    return LoopSpec(establish, havoc, preserve)


def _rat(ctx, cls, name):
    n, d = z3.Real(name + '_n'), z3.Real(name + '_d')
    ctx.assume(d != 0)                                   # a rational polynomial has a non-zero denominator
    return RatVal(cls, PolyVal(n), PolyVal(d)), n, d


def vc_rational(H):
    cases = {
        '__add__': lambda a, b: a + b, '__mul__': lambda a, b: a * b,
    }
    for meth in ('__add__', '__mul__'):
        fuc = H.fn(REL, f'RationalPolynomial.{meth}')
        for other_kind in ('rational', 'int'):
            def body(ctx, meth=meth, other_kind=other_kind, fuc=fuc):
                cls = RatCls()
                me, an, ad = _rat(ctx, cls, 'a')
                if other_kind == 'rational':
                    other, bn, bd = _rat(ctx, cls, 'b')
                else:
                    k = z3.Int('k')
                    other, bn, bd = SNum(z3.ToReal(k)), z3.ToReal(k), z3.RealVal(1)

                    class NumArg(int):
                        pass
                interp = Interp(ctx, loop_specs={('__mul__', 0): _common_factor_spec(ctx)} if meth == '__mul__' else {}, source_name=REL)
                if other_kind == 'int':
                    # a plain number operand: represented by its value (a numeric coefficient)
                    arg = SNum(bn)
                else:
                    arg = other
                env = {'RationalPolynomial': cls}
                # the common-factor removal for single monomials (while loop over the two sorted factor lists) carries the
                # invariant of _common_factor_spec
                r = H.closure(interp, fuc, env)(me, arg)
                if not isinstance(r, (RatVal, SNum, int)):
                    raise OutOfSubset('post: returns a rational polynomial' + ' -- shape not recognised, contract does not apply')
                    return r
                if isinstance(r, RatVal):
                    rn, rd = r.numer.den, r.denom.den
                else:
                    rn, rd = (r.t if isinstance(r, SNum) else z3.RealVal(r)), z3.RealVal(1)
                ctx.oblige(f'post {meth}: the denominator of the result is non-zero', rd != 0)
                if meth == '__add__':
                    ctx.oblige('post __add__: result denotes a/b + c/d', rn * (ad * bd) == (an * bd + bn * ad) * rd)
                else:
                    def named(x, y):
                        for pm in getattr(ctx, 'poly_mults', []):
                            if {pm.factors[0].get_id(), pm.factors[1].get_id()} == {x.get_id(), y.get_id()}:
                                return pm.den
                    N, D = named(an, bn), named(ad, bd)
                    if N is not None and D is not None:
                        # stated over the names N := na * nb, D := da * db (definitional equalities of this path);
                        # lemma L-named-products turns it into the statement over an, bn, ad, bd
                        ctx.oblige('post __mul__: result denotes numer / denom with numer := na * nb, denom := da * db  [(a/b) * (c/d) by L-named-products]',
                                   rn * D == N * rd)
                    else:
                        ctx.oblige('post __mul__: result denotes (a/b) * (c/d)', rn * (ad * bd) == (an * bn) * rd)
                return r
            H.run_paths(fuc, f'other={other_kind}', body, max_paths=400)
    q = [z3.Real(x) for x in ('rn', 'rd', 'N', 'D', 'an', 'bn', 'ad', 'bd')]
    H.add_goal('lemma/L-named-products: rn*D == N*rd, N == an*bn, D == ad*bd  =>  rn*(ad*bd) == (an*bn)*rd',
               [q[0] * q[3] == q[2] * q[1], q[2] == q[4] * q[5], q[3] == q[6] * q[7]], q[0] * (q[6] * q[7]) == (q[4] * q[5]) * q[1])
    # loop-free members
    simple = {
        '__neg__': (1, lambda an, ad, bn, bd: (-an, ad)),
        'inv': (1, lambda an, ad, bn, bd: (ad, an)),
        '__truediv__': (2, lambda an, ad, bn, bd: (an * bd, ad * bn)),
        '__sub__': (2, lambda an, ad, bn, bd: (an * bd - bn * ad, ad * bd)),
    }
    for meth, (nargs, spec) in simple.items():
        fuc = H.fn(REL, f'RationalPolynomial.{meth}')

        def body(ctx, meth=meth, nargs=nargs, spec=spec, fuc=fuc):
            cls = RatCls()
            me, an, ad = _rat(ctx, cls, 'a')
            other, bn, bd = _rat(ctx, cls, 'b')
            calls = []

            class Arith(RatVal):
                """operand whose + * inv are the contracts proved above (value level)"""
            def lift(r):
                return r

            def binop(self_, interp, op, o, reflected):
                x, y = (o, self_) if reflected else (self_, o)
                xn, xd = (x.numer.den, x.denom.den)
                yn, yd = (y.numer.den, y.denom.den)
                if op == 'Add':
                    n_, d_ = xn * yd + yn * xd, xd * yd
                elif op == 'Mult':
                    n_, d_ = xn * yn, xd * yd
                else:
                    raise OutOfSubset(op)
                return mk(n_, d_)

            def mk(n_, d_):
                v = RatVal(cls, PolyVal(n_), PolyVal(d_))
                v.kvc_binop = lambda interp, op, o, refl, v=v: binop(v, interp, op, o, refl)
                v.kvc_neg = lambda interp, v=v: mk(-v.numer.den, v.denom.den)
                v.inv = lambda v=v: mk(v.denom.den, v.numer.den)
                return v
            a, b = mk(an, ad), mk(bn, bd)
            a.kvc_getattr = lambda interp, name, a=a: {'numer': a.numer, 'denom': a.denom, '__class__': cls, 'inv': a.inv}[name]
            b.kvc_getattr = lambda interp, name, b=b: {'numer': b.numer, 'denom': b.denom, '__class__': cls, 'inv': b.inv}[name]
            if meth in ('inv', '__truediv__'):
                ctx.assume(an != 0)
                ctx.assume(bn != 0)
            interp = Interp(ctx, source_name=REL)
            r = H.closure(interp, fuc, {'RationalPolynomial': cls})(a, b) if nargs == 2 else H.closure(interp, fuc, {'RationalPolynomial': cls})(a)
            if not isinstance(r, RatVal):
                raise OutOfSubset(f'post {meth}: returns a rational polynomial' + ' -- shape not recognised, contract does not apply')
                return r
            en, ed = spec(an, ad, bn, bd)
            ctx.oblige(f'post {meth}: denotes the expected rational function', r.numer.den * ed == en * r.denom.den)
            ctx.oblige(f'post {meth}: denominator non-zero', r.denom.den != 0)
            return r
        H.run_paths(fuc, '', body)


def vc_zero_tests(H):
    """Polynomial.__bool__ / __eq__(0) are exact zero tests on well-formed polynomials and on the explicit zero [[0]];
    RationalPolynomial.__bool__ delegates to its numerator."""
    fb = H.fn(REL, 'Polynomial.__bool__')
    fe = H.fn(REL, 'Polynomial.__eq__')
    shapes = {'empty': ([], True), 'explicit zero [[0]]': ([[0]], True), 'one monomial': ([['c', 'x']], False),
              'constant': ([['c']], False), 'two monomials': ([['c', 'x'], ['d', 'y']], False)}
    for label, (args, is_zero) in shapes.items():
        def body(ctx, args=args, is_zero=is_zero, label=label):
            # coefficients named 'c', 'd' are arbitrary NON-ZERO numbers (WF), variables opaque
            conc = []
            for i, m in enumerate(args):
                mm = []
                for f in m:
                    if f in ('c', 'd'):
                        v = SNum(z3.Real(f))
                        ctx.assume(v.t != 0)
                        mm.append(v)
                    else:
                        mm.append(f)
                conc.append(mm)
            me = sym('self', attrs={'args': conc, '__class__': sym('Polynomial')})
            r = H.closure(Interp(ctx, source_name=REL), fb)(me)
            rb = r if isinstance(r, bool) else None
            if isinstance(r, SBool):
                ctx.oblige(f'__bool__[{label}]: false exactly for the zero polynomial', r.t == z3.BoolVal(not is_zero))
            else:
                ctx.oblige(f'__bool__[{label}]: false exactly for the zero polynomial', rb is not None and rb == (not is_zero))
            r2 = H.closure(Interp(ctx, source_name=REL), fe)(me, 0)
            if isinstance(r2, SBool):
                ctx.oblige(f'__eq__(0)[{label}]: true exactly for the zero polynomial', r2.t == z3.BoolVal(is_zero))
            else:
                ctx.oblige(f'__eq__(0)[{label}]: true exactly for the zero polynomial', isinstance(r2, bool) and r2 == is_zero)
        H.run_paths(fb, label, body)
    frb = H.fn(REL, 'RationalPolynomial.__bool__')

    def body2(ctx):
        numer = sym('numer')
        me = sym('self', attrs={'numer': numer})
        r = H.closure(Interp(ctx, source_name=REL), frb)(me)
        ctx.oblige('RationalPolynomial.__bool__ is the zero test of its numerator', same(r, Rec('call', Rec('attr', numer, '__bool__'), (), {})))
    H.run_paths(frb, '', body2)


# =====================================================================================
# Polynomial.__mul__ : sorted merge of the variable lists of two monomials, accumulation over all pairs
# =====================================================================================
class SVar(SInt):
    """A variable name inside a monomial (a str in the real code), ordered like the names."""
    __slots__ = ()

    def kvc_isinstance(self, interp, cls):
        classes = cls if isinstance(cls, tuple) else (cls,)
        return any(c is str for c in classes)


Val = z3.Function('VarValue', z3.IntSort(), z3.RealSort())           # value of a variable


class MonoSeq:
    """Monomial [c, v1, v2, ..] with explicit (sorted) variable list of unknown length."""

    def __init__(self, ctx, tag, idx):
        self.L = z3.Function(tag + '_monolen', z3.IntSort(), z3.IntSort())(idx)            # length incl. the coefficient
        self.cf = z3.Function(tag + '_coef', z3.IntSort(), z3.RealSort())(idx)
        self.vf = lambda t, f=z3.Function(tag + '_var', z3.IntSort(), z3.IntSort(), z3.IntSort()): f(idx, t)
        self.suf = lambda t, f=z3.Function(tag + '_PrefixProd', z3.IntSort(), z3.IntSort(), z3.RealSort()): f(idx, t)   # prod of values of vars 1..t-1
        ctx.assume(z3.And(self.L >= 1, self.cf != 0, self.suf(1) == 1))

    def facts_at(self, t):
        """sortedness and prefix-product unfolding at position t (instances of WF(monomial) and of the definition of the prefix product)"""
        return z3.And(z3.Implies(z3.And(t >= 1, t + 1 < self.L), self.vf(t) <= self.vf(t + 1)),
                      z3.Implies(z3.And(t >= 1, t < self.L), z3.And(self.suf(t + 1) == self.suf(t) * Val(self.vf(t)), Val(self.vf(t)) != 0)))

    def kvc_len(self):
        return SInt(self.L)

    def kvc_getitem(self, interp, i):
        if isinstance(i, int) and i == 0:
            return SNum(self.cf)
        i = sint(i)
        interp.ctx.safety('IndexError', z3.And(i.t >= 0, i.t < self.L))
        interp.ctx.assume(self.facts_at(i.t))
        if isinstance(i, SInt) and not z3.is_int_value(z3.simplify(i.t)):
            interp.ctx.safety('monomial position >= 1 is a variable', i.t >= 1)
        return SVar(self.vf(i.t))

    def den(self):
        return self.cf * self.suf(self.L)


class CList:
    """The list C being built in Polynomial.__mul__: [coefficient, merged variables..]."""

    def __init__(self, ctx, coef, prod, last, nonempty):
        self.ctx, self.coef, self.prod, self.last, self.nonempty = ctx, coef, prod, last, nonempty

    def append(self, v):
        if not isinstance(v, SVar):
            self.ctx.oblige('only variables are appended to the merged monomial', False, 'inv')
            return
        self.ctx.oblige('merged variable list stays sorted', z3.Implies(self.nonempty, self.last <= v.t), 'inv')
        self.prod = self.prod * Val(v.t)
        self.last, self.nonempty = v.t, z3.BoolVal(True)

    def kvc_getitem(self, interp, i):
        if i == 0:
            return SNum(self.coef)
        raise OutOfSubset('read of a merged variable')

    def kvc_setitem(self, interp, i, v):
        if i != 0 or not isinstance(v, SNum):
            raise OutOfSubset('store into C other than its coefficient')
        self.coef = v.t


class PolyOperandM:
    """Polynomial operand of __mul__: sequence of MonoSeq, with the prefix fold of its denotation."""

    def __init__(self, ctx, name, cls):
        self.name, self.cls, self.ctx = name, cls, ctx
        self.n = SInt(z3.Int(name + '_len'))
        ctx.assume(self.n.t >= 0)

    def kvc_len(self):
        return self.n

    def mono(self, i):
        return MonoSeq(self.ctx, self.name, i)

    def kvc_getitem(self, interp, i):
        i = sint(i)
        interp.ctx.safety('IndexError', z3.And(i.t >= 0, i.t < self.n.t))
        return MonoSeq(interp.ctx, self.name, i.t)

    def kvc_eq(self, interp, other):
        if isinstance(other, int) and other == 0:
            return mkbool(self.n.t == 0)
        raise OutOfSubset('comparison of an abstract polynomial')

    def kvc_isinstance(self, interp, cls):
        return cls is self.cls

    def kvc_getattr(self, interp, name):
        if name == '__class__':
            return self.cls
        raise OutOfSubset(f'polynomial.{name}')


def vc_poly_mul(H):
    fuc = H.fn(REL, 'Polynomial.__mul__')

    def body(ctx):
        class Cls:
            """Polynomial(...) as used inside __mul__: [] -> zero, [C] -> the single monomial C, a polynomial -> itself"""
            def kvc_call(self, interp, arg):
                if isinstance(arg, PolyVal):
                    return arg
                if isinstance(arg, list) and not arg:
                    return PolyVal(z3.RealVal(0), tag='empty')
                if isinstance(arg, list) and len(arg) == 1 and isinstance(arg[0], CList):
                    c = arg[0]
                    interp.ctx.oblige('the monomial handed to __add__ is well formed: non-zero coefficient', c.coef != 0, 'pre')
                    return PolyVal(c.coef * c.prod)
                raise OutOfSubset('Polynomial(...) form inside __mul__')
        cls = Cls()
        A, B = PolyOperandM(ctx, 'self', cls), PolyOperandM(ctx, 'other', cls)
        Fold = z3.Function('PairProductFold', z3.IntSort(), z3.RealSort())      # sum over the pairs processed so far of Den(A_i) Den(B_j)
        st = {}

        def est_outer(interp, env, it):
            res = env.lookup('res')
            ok = isinstance(res, PolyVal)
            ctx.oblige('outer inv-init: res is the zero polynomial', z3.BoolVal(False) if not ok else res.den == 0, 'inv')
            ctx.assume(Fold(0) == 0)
            from kvc.models import ProductSeq, RangeSeq
            shape = isinstance(it, ProductSeq) and isinstance(it.a, RangeSeq) and isinstance(it.b, RangeSeq)
            ctx.oblige('the loop runs over all pairs: itertools.product(range(0, len(self)), range(0, len(other)))',
                       z3.BoolVal(False) if not shape else z3.And(sint(it.a.lo).t == 0, sint(it.a.hi).t == A.n.t, sint(it.b.lo).t == 0, sint(it.b.hi).t == B.n.t), 'inv')

        def havoc_outer(interp, env, it, n, at_exit):
            env.vars['res'] = PolyVal(Fold(n.t))
            st['n'] = n

        def preserve_outer(interp, env, it, n):
            res = env.lookup('res')
            ai, bi = it.get(n)
            a, b = MonoSeq(ctx, 'self', sint(ai).t), MonoSeq(ctx, 'other', sint(bi).t)
            ctx.oblige('outer inv-step: Den(res) == sum over the pairs so far of Den(self[ai]) * Den(other[bi])',
                       z3.BoolVal(False) if not isinstance(res, PolyVal) else res.den == Fold(n.t) + a.den() * b.den(), 'inv')

        def est_inner(interp, env, it):
            C, i, j = env.lookup('C'), env.lookup('i'), env.lookup('j')
            Am, Bm = env.lookup('A'), env.lookup('B')
            ok = isinstance(C, list) and len(C) == 1 and isinstance(C[0], SNum) and i == 1 and j == 1 and isinstance(Am, MonoSeq) and isinstance(Bm, MonoSeq)
            ctx.oblige('inner inv-init: C == [A[0] * B[0]], i == j == 1',
                       z3.BoolVal(False) if not ok else C[0].t == Am.cf * Bm.cf, 'inv')
            st['A'], st['B'] = Am, Bm

        def inner_inv(Am, Bm, C, i, j):
            return z3.And(i >= 1, i <= Am.L, j >= 1, j <= Bm.L, C.coef == Am.cf * Bm.cf,
                          C.prod == Am.suf(i) * Bm.suf(j),
                          z3.Implies(z3.And(C.nonempty, i < Am.L), C.last <= Am.vf(i)),
                          z3.Implies(z3.And(C.nonempty, j < Bm.L), C.last <= Bm.vf(j)))

        def havoc_inner(interp, env, it, n, at_exit):
            Am, Bm = st['A'], st['B']
            i, j = SInt(z3.Int('i')), SInt(z3.Int('j'))
            C = CList(ctx, z3.Real('C_coef'), z3.Real('C_prod'), z3.Int('C_last'), z3.Bool('C_nonempty'))
            ctx.assume(inner_inv(Am, Bm, C, i.t, j.t))
            env.vars['i'], env.vars['j'], env.vars['C'] = i, j, C
            st['C'] = C

        def preserve_inner(interp, env, it, n):
            Am, Bm = st['A'], st['B']
            C, i, j = env.lookup('C'), env.lookup('i'), env.lookup('j')
            if C is not st['C'] or not isinstance(i, SInt) or not isinstance(j, SInt):
                raise OutOfSubset('inner inv: loop variables keep their shape' + ' -- shape not recognised, contract does not apply')
                return
            hyp = z3.And(Am.facts_at(i.t - 1), Bm.facts_at(j.t - 1), Am.facts_at(i.t), Bm.facts_at(j.t))
            parts = inner_inv(Am, Bm, C, i.t, j.t).children()
            labels = ['i in range', 'i in range', 'j in range', 'j in range', 'coefficient of C is A[0] * B[0]',
                      'merged product == product of the variables of A before i and of B before j', 'C stays below the head of A', 'C stays below the head of B']
            for lab, part in zip(labels, parts):
                ctx.oblige('inner inv-step: ' + lab, z3.Implies(hyp, part), 'inv')
            ctx.oblige('inner progress', z3.Int('i') + z3.Int('j') < i.t + j.t, 'inv')
        outer = LoopSpec(est_outer, havoc_outer, preserve_outer)
        inner = LoopSpec(est_inner, havoc_inner, preserve_inner)
        interp = Interp(ctx, loop_specs={('__mul__', 0): outer, ('__mul__', 1): inner}, source_name=REL)
        import itertools as _it
        r = H.closure(interp, fuc, {'Polynomial': cls, 'itertools': _it})(A, B)
        if isinstance(r, PolyVal) and r.tag == 'empty':
            ctx.oblige('post: a zero operand gives the zero polynomial', z3.Or(A.n.t == 0, B.n.t == 0))
            return r
        ok = isinstance(r, PolyVal) and 'n' in st
        if not ok:
            raise OutOfSubset('Polynomial.__mul__: the result is not the polynomial accumulated by the two loops (contract does not apply)')
        ctx.oblige('post: returns the accumulated polynomial', True)
        if ok:
            ctx.oblige('post: Den(result) == sum over all pairs of Den(self[i]) * Den(other[j])  (== Den(self) * Den(other) by distributivity)',
                       r.den == Fold(st['n'].t))
        return r
    H.run_paths(fuc, 'well-formed operands', body)
