"""Sidecar contracts for the blade-wise codegen functions of kingdon/codegen.py:
codegen_add, codegen_sub, codegen_neg, codegen_involutions (+reverse/involute/conjugate),
codegen_hodge/unhodge.  Posts are transcribed from the statements of C04 and C05."""
import z3

from kvc.values import (SBool, SKey, SInt, SSign, SRing, OutOfSubset, mkbool, WB)
from kvc.engine import Interp, LoopSpec, PathEnd
from kvc.models import SymMV, SymAlgebra, MathVal, FunDict, CompSeq, ItemsSeq, W, sint
from spec import bits as SB

REL = 'kingdon/codegen.py'


class KeyFold:
    """Ghost fold over y.items():  Has(0,k)=False, Has(n+1,k) = Has(n,k) or key_n == k;
    Sum(0,k)=0, Sum(n+1,k) = Sum(n,k) + (val_n if key_n == k else 0).  At n = len(y) these are the
    keyed view of y (In_y, Coef_y): the coefficient of y on blade k, zero when absent."""

    def __init__(self, ctx, tag):
        bv = z3.BitVecSort(WB)
        self.Has = z3.Function(ctx.fresh(tag + '_Has'), z3.IntSort(), bv, z3.BoolSort())
        self.Sum = z3.Function(ctx.fresh(tag + '_Sum'), z3.IntSort(), bv, z3.RealSort())


def vc_addsub(H, which):
    """C04: a+b / a-b combine coefficients blade by blade, a blade missing from one operand counting as
    zero (so a-b carries minus b's coefficient on blades only b stores)."""
    fuc = H.fn(REL, f'codegen_{which}')
    sgn = 1 if which == 'add' else -1

    def body(ctx):
        alg = SymAlgebra(ctx)
        x = SymMV(ctx, 'x', alg)
        y = SymMV(ctx, 'y', alg)
        fold = KeyFold(ctx, 'yf')
        state = {}

        def inv_dict(m):
            return FunDict(lambda q: z3.Or(x.inf(q), fold.Has(m, q)),
                           lambda q: MathVal(x.coef(q) + sgn * fold.Sum(m, q), False))

        def establish(interp, env, it):
            vals = env.lookup('vals')
            if not isinstance(it, ItemsSeq) or it.mv is not y:
                ctx.oblige('loop iterates over y.items()', False, 'inv')
                raise PathEnd('iterable shape')
            if not isinstance(vals, FunDict):
                raise OutOfSubset('inv-init: vals is a dict keyed by blade' + ' -- shape not recognised, contract does not apply')
                raise PathEnd('vals shape')
            kk = SKey.fresh(ctx.fresh('k0'), 0, (1 << W) - 1)
            ctx.assume(alg.valid_key(kk))
            ctx.assume(x.absent_is_zero(kk.t))
            ctx.oblige('inv-init: key set is that of x', vals.present(kk.t) == x.inf(kk.t), 'inv')
            ctx.oblige('inv-init: coefficients are those of x',
                       z3.Implies(x.inf(kk.t), vals.val(kk.t).den == x.coef(kk.t)), 'inv')

        def havoc(interp, env, it, n, at_exit):
            env.vars['vals'] = inv_dict(n.t)
            state['m'] = n.t

        def preserve(interp, env, it, n):
            m = n.t
            k, v = it.get(n)
            vals = env.lookup('vals')
            if not isinstance(vals, FunDict):
                raise OutOfSubset('inv: vals is still the dict' + ' -- shape not recognised, contract does not apply')
                return
            kk = SKey.fresh(ctx.fresh('kk'), 0, (1 << W) - 1)
            ctx.assume(alg.valid_key(kk))
            aux = lambda q: z3.Implies(z3.Not(fold.Has(m, q)), fold.Sum(m, q) == 0)
            hyp = z3.And(aux(kk.t), aux(k.t), x.absent_is_zero(kk.t), x.absent_is_zero(k.t))
            has1 = z3.Or(fold.Has(m, kk.t), k.t == kk.t)
            sum1 = fold.Sum(m, kk.t) + z3.If(k.t == kk.t, v.den, z3.RealVal(0))
            ctx.oblige('inv-step: key set == keys(x) | keys(y[:n+1])',
                       z3.Implies(hyp, vals.present(kk.t) == z3.Or(x.inf(kk.t), has1)), 'inv')
            ctx.oblige(f'inv-step: coefficient == x[k] {"+" if sgn > 0 else "-"} y[:n+1][k]',
                       z3.Implies(z3.And(hyp, z3.Or(x.inf(kk.t), has1)),
                                  vals.val(kk.t).den == x.coef(kk.t) + sgn * sum1), 'inv')
        spec = LoopSpec(establish, havoc, preserve, header='(k, v) in y.items()')
        interp = Interp(ctx, loop_specs={(f'codegen_{which}', 0): spec}, source_name=REL)
        clo = H.closure(interp, fuc)
        r = clo(x, y)
        if not isinstance(r, FunDict):
            raise OutOfSubset('post: returns the dict of combined coefficients' + ' -- shape not recognised, contract does not apply')
            return r
        kk = SKey.fresh(ctx.fresh('kq'), 0, (1 << W) - 1)
        ctx.assume(alg.valid_key(kk))
        m = state['m']
        ctx.oblige('post: key set == keys(x) | keys(y)', r.present(kk.t) == z3.Or(x.inf(kk.t), fold.Has(m, kk.t)))
        ctx.oblige(f'post: coefficient == x[k] {"+" if sgn > 0 else "-"} y[k] (absent = 0)',
                   z3.Implies(r.present(kk.t), r.val(kk.t).den == x.coef(kk.t) + sgn * fold.Sum(m, kk.t)))
        return r
    H.run_paths(fuc, '', body)


def _generic_dictcomp(H, fuc, label, spec_fn, extra_env=None, args=(), facts=None):
    """Run a function whose result is a dict comprehension over x.items(); check a generic element
    (key and value) against spec_fn(alg, k, v) -> (spec key term, spec_neg Bool), plus injectivity of the key map."""
    def body(ctx):
        alg = SymAlgebra(ctx)
        x = SymMV(ctx, 'x', alg)
        interp = Interp(ctx, source_name=REL)
        env = dict(extra_env(interp) if extra_env else {})
        clo = H.closure(interp, fuc, env)
        r = clo(x, *args)
        if not (isinstance(r, CompSeq) and r.kind == 'dict' and isinstance(r.src, ItemsSeq) and r.src.mv is x):
            raise OutOfSubset('post: returns {f(k): g(k, v) for k, v in x.items()}' + ' -- shape not recognised, contract does not apply')
            return r
        i, j = SInt(z3.Int('i')), SInt(z3.Int('j'))
        ctx.assume(z3.And(i.t >= 0, i.t < x.n.t, j.t >= 0, j.t < x.n.t))
        cond, (k2, v2) = r.at(i)
        ctx.oblige('post: no element of x is filtered out', cond is True or cond)
        k, v = x.key(i), x.val(i)
        if facts:
            for a in facts(alg, k.t):
                ctx.assume(a)
        skey, sneg = spec_fn(alg, k.t)
        if not isinstance(v2, MathVal):
            raise OutOfSubset('post: values are mathstr expressions' + ' -- shape not recognised, contract does not apply')
            return r
        ctx.oblige(f'{label}: output blade', _kt(k2) == skey)
        ctx.oblige(f'{label}: coefficient sign', v2.den == z3.If(sneg, -v.den, v.den))
        # dict semantics: a later equal key would overwrite -> the key map must be injective on distinct keys
        _, (k2j, _) = r.at(j)
        kj = x.key(j)
        ctx.oblige(f'{label}: distinct input blades map to distinct output blades',
                   z3.Implies(k.t != kj.t, _kt(k2) != _kt(k2j)))
        return r
    H.run_paths(fuc, '', body)


def _kt(k):
    if isinstance(k, SKey):
        return k.t
    if isinstance(k, int):
        return z3.BitVecVal(k, WB)
    raise OutOfSubset('output key is not an int')


def vc_neg(H):
    fuc = H.fn(REL, 'codegen_neg')
    _generic_dictcomp(H, fuc, 'neg', lambda alg, k: (k, z3.BoolVal(True)))


def _exp_odd(e):
    return z3.Extract(0, 0, e) == 1


def spec_involution(which, k):
    """C04: multiply each grade-g coefficient by (-1)^(g(g-1)/2), (-1)^g, (-1)^(g(g+1)/2)."""
    g = SB.z_popcount(k, W)
    if which == 'reverse':
        return _exp_odd(z3.LShR(g * (g - 1), 1))
    if which == 'involute':
        return _exp_odd(g)
    if which == 'conjugate':
        return _exp_odd(z3.LShR(g * (g + 1), 1))
    raise KeyError(which)


def vc_involution(H, which):
    fuc = H.fn(REL, f'codegen_{which}')
    helper = H.fn(REL, 'codegen_involutions')

    def env(interp):
        return {'codegen_involutions': H.closure(interp, helper)}     # 3-line helper: inlined
    _generic_dictcomp(H, fuc, which, lambda alg, k: (k, spec_involution(which, k)), extra_env=env)


def vc_hodge(H, which):
    """C05: hodge(E_k) = s E_{c k} with E_k ^ hodge(E_k) = pss, i.e. s = signs[k, c k] (non-zero since k and
    its complement are disjoint); unhodge is its inverse: unhodge(E_m) = signs[c m, m] E_{c m}."""
    fuc = H.fn(REL, f'codegen_{which}')
    helper = H.fn(REL, 'codegen_hodge')

    def spec(alg, k):
        ck = (alg.N.t - 1) - k
        if which == 'hodge':
            return ck, alg.signs.nf(k, ck)
        return ck, alg.signs.nf(ck, k)

    def env(interp):
        return {'codegen_hodge': H.closure(interp, helper)}
    def facts(alg, k):
        from contracts.codegen_c import table_facts
        ck = (alg.N.t - 1) - k
        return table_facts(alg, [(k, ck), (ck, k)])
    _generic_dictcomp(H, fuc, which, spec, extra_env=env if which == 'unhodge' else None, facts=facts)


# =====================================================================================
# polarity / unpolarity
# =====================================================================================
def vc_polarity(H):
    """C05: polarity(x) = x * inverse(pss), ZeroDivisionError exactly when pss*pss == 0 (degenerate metric);
    unpolarity(x) = x * pss.  pss^-1 = pss / pss^2 and pss^2 = signs[pss,pss] in {1,-1,0}, so the expected results are
    x*pss, (-x)*pss (== -(x*pss) by bilinearity) and an exception."""
    from kvc.rec import Rec, sym, same
    from kvc.models import SignsTable

    class PolAlg:
        def __init__(self, ctx):
            self.N = SKey.fresh('alg_N', 1, 1 << W)
            ctx.assume(self.N.range_constraint())
            ctx.assume(self.N.t & (self.N.t - 1) == 0)
            ctx.ghost['N'] = self.N
            self.signs = SignsTable()
            self.pss = sym('pss')

        def kvc_len(self):
            return self.N

        def kvc_getattr(self, interp, name):
            if name in ('signs', 'pss'):
                return getattr(self, name)
            raise OutOfSubset(f'algebra.{name} not modelled here')
    for which in ('polarity', 'unpolarity'):
        fuc = H.fn(REL, f'codegen_{which}')
        helper = H.fn(REL, 'codegen_polarity')

        def body(ctx, which=which, fuc=fuc):
            alg = PolAlg(ctx)
            x = sym('x', attrs={'algebra': alg})
            interp = Interp(ctx, source_name=REL)
            env = {'codegen_polarity': H.closure(interp, helper)} if which == 'unpolarity' else {}
            try:
                r = H.closure(interp, fuc, env)(x)
                raised = None
            except ZeroDivisionError as e:
                r, raised = None, e
            gp = lambda a, b: Rec('binop', 'Mult', a, b)
            if which == 'unpolarity':
                ctx.oblige('post: unpolarity(x) == x * pss', raised is None and same(r, gp(x, alg.pss)))
            else:
                pss = alg.N.t - 1
                sq = SSign(alg.signs.zf(pss, pss), alg.signs.nf(pss, pss))
                is_x = z3.BoolVal(raised is None and same(r, gp(x, alg.pss)))
                is_negx = z3.BoolVal(raised is None and same(r, gp(Rec('unop', 'USub', x), alg.pss)))
                ctx.oblige('post: pss*pss == +1  ->  x * pss', z3.Implies(z3.And(z3.Not(sq.z), z3.Not(sq.n)), is_x))
                ctx.oblige('post: pss*pss == -1  ->  (-x) * pss', z3.Implies(z3.And(z3.Not(sq.z), sq.n), is_negx))
                ctx.oblige('post: ZeroDivisionError  <=>  pss*pss == 0', sq.z == z3.BoolVal(raised is not None))
            if raised is not None:
                ctx.notes.append('expected-raise'); raise raised
            return r
        H.run_paths(fuc, '', body)


# =====================================================================================
# compositions: codegen_sw / codegen_proj / codegen_normsq (C06), codegen_div / codegen_inv structure (C07)
# =====================================================================================
def vc_compositions(H):
    """The generated sandwich, projection and squared norm are literally the compositions of the statement, evaluated with the
    elementary operators on the symbolic operands: x*y*~x, (x|y)*~y, x*~x (operator precedence as in Python)."""
    from kvc.rec import Rec, sym, same
    x, y = sym('x'), sym('y')
    mul = lambda a, b: Rec('binop', 'Mult', a, b)
    rev = lambda a: Rec('unop', 'Invert', a)
    ip = lambda a, b: Rec('binop', 'BitOr', a, b)
    table = {'codegen_sw': ((x, y), mul(mul(x, y), rev(x)), 'x * y * ~x'),
             'codegen_proj': ((x, y), mul(ip(x, y), rev(y)), '(x | y) * ~y'),
             'codegen_normsq': ((x,), mul(x, rev(x)), 'x * ~x')}
    for fn, (args, exp, txt) in table.items():
        fuc = H.fn(REL, fn)

        def body(ctx, fuc=fuc, args=args, exp=exp, txt=txt):
            r = H.closure(Interp(ctx, source_name=REL), fuc)(*args)
            ctx.oblige(f'post: returns {txt} built from the elementary operators', same(r, exp), meta={'got': repr(r)})
            return r
        H.run_paths(fuc, '', body)


def vc_inv_div_structure(H):
    """codegen_inv: Hitzer closed forms for d < 6, Shirokov beyond; result = num * (1/denom) through a dependency;
    codegen_div: x * num * (1/denom) with ZeroDivisionError when denom is identically zero."""
    from kvc.rec import Rec, sym, same
    fi = H.fn(REL, 'codegen_inv')
    fd = H.fn(REL, 'codegen_div')
    for d in (0, 3, 5, 6, 7):
        for with_x in (False, True):
            def body(ctx, d=d, with_x=with_x):
                calls = []
                num, denom = sym('num'), sym('denom', truth=True)
                hitzer = sym('codegen_hitzer_inv', callable_result=lambda i, m, a, k: calls.append(('hitzer', a, k)) or (num, denom))
                shirokov = sym('codegen_shirokov_inv', callable_result=lambda i, m, a, k: calls.append(('shirokov', a, k)) or (num, denom))
                alg = sym('algebra', attrs={'d': d})
                yv = sym('y', attrs={'algebra': alg})
                xv = sym('x')
                Fr = lambda n, dd: ('Fraction', n, dd)
                r = H.closure(Interp(ctx, source_name=REL), fi, {'codegen_hitzer_inv': hitzer, 'codegen_shirokov_inv': shirokov, 'Fraction': Fr})(
                    yv, xv if with_x else None, symbolic=True)
                want = 'hitzer' if d < 6 else 'shirokov'
                ctx.oblige(f'd={d}: uses the {want} scheme on y (closed forms exist up to 5 dimensions)',
                           len(calls) == 1 and calls[0][0] == want and same(tuple(calls[0][1]), (yv,)) and calls[0][2] == {'symbolic': True},
                           meta={'calls': repr(calls)})
                expn = Rec('binop', 'Mult', xv, num) if with_x else num
                ctx.oblige('symbolic result is Fraction(x * num, denom) (x on the left: a/b = a * inverse(b))',
                           isinstance(r, tuple) and r[0] == 'Fraction' and same(r[1], expn) and r[2] is denom, meta={'got': repr(r)})
                return r
            H.run_paths(fi, f'd={d},x={"given" if with_x else "None"}', body)
    for zero in (False, True):
        def body(ctx, zero=zero):
            num, denom = sym('num'), sym('denom', truth=not zero)
            prods = []
            prod = sym('num*d.e', attrs={'items': sym('items', callable_result=lambda i, m, a, k: [('K', 'V')])})

            def num_binop(interp, op, other, reflected):
                prods.append((op, other, reflected))
                return prod
            num.kvc_binop = num_binop
            inv = sym('codegen_inv', callable_result=lambda i, m, a, k: (num, denom))
            scal = []
            dmv = sym('d-scalar', attrs={'e': sym('d.e'), 'values': sym('d.values', callable_result=lambda i, m, a, k: ['dsym'])})
            dinv = sym('1/denom-scalar', attrs={'values': sym('dinv.values', callable_result=lambda i, m, a, k: ['dinv'])})

            def scalar(i, m, a, k):
                scal.append((a, k))
                return dmv if 'name' in k else dinv
            alg = sym('algebra', attrs={'scalar': sym('alg.scalar', callable_result=scalar), 'div': sym('alg.div', attrs={'codegen_symbolcls': sym('symcls')})})
            xv = sym('x', attrs={'algebra': alg, 'values': sym('x.values', callable_result=lambda i, m, a, k: 'XVALS')})
            yv = sym('y', attrs={'values': sym('y.values', callable_result=lambda i, m, a, k: 'YVALS')})
            LI = lambda **kw: ('LambdifyInput', kw)
            tid = sym('_type_id', callable_result=lambda i, m, a, k: 'T')
            try:
                r = H.closure(Interp(ctx, source_name=REL), fd, {'codegen_inv': inv, 'LambdifyInput': LI, '_type_id': tid})(xv, yv)
                raised = None
            except ZeroDivisionError as e:
                r, raised = None, e
            if zero:
                ctx.oblige('identically zero denominator raises ZeroDivisionError', raised is not None)
                if raised:
                    ctx.notes.append('expected-raise'); raise raised
                return r
            ok = raised is None and isinstance(r, tuple) and r[0] == 'LambdifyInput'
            if not ok:
                raise OutOfSubset('codegen_div: the result is not a LambdifyInput (contract does not apply)')
            ctx.oblige('returns a LambdifyInput', True)
            if ok:
                kw = r[1]
                ctx.oblige('args bind x then y to their values', kw.get('args') == {'x': 'XVALS', 'y': 'YVALS'})
                ctx.oblige('dependency d = 1 / denom', kw.get('dependencies') == [('dsym', 'dinv')] and len(scal) == 2
                           and same(scal[1][0][0], [Rec('binop', 'Div', 1, denom)]), meta={'got': repr(kw.get('dependencies')), 'scalar_calls': repr(scal)})
                ed = kw.get('expr_dict')
                ctx.oblige('expressions are those of num * d.e', ed == {'K': 'V'} and len(prods) == 1 and prods[0][0] == 'Mult'
                           and prods[0][1] is dmv.attrs['e'] and not prods[0][2], meta={'got': repr((ed, prods))})
            return r
        H.run_paths(fd, f'denominator-zero={zero}', body)
