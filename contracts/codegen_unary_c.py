"""Sidecar contracts for the blade-wise codegen functions of kingdon/codegen.py:
codegen_add, codegen_sub, codegen_neg, codegen_involutions (+reverse/involute/conjugate),
codegen_hodge/unhodge.  Posts are transcribed from the statements of C04 and C05."""
import z3

from kvc.values import (SBool, SKey, SInt, SSign, SRing, OutOfSubset, mkbool, WB)
from kvc.engine import Interp, LoopSpec, PathEnd
from kvc.models import SymMV, SymAlgebra, MathVal, FunDict, CompSeq, ItemsSeq, W, sint
from spec import bits as SB

REL = 'kingdon/codegen.py'


class KeyFold:
    """Ghost fold over y.items():  Has(0,k)=False, Has(n+1,k) = Has(n,k) or key_n == k;
    Sum(0,k)=0, Sum(n+1,k) = Sum(n,k) + (val_n if key_n == k else 0).  At n = len(y) these are the
    keyed view of y (In_y, Coef_y): the coefficient of y on blade k, zero when absent."""

    def __init__(self, ctx, tag):
        bv = z3.BitVecSort(WB)
        self.Has = z3.Function(ctx.fresh(tag + '_Has'), z3.IntSort(), bv, z3.BoolSort())
        self.Sum = z3.Function(ctx.fresh(tag + '_Sum'), z3.IntSort(), bv, z3.RealSort())


def vc_addsub(H, which):
    """C04: a+b / a-b combine coefficients blade by blade, a blade missing from one operand counting as
    zero (so a-b carries minus b's coefficient on blades only b stores)."""
    fuc = H.fn(REL, f'codegen_{which}')
    sgn = 1 if which == 'add' else -1

    def body(ctx):
        alg = SymAlgebra(ctx)
        x = SymMV(ctx, 'x', alg)
        y = SymMV(ctx, 'y', alg)
        fold = KeyFold(ctx, 'yf')
        state = {}

        def inv_dict(m):
            return FunDict(lambda q: z3.Or(x.inf(q), fold.Has(m, q)),
                           lambda q: MathVal(x.coef(q) + sgn * fold.Sum(m, q), False))

        def establish(interp, env, it):
            vals = env.lookup('vals')
            if not isinstance(it, ItemsSeq) or it.mv is not y:
                ctx.oblige('loop iterates over y.items()', False, 'inv')
                raise PathEnd('iterable shape')
            if not isinstance(vals, FunDict):
                ctx.oblige('inv-init: vals is a dict keyed by blade', False, 'inv')
                raise PathEnd('vals shape')
            kk = SKey.fresh(ctx.fresh('k0'), 0, (1 << W) - 1)
            ctx.assume(alg.valid_key(kk))
            ctx.assume(x.absent_is_zero(kk.t))
            ctx.oblige('inv-init: key set is that of x', vals.present(kk.t) == x.inf(kk.t), 'inv')
            ctx.oblige('inv-init: coefficients are those of x',
                       z3.Implies(x.inf(kk.t), vals.val(kk.t).den == x.coef(kk.t)), 'inv')

        def havoc(interp, env, it, n, at_exit):
            env.vars['vals'] = inv_dict(n.t)
            state['m'] = n.t

        def preserve(interp, env, it, n):
            m = n.t
            k, v = it.get(n)
            vals = env.lookup('vals')
            if not isinstance(vals, FunDict):
                ctx.oblige('inv: vals is still the dict', False, 'inv')
                return
            kk = SKey.fresh(ctx.fresh('kk'), 0, (1 << W) - 1)
            ctx.assume(alg.valid_key(kk))
            aux = lambda q: z3.Implies(z3.Not(fold.Has(m, q)), fold.Sum(m, q) == 0)
            hyp = z3.And(aux(kk.t), aux(k.t), x.absent_is_zero(kk.t), x.absent_is_zero(k.t))
            has1 = z3.Or(fold.Has(m, kk.t), k.t == kk.t)
            sum1 = fold.Sum(m, kk.t) + z3.If(k.t == kk.t, v.den, z3.RealVal(0))
            ctx.oblige('inv-step: key set == keys(x) | keys(y[:n+1])',
                       z3.Implies(hyp, vals.present(kk.t) == z3.Or(x.inf(kk.t), has1)), 'inv')
            ctx.oblige(f'inv-step: coefficient == x[k] {"+" if sgn > 0 else "-"} y[:n+1][k]',
                       z3.Implies(z3.And(hyp, z3.Or(x.inf(kk.t), has1)),
                                  vals.val(kk.t).den == x.coef(kk.t) + sgn * sum1), 'inv')
        spec = LoopSpec(establish, havoc, preserve, header='(k, v) in y.items()')
        interp = Interp(ctx, loop_specs={(f'codegen_{which}', 0): spec}, source_name=REL)
        clo = H.closure(interp, fuc)
        r = clo(x, y)
        if not isinstance(r, FunDict):
            ctx.oblige('post: returns the dict of combined coefficients', False)
            return r
        kk = SKey.fresh(ctx.fresh('kq'), 0, (1 << W) - 1)
        ctx.assume(alg.valid_key(kk))
        m = state['m']
        ctx.oblige('post: key set == keys(x) | keys(y)', r.present(kk.t) == z3.Or(x.inf(kk.t), fold.Has(m, kk.t)))
        ctx.oblige(f'post: coefficient == x[k] {"+" if sgn > 0 else "-"} y[k] (absent = 0)',
                   z3.Implies(r.present(kk.t), r.val(kk.t).den == x.coef(kk.t) + sgn * fold.Sum(m, kk.t)))
        return r
    H.run_paths(fuc, '', body)


def _generic_dictcomp(H, fuc, label, spec_fn, extra_env=None, args=(), facts=None):
    """Run a function whose result is a dict comprehension over x.items(); check a generic element
    (key and value) against spec_fn(alg, k, v) -> (spec key term, spec_neg Bool), plus injectivity of the key map."""
    def body(ctx):
        alg = SymAlgebra(ctx)
        x = SymMV(ctx, 'x', alg)
        interp = Interp(ctx, source_name=REL)
        env = dict(extra_env(interp) if extra_env else {})
        clo = H.closure(interp, fuc, env)
        r = clo(x, *args)
        if not (isinstance(r, CompSeq) and r.kind == 'dict' and isinstance(r.src, ItemsSeq) and r.src.mv is x):
            ctx.oblige('post: returns {f(k): g(k, v) for k, v in x.items()}', False)
            return r
        i, j = SInt(z3.Int('i')), SInt(z3.Int('j'))
        ctx.assume(z3.And(i.t >= 0, i.t < x.n.t, j.t >= 0, j.t < x.n.t))
        cond, (k2, v2) = r.at(i)
        ctx.oblige('post: no element of x is filtered out', cond is True or cond)
        k, v = x.key(i), x.val(i)
        if facts:
            for a in facts(alg, k.t):
                ctx.assume(a)
        skey, sneg = spec_fn(alg, k.t)
        if not isinstance(v2, MathVal):
            ctx.oblige('post: values are mathstr expressions', False)
            return r
        ctx.oblige(f'{label}: output blade', _kt(k2) == skey)
        ctx.oblige(f'{label}: coefficient sign', v2.den == z3.If(sneg, -v.den, v.den))
        # dict semantics: a later equal key would overwrite -> the key map must be injective on distinct keys
        _, (k2j, _) = r.at(j)
        kj = x.key(j)
        ctx.oblige(f'{label}: distinct input blades map to distinct output blades',
                   z3.Implies(k.t != kj.t, _kt(k2) != _kt(k2j)))
        return r
    H.run_paths(fuc, '', body)


def _kt(k):
    if isinstance(k, SKey):
        return k.t
    if isinstance(k, int):
        return z3.BitVecVal(k, WB)
    raise OutOfSubset('output key is not an int')


def vc_neg(H):
    fuc = H.fn(REL, 'codegen_neg')
    _generic_dictcomp(H, fuc, 'neg', lambda alg, k: (k, z3.BoolVal(True)))


def _exp_odd(e):
    return z3.Extract(0, 0, e) == 1


def spec_involution(which, k):
    """C04: multiply each grade-g coefficient by (-1)^(g(g-1)/2), (-1)^g, (-1)^(g(g+1)/2)."""
    g = SB.z_popcount(k, W)
    if which == 'reverse':
        return _exp_odd(z3.LShR(g * (g - 1), 1))
    if which == 'involute':
        return _exp_odd(g)
    if which == 'conjugate':
        return _exp_odd(z3.LShR(g * (g + 1), 1))
    raise KeyError(which)


def vc_involution(H, which):
    fuc = H.fn(REL, f'codegen_{which}')
    helper = H.fn(REL, 'codegen_involutions')

    def env(interp):
        return {'codegen_involutions': H.closure(interp, helper)}     # 3-line helper: inlined
    _generic_dictcomp(H, fuc, which, lambda alg, k: (k, spec_involution(which, k)), extra_env=env)


def vc_hodge(H, which):
    """C05: hodge(E_k) = s E_{c k} with E_k ^ hodge(E_k) = pss, i.e. s = signs[k, c k] (non-zero since k and
    its complement are disjoint); unhodge is its inverse: unhodge(E_m) = signs[c m, m] E_{c m}."""
    fuc = H.fn(REL, f'codegen_{which}')
    helper = H.fn(REL, 'codegen_hodge')

    def spec(alg, k):
        ck = (alg.N.t - 1) - k
        if which == 'hodge':
            return ck, alg.signs.nf(k, ck)
        return ck, alg.signs.nf(ck, k)

    def env(interp):
        return {'codegen_hodge': H.closure(interp, helper)}
    def facts(alg, k):
        from contracts.codegen_c import table_facts
        ck = (alg.N.t - 1) - k
        return table_facts(alg, [(k, ck), (ck, k)])
    _generic_dictcomp(H, fuc, which, spec, extra_env=env if which == 'unhodge' else None, facts=facts)


# =====================================================================================
# polarity / unpolarity
# =====================================================================================
def vc_polarity(H):
    """C05: polarity(x) = x * inverse(pss), ZeroDivisionError exactly when pss*pss == 0 (degenerate metric);
    unpolarity(x) = x * pss.  pss^-1 = pss / pss^2 and pss^2 = signs[pss,pss] in {1,-1,0}, so the expected results are
    x*pss, (-x)*pss (== -(x*pss) by bilinearity) and an exception."""
    from kvc.rec import Rec, sym, same
    from kvc.models import SignsTable

    class PolAlg:
        def __init__(self, ctx):
            self.N = SKey.fresh('alg_N', 1, 1 << W)
            ctx.assume(self.N.range_constraint())
            ctx.assume(self.N.t & (self.N.t - 1) == 0)
            ctx.ghost['N'] = self.N
            self.signs = SignsTable()
            self.pss = sym('pss')

        def kvc_len(self):
            return self.N

        def kvc_getattr(self, interp, name):
            if name in ('signs', 'pss'):
                return getattr(self, name)
            raise OutOfSubset(f'algebra.{name} not modelled here')
    for which in ('polarity', 'unpolarity'):
        fuc = H.fn(REL, f'codegen_{which}')
        helper = H.fn(REL, 'codegen_polarity')

        def body(ctx, which=which, fuc=fuc):
            alg = PolAlg(ctx)
            x = sym('x', attrs={'algebra': alg})
            interp = Interp(ctx, source_name=REL)
            env = {'codegen_polarity': H.closure(interp, helper)} if which == 'unpolarity' else {}
            try:
                r = H.closure(interp, fuc, env)(x)
                raised = None
            except ZeroDivisionError as e:
                r, raised = None, e
            gp = lambda a, b: Rec('binop', 'Mult', a, b)
            if which == 'unpolarity':
                ctx.oblige('post: unpolarity(x) == x * pss', raised is None and same(r, gp(x, alg.pss)))
            else:
                pss = alg.N.t - 1
                sq = SSign(alg.signs.zf(pss, pss), alg.signs.nf(pss, pss))
                is_x = z3.BoolVal(raised is None and same(r, gp(x, alg.pss)))
                is_negx = z3.BoolVal(raised is None and same(r, gp(Rec('unop', 'USub', x), alg.pss)))
                ctx.oblige('post: pss*pss == +1  ->  x * pss', z3.Implies(z3.And(z3.Not(sq.z), z3.Not(sq.n)), is_x))
                ctx.oblige('post: pss*pss == -1  ->  (-x) * pss', z3.Implies(z3.And(z3.Not(sq.z), sq.n), is_negx))
                ctx.oblige('post: ZeroDivisionError  <=>  pss*pss == 0', sq.z == z3.BoolVal(raised is not None))
            if raised is not None:
                raise raised
            return r
        H.run_paths(fuc, '', body)
