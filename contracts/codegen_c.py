"""Sidecar contracts for kingdon/codegen.py (nothing in /repo is edited).

Contracts in this module
  mathstr.__add__/__sub__/__neg__/__mul__   string-level posts (signed-monomial algebra)
  codegen_product                           higher-order contract: result = fold over all index pairs
  codegen_gp/op/ip/lc/rc/sp/cp/acp/rp       selection / output key / sign of each pair == spec (from
                                            the statements of C02, C03, C05)
  codegen_add/sub/neg/involutions/...       in contracts/codegen_unary_c.py
"""
import z3

from kvc.values import (SBool, SKey, SInt, SSign, SRing, SStr, OutOfSubset, mkbool, WB, current)
from kvc.engine import Interp, Env, Closure, LoopSpec, PathEnd, BUILTIN_ENV
from kvc.models import (SymMV, SymAlgebra, MathVal, FunDict, SymSeq, ProductSeq, W, sint)
from spec import bits as SB
from lemmas import filters as LF

REL = 'kingdon/codegen.py'


# =====================================================================================
# mathstr
# =====================================================================================
class SMathStr(SStr):
    """Symbolic instance of the real class `mathstr` (a str subclass): `self.__class__(text)` builds one."""
    __slots__ = ()

    def __init__(self, t):
        if isinstance(t, SStr):
            t = t.t
        super().__init__(t)


def _text(neg, body, rest):
    return z3.Concat(z3.If(neg, z3.StringVal('-'), z3.StringVal('')), body, rest)


def _wf_body(b):
    """A monomial body: non-empty, does not start with a sign character."""
    c0 = z3.SubString(b, 0, 1)
    return z3.And(z3.Length(b) >= 1, c0 != z3.StringVal('-'), c0 != z3.StringVal('+'))


def _wf_tail(r):
    """Rendering of the remaining terms: empty or starting with an infix sign."""
    c0 = z3.SubString(r, 0, 1)
    return z3.Or(r == z3.StringVal(''), c0 == z3.StringVal('-'), c0 == z3.StringVal('+'))


def vc_mathstr(H):
    """Text model: T = ['-'] body0 tail, tail = (('+'|'-') body)*.   A *single* signed monomial has tail == ''.
    Posts (all at string level, for all strings):
      a * b   (both single)         == [na xor nb ? '-'] ba '*' bb
      -a      (single)              == [not na ? '-'] ba
      a + b   (a any text, b text)  == a ('-' if nb else '+') bb tail_b
      a - b   (b single)            == a ('+' if nb else '-') bb
    The step from these texts to ring denotations is the assumption `mathstr-grammar` (Python's
    expression grammar for + - * and unary minus on identifiers)."""
    S = z3.String
    for meth in ('__mul__', '__neg__', '__add__', '__sub__'):
        fuc = H.fn(REL, f'mathstr.{meth}')

        def body(ctx, meth=meth, fuc=fuc):
            interp = Interp(ctx, source_name=REL)
            clo = H.closure(interp, fuc)
            na, nb = z3.Bool('na'), z3.Bool('nb')
            ba, bb, ta, tb = S('ba'), S('bb'), S('ta'), S('tb')
            A = S('A')
            ctx.assume(z3.And(_wf_body(ba), _wf_body(bb), _wf_tail(ta), _wf_tail(tb)))
            if meth == '__mul__':
                a = SMathStr(_text(na, ba, z3.StringVal('')))
                b = SMathStr(_text(nb, bb, z3.StringVal('')))
                r = clo(a, b)
                _expect_mathstr(ctx, r)
                ctx.oblige('post: text == [na^nb]ba*bb',
                           r.t == _text(z3.Xor(na, nb), z3.Concat(ba, z3.StringVal('*'), bb), z3.StringVal('')))
            elif meth == '__neg__':
                a = SMathStr(_text(na, ba, z3.StringVal('')))
                r = clo(a)
                _expect_mathstr(ctx, r)
                ctx.oblige('post: text == [!na]ba', r.t == _text(z3.Not(na), ba, z3.StringVal('')))
            elif meth == '__add__':
                ctx.assume(z3.Length(A) >= 1)
                a = SMathStr(A)
                b = SMathStr(_text(nb, bb, tb))
                r = clo(a, b)
                _expect_mathstr(ctx, r)
                ctx.oblige('post: text == A (+|-) bb tail',
                           r.t == z3.Concat(A, z3.If(nb, z3.StringVal('-'), z3.StringVal('+')), bb, tb))
            else:
                ctx.assume(z3.Length(A) >= 1)
                a = SMathStr(A)
                b = SMathStr(_text(nb, bb, z3.StringVal('')))
                r = clo(a, b)
                _expect_mathstr(ctx, r)
                ctx.oblige('post: text == A (-|+) bb',
                           r.t == z3.Concat(A, z3.If(nb, z3.StringVal('+'), z3.StringVal('-')), bb))
            return r
        H.run_paths(fuc, '', body)


def _expect_mathstr(ctx, r):
    if not isinstance(r, SMathStr):
        raise OutOfSubset('post: result is a mathstr' + ' -- shape not recognised, contract does not apply')
        raise PathEnd('result is not a mathstr')


# =====================================================================================
# codegen_product: higher-order contract
# =====================================================================================
class PairFold:
    """Ghost fold over the enumeration m -> (x[I(m)], y[J(m)]) of all index pairs:
         Has(0,k) = False                 Has(m+1,k)  = Has(m,k) or (sel_m and key_m == k)
         Spec(0,k) = 0                    Spec(m+1,k) = Spec(m,k) + (term_m if sel_m and key_m == k else 0)
       Aux invariant (lemma by induction, included in the loop invariant): not Has(m,k) => Spec(m,k) == 0.
       Has(L,.) / Spec(L,.) with L = number of pairs *are* the key set and coefficients the property
       statements describe ("the sum over all pairs of stored input blades ...")."""

    def __init__(self, ctx, tag):
        bv = z3.BitVecSort(WB)
        self.Has = z3.Function(ctx.fresh(tag + '_Has'), z3.IntSort(), bv, z3.BoolSort())
        self.Spec = z3.Function(ctx.fresh(tag + '_Spec'), z3.IntSort(), bv, z3.RealSort())


class ProductResult:
    """What the contract of codegen_product returns to its callers: the fold, with the caller's closures."""

    def __init__(self, x, y, filter_func, sign_func, keyout_func):
        self.x, self.y = x, y
        self.filter_func, self.sign_func, self.keyout_func = filter_func, sign_func, keyout_func

    def kvc_isinstance(self, interp, cls):
        classes = cls if isinstance(cls, tuple) else (cls,)
        return any(getattr(c, '__name__', '') == 'dict' for c in classes)


class AbstractFn:
    """An arbitrary (uninterpreted) closure argument of codegen_product."""

    def __init__(self, f):
        self.f = f

    def kvc_call(self, interp, *a, **k):
        return self.f(*a, **k)


def vc_codegen_product(H):
    fuc = H.fn(REL, 'codegen_product')
    bv = z3.BitVecSort(WB)
    for use_filter in (True, False):
        for use_sign in (True, False):
            for use_keyout in (True, False):
                label = f'filter={"F" if use_filter else "None"},sign={"S" if use_sign else "default"},' \
                        f'keyout={"K" if use_keyout else "xor"}'

                def body(ctx, use_filter=use_filter, use_sign=use_sign, use_keyout=use_keyout):
                    alg = SymAlgebra(ctx)
                    x = SymMV(ctx, 'x', alg)
                    y = SymMV(ctx, 'y', alg)
                    Ff = z3.Function('F', bv, bv, bv, z3.BoolSort())
                    Sz = z3.Function('S_zero', bv, bv, z3.BoolSort())
                    Sn = z3.Function('S_neg', bv, bv, z3.BoolSort())
                    Kf = z3.Function('K', bv, bv, bv)
                    calls = {'F': 0, 'S': 0, 'K': 0}

                    def fF(kx, ky, ko):
                        calls['F'] += 1
                        return mkbool(Ff(kx.t, ky.t, ko.t))

                    def fS(pair):
                        calls['S'] += 1
                        return SSign(Sz(pair[0].t, pair[1].t), Sn(pair[0].t, pair[1].t))

                    def fK(kx, ky):
                        calls['K'] += 1
                        k = SKey(Kf(kx.t, ky.t), 0, (1 << W) - 1)
                        ctx.assume(alg.valid_key(k))      # requires: keyout_func returns a blade key
                        return k
                    fold = PairFold(ctx, 'pf')

                    def sel_key_term(kx, ky, vx, vy):
                        """spec side of one pair, in terms of the (abstract) closure semantics"""
                        if use_sign:
                            sz, sn = Sz(kx.t, ky.t), Sn(kx.t, ky.t)
                        else:
                            sz, sn = alg.signs.zf(kx.t, ky.t), alg.signs.nf(kx.t, ky.t)
                        ko = Kf(kx.t, ky.t) if use_keyout else (kx.t ^ ky.t)
                        sel = z3.Not(sz)
                        if use_filter:
                            sel = z3.And(sel, Ff(kx.t, ky.t, ko))
                        term = z3.If(sn, -(vx.den * vy.den), vx.den * vy.den)
                        return sel, ko, term
                    state = {}

                    def establish(interp, env, it):
                        res = env.lookup('res')
                        kk = SKey.fresh(ctx.fresh('k0'), 0, (1 << W) - 1)
                        pres = interp.contains(kk, res)
                        ctx.oblige('inv-init: result dict starts empty', interp.not_(pres), 'inv')
                        if not isinstance(it, ProductSeq):
                            ctx.oblige('loop iterates over product(x.items(), y.items())', False, 'inv')
                            raise PathEnd('iterable shape')

                    def havoc(interp, env, it, n, at_exit):
                        m = n.t
                        env.vars['res'] = FunDict(lambda q: fold.Has(m, q),
                                                  lambda q: MathVal(fold.Spec(m, q), False))
                        state['m'] = m

                    def preserve(interp, env, it, n):
                        m = n.t
                        (kx, vx), (ky, vy) = it.get(n)
                        sel, ko, term = sel_key_term(kx, ky, vx, vy)
                        res = env.lookup('res')
                        kk = SKey.fresh(ctx.fresh('kk'), 0, (1 << W) - 1)
                        ctx.assume(alg.valid_key(kk))
                        hit = z3.And(sel, ko == kk.t)
                        has1 = z3.Or(fold.Has(m, kk.t), hit)
                        spec1 = fold.Spec(m, kk.t) + z3.If(hit, term, z3.RealVal(0))
                        aux = lambda q: z3.Implies(z3.Not(fold.Has(m, q)), fold.Spec(m, q) == 0)
                        hyp = z3.And(aux(kk.t), aux(ko))
                        if not isinstance(res, FunDict):
                            raise OutOfSubset('inv: result variable is still the dict' + ' -- shape not recognised, contract does not apply')
                            return
                        ctx.oblige('inv-step: key present  <=>  some selected pair so far maps to it',
                                   z3.Implies(hyp, res.present(kk.t) == has1), 'inv')
                        ctx.oblige('inv-step: stored text denotes the sum of the selected terms so far',
                                   z3.Implies(z3.And(hyp, has1), res.val(kk.t).den == spec1), 'inv')
                        ctx.oblige('inv-step: absent key has empty sum',
                                   z3.Implies(z3.And(hyp, z3.Not(has1)), spec1 == 0), 'inv')
                    spec = LoopSpec(establish, havoc, preserve,
                                    header='((kx, vx), (ky, vy)) in product(x.items(), y.items())')
                    interp = Interp(ctx, loop_specs={('codegen_product', 0): spec}, source_name=REL)
                    clo = H.closure(interp, fuc)
                    kwargs = {}
                    if use_filter:
                        kwargs['filter_func'] = AbstractFn(fF)
                    if use_sign:
                        kwargs['sign_func'] = AbstractFn(fS)
                    if use_keyout:
                        kwargs['keyout_func'] = AbstractFn(fK)
                    r = clo(x, y, **kwargs)
                    # exit path: the function must return the dict that satisfies the invariant at L
                    if isinstance(r, dict) and not r:
                        # an early return of a fresh empty dict: right exactly when there is no pair to accumulate
                        ctx.oblige('post: an empty result returned without accumulation only if an operand stores no blade',
                                   z3.Or(x.n.t == 0, y.n.t == 0))
                        return r
                    if not isinstance(r, FunDict):
                        # the result is not the dictionary this contract follows through the loop: the contract does not apply
                        raise OutOfSubset(f'codegen_product returns {type(r).__name__}, not the dict accumulated in the loop under contract')
                    ctx.oblige('post: returns the accumulated dict', True)
                    kk = SKey.fresh(ctx.fresh('kq'), 0, (1 << W) - 1)
                    ctx.assume(alg.valid_key(kk))
                    m = state['m']
                    ctx.oblige('post: key set == Has(L, .)', r.present(kk.t) == fold.Has(m, kk.t))
                    ctx.oblige('post: coefficients == Spec(L, .)',
                               z3.Implies(fold.Has(m, kk.t), r.val(kk.t).den == fold.Spec(m, kk.t)))
                    return r
                H.run_paths(fuc, label, body)


# =====================================================================================
# the product-type operators: selection / key / sign of a generic pair
# =====================================================================================
def _grade(k):
    """Opaque grade (lemmas/filters.py reveals it as popcount only in its base lemmas)."""
    return LF.Grade(k)


def spec_pair(op, alg, kx, ky):
    """(selected: Bool, output key: BV, coefficient factor: (zero Bool, neg Bool, half: bool))
    straight from the property statements."""
    s = alg.signs
    sz, sn = s.zf(kx, ky), s.nf(kx, ky)
    gx, gy, gk = _grade(kx), _grade(ky), _grade(kx ^ ky)
    nz = z3.Not(sz)
    if op == 'gp':      # C02: every pair whose table sign is non-zero
        return nz, kx ^ ky, sn
    if op == 'op':      # C03: grade r+s part
        return z3.And(nz, gk == gx + gy), kx ^ ky, sn
    if op == 'ip':      # grade |r-s|
        return z3.And(nz, gk == z3.If(gx >= gy, gx - gy, gy - gx)), kx ^ ky, sn
    if op == 'lc':      # grade s-r
        return z3.And(nz, gk == gy - gx), kx ^ ky, sn
    if op == 'rc':      # grade r-s
        return z3.And(nz, gk == gx - gy), kx ^ ky, sn
    if op == 'sp':      # grade 0
        return z3.And(nz, gk == 0), kx ^ ky, sn
    raise KeyError(op)


def vc_product_operator(H, op):
    """codegen_<op>(x, y) must call codegen_product(x, y, ...) with closures whose meaning on every pair of
    valid keys is the one the property statement gives."""
    fuc = H.fn(REL, f'codegen_{op}')
    ip_fuc = H.fn(REL, 'codegen_ip') if op in ('lc', 'rc', 'sp') else None

    def body(ctx):
        alg = SymAlgebra(ctx)
        x = SymMV(ctx, 'x', alg)
        y = SymMV(ctx, 'y', alg)
        interp = Interp(ctx, source_name=REL)

        class ProductStub:
            def kvc_call(self, interp, *a, **kw):
                names = ['x', 'y', 'filter_func', 'sign_func', 'keyout_func']
                b = dict(zip(names, a))
                b.update(kw)
                return ProductResult(b.get('x'), b.get('y'), b.get('filter_func'), b.get('sign_func'),
                                     b.get('keyout_func'))
        extra = {'codegen_product': ProductStub(), 'abs': abs}
        if ip_fuc is not None:
            extra['codegen_ip'] = H.closure(interp, ip_fuc, extra)     # 2-line helper: inlined
        clo = H.closure(interp, fuc, extra)
        r = clo(x, y)
        if not isinstance(r, ProductResult):
            ctx.oblige('post: returns codegen_product(...)', False)
            return r
        ctx.oblige('post: operands passed in order (x, y)', r.x is x and r.y is y)
        # generic pair of valid keys
        kx = SKey.fresh('kx', 0, (1 << W) - 1)
        ky = SKey.fresh('ky', 0, (1 << W) - 1)
        ctx.assume(z3.And(alg.valid_key(kx), alg.valid_key(ky)))
        for a in table_facts(alg, [(kx.t, ky.t), (ky.t, kx.t)]):
            ctx.assume(a)
        for a in LF.instances(kx.t, ky.t):          # proved lemmas (lemmas/filters.py), opaque grade
            ctx.assume(a)
        N = alg.N
        # --- code side
        sign = interp.call(r.sign_func, [(kx, ky)], {}) if r.sign_func is not None else alg.signs.at(kx, ky)
        if isinstance(sign, int):
            sign = SSign.const(sign)
        if not isinstance(sign, SSign):
            raise OutOfSubset('sign_func result is not a sign value')
        ko = interp.call(r.keyout_func, [kx, ky], {}) if r.keyout_func is not None else (kx ^ ky)
        code_sel = z3.Not(sign.z)
        if r.filter_func is not None:
            # evaluated under `sign != 0`, as in codegen_product (filter is only called for non-zero signs)
            mark = len(ctx.pc)
            ctx.pc.append(code_sel)
            f = interp.symtruth(interp.call(r.filter_func, [kx, ky, ko], {}))
            ctx.truncate_pc(mark)
            if f is None:
                raise OutOfSubset('filter_func result has no truth value')
            code_sel = z3.And(code_sel, f.t if isinstance(f, SBool) else z3.BoolVal(f))
        # --- spec side
        if op in ('gp', 'op', 'ip', 'lc', 'rc', 'sp'):
            sel, key, neg = spec_pair(op, alg, kx.t, ky.t)
            ctx.oblige(f'{op}: pair selected  <=>  property statement', code_sel == sel)
            ctx.oblige(f'{op}: output blade', z3.Implies(sel, _askey_t(ko) == key))
            ctx.oblige(f'{op}: sign', z3.Implies(sel, sign.n == neg))
        elif op in ('cp', 'acp'):
            # C03: a.cp(b) = (ab - ba)/2, a.acp(b) = (ab + ba)/2 ; coefficient of the pair on blade kx^ky:
            # (s_xy -/+ s_yx)/2 * vx*vy ; blade present iff that factor is non-zero.
            sxy = alg.signs.at(kx, ky).asint()
            syx = alg.signs.at(ky, kx).asint()
            comb = (sxy - syx) if op == 'cp' else (sxy + syx)
            sel = comb != 0
            ctx.oblige(f'{op}: pair selected  <=>  (s_xy {"-" if op == "cp" else "+"} s_yx) != 0', code_sel == sel)
            ctx.oblige(f'{op}: output blade', z3.Implies(sel, _askey_t(ko) == (kx.t ^ ky.t)))
            ctx.oblige(f'{op}: sign == (s_xy {"-" if op == "cp" else "+"} s_yx)/2',
                       z3.Implies(sel, 2 * sign.asint() == comb))
        elif op == 'rp':
            # C05: a & b = unhodge(hodge(a) ^ hodge(b)), blade-wise:
            #  hodge(E_k) = s(k, c k) E_{c k};  E_a ^ E_b = s(a,b) E_{a^b} if a&b == 0 (and s != 0) else 0;
            #  unhodge(E_m) = s(c m, m) E_{c m};  c k = pss - k.
            pss = N.t - 1
            c = lambda k: pss - k
            S = alg.signs
            for a in table_facts(alg, [(kx.t, c(kx.t)), (ky.t, c(ky.t)), (c(kx.t), c(ky.t)),
                                        (c(c(kx.t) ^ c(ky.t)), c(kx.t) ^ c(ky.t))]):
                ctx.assume(a)
            hx = S.at(SKey(kx.t, 0, 1 << W), SKey(c(kx.t), 0, 1 << W))
            hy = S.at(SKey(ky.t, 0, 1 << W), SKey(c(ky.t), 0, 1 << W))
            a_, b_ = c(kx.t), c(ky.t)
            for a in LF.instances(a_, b_):
                ctx.assume(a)
            w = SSign(S.zf(a_, b_), S.nf(a_, b_))
            m = a_ ^ b_
            u = SSign(S.zf(c(m), m), S.nf(c(m), m))
            wedge_sel = z3.And(z3.Not(w.z), _grade(m) == _grade(a_) + _grade(b_))
            total = hx * hy * w * u
            sel = z3.And(wedge_sel, z3.Not(total.z))
            ctx.oblige('rp: pair selected  <=>  unhodge(hodge ^ hodge) term is non-zero', code_sel == sel)
            ctx.oblige('rp: output blade == complement of (c kx ^ c ky)', z3.Implies(sel, _askey_t(ko) == c(m)))
            ctx.oblige('rp: sign == product of the three duality signs and the wedge sign',
                       z3.Implies(sel, sign.n == total.n))
        return r
    H.run_paths(fuc, '', body)


def _askey_t(k):
    if isinstance(k, SKey):
        return k.t
    if isinstance(k, int):
        return z3.BitVecVal(k, WB)
    raise OutOfSubset('output key is not an int')


def table_facts(alg, pairs):
    """Facts about algebra.signs that the operator VCs may assume.  Each is a consequence of the table
    contract T-signs (contracts/algebra_c.py) and the lemma library:
       zero-symmetry  signs[I,J] == 0  <=>  signs[J,I] == 0      (L-zero)
       disjoint       I & J == 0  =>  signs[I,J] != 0            (L-disjoint)
    They are recorded as `assumed: T-signs` in the evidence of the properties that use them and proved
    in C01's check."""
    out = []
    for a, b in pairs:
        out.append(alg.signs.zf(a, b) == alg.signs.zf(b, a))
        out.append(z3.Implies((a & b) == 0, z3.Not(alg.signs.zf(a, b))))
        # commutation (L-comm-parity; the orientation factors o(I)o(J)o(I^J) of a custom basis are the same on both sides):
        #   signs[I,J] signs[J,I] = (-1)^(|I||J| - |I&J|)   whenever non-zero
        pa, pb, pab = SB.z_popcount(a, W), SB.z_popcount(b, W), SB.z_popcount(a & b, W)
        out.append(z3.Implies(z3.Not(alg.signs.zf(a, b)),
                              z3.Xor(alg.signs.nf(a, b), alg.signs.nf(b, a)) == (z3.Extract(0, 0, pa * pb - pab) == 1)))
    return out
