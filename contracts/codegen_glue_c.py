"""Sidecar contracts for the glue of kingdon/codegen.py: do_codegen (canonical re-sort, pairing, naming, binding) and
func_builder (source text -> positional unpacking).  These carry C02/C08 from the codegen dicts to the generated function."""
import ast
import string
import z3

from kvc.values import SBool, SKey, SInt, OutOfSubset, mkbool, WB
from kvc.engine import Interp, PathEnd
from kvc.models import SymSeq, CompSeq, CompPart, FunDict, MathVal, W, sint
from kvc.rec import Rec, sym, same

REL = 'kingdon/codegen.py'


class _Name:
    def __init__(self, k):
        self.k = k


def vc_do_codegen(H):
    """do_codegen(codegen, a, b) for a codegen function returning a dict keyed by blade (any key set, any order):
    * the result is re-sorted into canonical blade order: element i of the sorted dict is (k_i, res[k_i]) for the i-th canonical
      blade k_i that is a key of res (keys and expressions stay paired);
    * funcname == codegen.__name__ + '_' + '_x_'.join(_type_id(mv)), args == {'A': a.values(), 'B': b.values()} (positional
      letters in operand order);
    * not cse and string-valued -> func_builder(sorted dict, a, b, funcname=..), else lambdify(args, exprs, funcname, cse, None)
      and CodegenOutput(keys, func) with keys/exprs the two halves of the same sorted dict."""
    fuc = H.fn(REL, 'do_codegen')

    def body(ctx):
        N = SKey.fresh('alg_N', 1, 1 << W)
        ctx.assume(N.range_constraint())
        bv = z3.BitVecSort(WB)
        P0 = z3.Function('res_has', bv, z3.BoolSort())
        V0 = z3.Function('res_expr', bv, z3.RealSort())
        nbl = SInt(z3.Int('n_blades'))
        kf = z3.Function('blade_at', z3.IntSort(), bv)

        def c2b_get(i):
            k = SKey(kf(sint(i).t), 0, (1 << W) - 1)
            ctx.assume(z3.And(k.t >= 0, k.t < N.t))
            return (_Name(k), k)
        items = SymSeq(None, nbl, c2b_get, 'items')
        cse = SBool(z3.Bool('algebra_cse'))
        alg = sym('algebra', attrs={'canon2bin': sym('canon2bin', attrs={'items': sym('items', callable_result=lambda i, m, a, k: items)}), 'cse': cse})
        a = sym('a', attrs={'algebra': alg, 'values': sym('a.values', callable_result=lambda i, m, x, k: 'A-VALUES')})
        b = sym('b', attrs={'algebra': alg, 'values': sym('b.values', callable_result=lambda i, m, x, k: 'B-VALUES')})
        res0 = FunDict(lambda q: P0(q), lambda q: MathVal(V0(q), False))
        codegen = sym('codegen', attrs={'__name__': 'cg'}, callable_result=lambda i, m, x, k: res0)
        calls = {}
        fb = sym('func_builder', callable_result=lambda i, m, x, k: calls.setdefault('fb', (x, k)) and ('CodegenOutput-from-func_builder',))
        lam = sym('lambdify', callable_result=lambda i, m, x, k: calls.setdefault('lam', (x, k)) and 'FUNC')
        env = {'func_builder': fb, 'lambdify': lam, 'string': string,
               '_type_id': sym('_type_id', callable_result=lambda i, m, x, k: 'T' + x[0].parts[0].upper()),
               'CodegenOutput': type('CodegenOutputCls', (), {'__call__': None}), 'LambdifyInput': type('LambdifyInputCls', (), {})}
        made = []

        class COut:
            def kvc_call(self, interp, keys, func):
                made.append((keys, func))
                return ('CodegenOutput', keys, func)

            def kvc_instancecheck(self, interp, v):
                return isinstance(v, tuple) and v and v[0] == 'CodegenOutput'

        class LIn:
            def kvc_instancecheck(self, interp, v):
                return False
        env['CodegenOutput'] = COut()
        env['LambdifyInput'] = LIn()
        interp = Interp(ctx, source_name=REL)
        r = H.closure(interp, fuc, env)(codegen, a, b)
        cs = [e for e in ctx.events if e[0] == 'call' and e[1] is codegen]
        ctx.oblige('codegen is called once with the operands in order', len(cs) == 1 and same(tuple(cs[0][2]), (a, b)))

        def check_sorted(d, what):
            ok = isinstance(d, CompSeq) and d.kind == 'dict' and d.src is items
            if not ok:
                # re-sorted some other way (sorted() with a key, a loop, ..): this contract reads one dict comprehension over
                # the canonical blade sequence only -> undecided, the bounded stand-ins decide
                raise OutOfSubset(f'{what}: the codegen dict is not re-sorted by one dict comprehension over algebra.canon2bin (contract does not apply)')
            ctx.oblige(f'{what}: is the codegen dict re-sorted over the canonical blade sequence', True)
            i = SInt(z3.Int('i'))
            ctx.assume(z3.And(i.t >= 0, i.t < nbl.t))
            cond, (k, v) = d.at(i)
            ki = kf(i.t)
            ct = cond.t if isinstance(cond, SBool) else z3.BoolVal(bool(cond))
            ctx.oblige(f'{what}: the i-th canonical blade is kept  <=>  it is a key of the codegen result', ct == P0(ki))
            ctx.oblige(f'{what}: kept under its own key', z3.Implies(ct, (k.t if isinstance(k, SKey) else z3.BitVecVal(k, WB)) == ki))
            ctx.oblige(f'{what}: with its own expression (keys and expressions stay paired)',
                       z3.Implies(ct, z3.BoolVal(isinstance(v, MathVal)) if not isinstance(v, MathVal) else v.den == V0(ki)))
        use_cse = ctx.decide(cse.t)
        if 'fb' in calls:
            x, k = calls['fb']
            ctx.oblige('func_builder only without cse', not use_cse)
            ctx.oblige('func_builder(sorted dict, a, b, funcname=cg_TA_x_TB)', len(x) == 3 and same(tuple(x[1:]), (a, b)) and k == {'funcname': 'cg_TA_x_TB'},
                       meta={'got': repr((x[1:], k))})
            if len(x) >= 1:
                check_sorted(x[0], 'func_builder')
            ctx.oblige('returns what func_builder returns', r == ('CodegenOutput-from-func_builder',))
        elif 'lam' in calls:
            x, k = calls['lam']
            allargs = list(x) + [k.get(n) for n in ('args', 'exprs') if n in k]
            args_ = k.get('args', x[0] if x else None)
            exprs = k.get('exprs', x[1] if len(x) > 1 else None)
            ctx.oblige("lambdify args == {'A': a.values(), 'B': b.values()} in operand order",
                       isinstance(args_, dict) and list(args_.items()) == [('A', 'A-VALUES'), ('B', 'B-VALUES')], meta={'got': repr(args_)})
            ctx.oblige('lambdify funcname == cg_TA_x_TB, dependencies None', k.get('funcname') == 'cg_TA_x_TB' and k.get('dependencies') is None)
            ct = k.get('cse')
            ctx.oblige('lambdify cse == algebra.cse', ct is cse or ct == use_cse)
            okp = isinstance(exprs, CompPart) and exprs.part == 'values' and len(made) == 1 and isinstance(made[0][0], CompPart) \
                and made[0][0].part == 'keys' and made[0][0].base is exprs.base and made[0][1] == 'FUNC'
            if not okp:
                raise OutOfSubset('do_codegen: keys and the expressions given to lambdify are not the keys() / values() of one dict (contract does not apply)')
            ctx.oblige('CodegenOutput(keys, func): keys and the expressions given to lambdify are the two halves of one sorted dict', True)
            check_sorted(exprs.base, 'lambdify')
            ctx.oblige('returns CodegenOutput(keys, func)', isinstance(r, tuple) and r[0] == 'CodegenOutput')
        else:
            ctx.oblige('a function is built (func_builder or lambdify)', False)
        return r
    H.run_paths(fuc, 'dict result', body)

    # pass-through cases
    def body2(ctx):
        out = ('CodegenOutput', 'K', 'F')

        class COut:
            def kvc_instancecheck(self, interp, v):
                return v is out
        codegen = sym('codegen', callable_result=lambda i, m, x, k: out)
        a = sym('a', attrs={'algebra': sym('algebra')})
        r = H.closure(Interp(ctx, source_name=REL), fuc, {'CodegenOutput': COut(), 'LambdifyInput': COut()})(codegen, a)
        ctx.oblige('a CodegenOutput returned by codegen is passed through unchanged', r is out)
    H.run_paths(fuc, 'CodegenOutput result', body2)


def vc_func_builder(H):
    """func_builder: the emitted source must PARSE (Python's own parser) as
         def <funcname>(A, B, ..):  [<symbols of operand j, in order>] = <letter j> ...  return [<expressions in dict order>]
       and the returned keys are the dict keys in the same order.  Checked on the structure of the parsed source, not on its
       layout, for concrete symbol names / expression texts (the function is uniform in their number)."""
    fuc = H.fn(REL, 'func_builder')
    shapes = [
        ({5: 'a1*b2-a2*b1', 0: 'a1*b1+a2*b2'}, [['a1', 'a2'], ['b1', 'b2']]),
        ({3: '-a*b12'}, [['a'], ['b12']]),
        ({7: 'x', 1: 'y', 2: '-x'}, [['x', 'y', 'z']]),
        ({}, [['a1'], ['b1']]),
        ({1: 'a1'}, [['a1', 'a2', 'a3'], ['b1'], ['c1', 'c2']]),
    ]
    for res_vals, symlists in shapes:
        def body(ctx, res_vals=res_vals, symlists=symlists):
            captured = {}
            the_func = sym('compiled-function')

            def m_compile(src, filename, mode):
                captured['src'] = src
                return ('code', src)

            def m_exec(code, glob, loc):
                captured['globals'] = glob
                tree = ast.parse(code[1])
                loc[tree.body[0].name] = the_func
            mvs = [sym(f'mv{j}', attrs={'values': sym('values', callable_result=lambda i, m, a, k, sl=sl: list(sl))}) for j, sl in enumerate(symlists)]
            linecache = sym('linecache', attrs={'cache': sym('linecache.cache')})
            env = {'compile': m_compile, 'exec': m_exec, 'linecache': linecache, 'string': string,
                   'CodegenOutput': lambda keys, func: ('CodegenOutput', keys, func)}
            r = H.closure(Interp(ctx, source_name=REL), fuc, env)(dict(res_vals), *mvs, funcname='fname')
            src = captured.get('src')
            ok = isinstance(src, str)
            ctx.oblige('source is compiled once', bool(ok))
            if not ok:
                return r
            try:
                tree = ast.parse(src)
                fd = tree.body[0]
                letters = list(string.ascii_uppercase[:len(mvs)])
                good = isinstance(fd, ast.FunctionDef) and fd.name == 'fname' and [x.arg for x in fd.args.args] == letters
                unpack = {}
                ret = None
                for st in fd.body:
                    if isinstance(st, ast.Assign) and isinstance(st.targets[0], (ast.List, ast.Tuple)) and isinstance(st.value, ast.Name):
                        unpack[st.value.id] = [ast.unparse(e) for e in st.targets[0].elts]
                    elif isinstance(st, ast.Return):
                        ret = st.value
                    else:
                        good = False
                if res_vals:
                    good = good and unpack == {l: sl for l, sl in zip(letters, symlists)}
                    good = good and isinstance(ret, (ast.List, ast.Tuple)) and [ast.unparse(e) for e in ret.elts] == [ast.unparse(ast.parse(v, mode='eval').body) for v in res_vals.values()]
                else:
                    good = good and ret is not None and eval(compile(ast.Expression(ret), '<r>', 'eval')) == []
            except SyntaxError:
                good = False
            ctx.oblige('parsed source: def fname(A, B, ..) unpacking operand j into its symbols in order and returning the expressions in dict order',
                       bool(good), meta={'source': src})
            ctx.oblige('returns CodegenOutput(keys in the same order, the compiled function)',
                       isinstance(r, tuple) and r[0] == 'CodegenOutput' and tuple(r[1]) == tuple(res_vals.keys()) and r[2] is the_func)
            ctx.oblige('generated code is executed with an empty global namespace (no name capture)', captured.get('globals') == {})
            return r
        H.run_paths(fuc, f'{len(res_vals)} outputs, {len(symlists)} operands', body)
