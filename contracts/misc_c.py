"""Sidecar contracts for C18 (asmatrix / frommatrix), C19 (outer exponential family, powers) and C20 (graph widget
derived properties and write-back)."""
import z3

from kvc.values import SBool, SKey, SInt, OutOfSubset
from kvc.engine import Interp, PathEnd
from kvc.models import SymSeq, CompSeq, EnumSeq, W, sint
from kvc.rec import Rec, sym, same

MV = 'kingdon/multivector.py'
CG = 'kingdon/codegen.py'
GR = 'kingdon/graph.py'


# ------------------------------------------------------------------ C18
def vc_asmatrix(H):
    """asmatrix() == sum over stored (k, v) of v * matrix_basis[canonical position of k]  (linear in the coefficients; with the
    basis-pair table M_I M_J = signs[I,J] M_{I^J} -- bounded stand-in -- and bilinearity (C02) it is a homomorphism);
    frommatrix reads column 0 as the full coefficient list."""
    fuc = H.fn(MV, 'MultiVector.asmatrix')
    canon = [0, 1, 2, 4, 3, 5, 6, 7]           # canonical key order of a 3-generator default basis (grade, then name)
    for keys in ([6, 0, 4], list(range(8)), list(canon), []):
        def body(ctx, keys=keys):
            vals = [sym(f'v{i}') for i in range(len(keys))]
            mb = sym('matrix_basis', iterable=[sym(f'M{i}') for i in range(8)])
            mb.on_getitem = lambda interp, me, idx: me.iterable[idx] if isinstance(idx, int) else Rec('item', me, idx)
            c2b = sym('canon2bin', attrs={'values': sym('values', callable_result=lambda i, m, a, k: list(canon))})
            alg = sym('algebra', attrs={'canon2bin': c2b, 'matrix_basis': mb})
            alg.kvc_len = lambda: 8
            me = sym('self', attrs={'algebra': alg, 'items': sym('items', callable_result=lambda i, m, a, k: list(zip(keys, vals))),
                                    'values': sym('values', callable_result=lambda i, m, a, k: list(vals)),
                                    'keys': sym('keys', callable_result=lambda i, m, a, k: tuple(keys))})
            me.kvc_len = lambda: len(keys)
            r = H.closure(Interp(ctx, source_name=MV), fuc)(me)
            # expected: the multiset of terms {(coefficient i, basis matrix at the canonical position of key i)}
            terms = []

            def flat(x):
                if isinstance(x, Rec) and x.kind == 'binop' and x.parts[0] == 'Add':
                    flat(x.parts[1]); flat(x.parts[2])
                elif isinstance(x, int) and x == 0:
                    pass
                else:
                    terms.append(x)
            flat(r)
            got = []
            ok = True
            for t in terms:
                if isinstance(t, Rec) and t.kind == 'binop' and t.parts[0] == 'Mult':
                    got.append((repr(t.parts[1]), repr(t.parts[2])))
                else:
                    ok = False
            exp = sorted((repr(v), repr(mb.iterable[canon.index(k)])) for k, v in zip(keys, vals))
            ctx.oblige('asmatrix: sum over the stored blades of coefficient * basis matrix at the canonical position of that blade',
                       ok and sorted(got) == exp, meta={'got': sorted(got), 'expected': exp})
            return r
        H.run_paths(fuc, f'd=3,keys={tuple(keys)}', body)
    f2 = H.fn(MV, 'MultiVector.frommatrix')

    def body2(ctx):
        cls = sym('cls', callable_result=lambda i, m, a, k: ('MV', a, k))
        alg, mat = sym('algebra'), sym('matrix')
        r = H.closure(Interp(ctx, source_name=MV), f2)(cls, alg, mat)
        ok = isinstance(r, tuple) and r[0] == 'MV' and not r[1] and r[2].get('algebra') is alg \
            and same(r[2].get('values'), Rec('item', mat, (Ellipsis, 0))) and set(r[2]) == {'algebra', 'values'}
        ctx.oblige('frommatrix: the full multivector whose values are column 0 of the matrix (canonical order)', bool(ok), meta={'got': repr(r)})
        return r
    H.run_paths(f2, '', body2)


# ------------------------------------------------------------------ C19
class _Wedge(Rec):
    pass


def vc_outerexp(H):
    """codegen_outerexp: Ws[j] = (Ws[j-1] ^ x) / j, i.e. x^(wedge j)/j!, for j = 2..d, stopping early only when a term is empty
    (then all later terms vanish); result = sum of the terms (asterms: the list).  outersin / outercos are the odd / even terms,
    outertan = outersin / outercos."""
    fe = H.fn(CG, 'codegen_outerexp')
    import functools
    import operator
    import warnings as _w

    def world(ctx, d, stop_at):
        one = sym('scalar-one')
        alg = sym('algebra', attrs={'d': d, 'scalar': sym('alg.scalar', callable_result=lambda i, m, a, k: one if a and a[0] == [1] else sym('bad-scalar'))})
        terms = {}

        def mk(name, level):
            r = sym(name, attrs={'algebra': alg, 'grades': (2,), '_values': (sym(name + '.v0'), sym(name + '.v1'))},
                    truth=(level < stop_at))

            def binop(interp, op, other, reflected):
                if op == 'BitXor' and not reflected and other is x:
                    nxt = mk(f'({name} ^ x)', level + 1)
                    nxt.level = level + 1
                    nxt.parent = r
                    return nxt
                interp.ctx.event('binop', op, r, other)
                return Rec('binop', op, (other if reflected else r), (r if reflected else other))
            r.kvc_binop = binop
            r.level = level
            return r
        x = mk('x', 1)
        warn = sym('warnings', attrs={'warn': sym('warn', callable_result=lambda i, m, a, k: None)})
        return alg, one, x, warn
    for d in (0, 1, 2, 3, 5):
        for stop_at in (99, 3):
            def body(ctx, d=d, stop_at=stop_at):
                alg, one, x, warn = world(ctx, d, stop_at)
                interp = Interp(ctx, source_name=CG)
                r = H.closure(interp, fe, {'warnings': warn, 'reduce': functools.reduce, 'operator': operator})(x, asterms=True)
                ok = isinstance(r, list) and len(r) >= 2 and r[0] is one and r[1] is x
                ctx.oblige('outerexp terms start with 1, x', bool(ok))
                if not ok:
                    return r
                exp_len = 2 + max(0, min(d, stop_at - 1) - 1) if d >= 2 else 2
                ctx.oblige('outerexp: one term per power up to d, unless a term is empty (then it and all later ones are dropped)',
                           len(r) == exp_len, meta={'got': len(r), 'expected': exp_len})
                for j in range(2, len(r)):
                    t = r[j]
                    good = getattr(t, 'level', None) == j and getattr(t, 'parent', None) is r[j - 1]
                    vals = t.attrs.get('_values') if isinstance(t, Rec) else None
                    gv = isinstance(vals, tuple) and len(vals) == 2 and all(
                        isinstance(v, Rec) and v.kind == 'binop' and v.parts[0] == 'Div' and v.parts[2] == j for v in vals)
                    ctx.oblige(f'outerexp: term {j} is (term {j - 1} ^ x) with every coefficient divided by {j}', bool(good and gv),
                               meta={'got': repr(vals)})
                return r
            H.run_paths(fe, f'd={d},terms-vanish-from={stop_at}', body)
    # sum / odd / even / tan, with the term list abstracted
    for fn, sel in (('codegen_outerexp', slice(None)), ('codegen_outersin', slice(1, None, 2)), ('codegen_outercos', slice(0, None, 2)), ('codegen_outertan', None)):
        fuc = H.fn(CG, fn)

        def body(ctx, fn=fn, sel=sel, fuc=fuc):
            ws = [sym(f'W{i}') for i in range(5)]
            xx = sym('x', attrs={'algebra': sym('algebra', attrs={'d': 4, 'scalar': sym('s', callable_result=lambda i, m, a, k: ws[0])}), 'grades': (2,)})
            stub = sym('codegen_outerexp', callable_result=lambda i, m, a, k: list(ws))
            env = {'reduce': functools.reduce, 'operator': operator}
            if fn != 'codegen_outerexp':
                env['codegen_outerexp'] = stub
                r = H.closure(Interp(ctx, source_name=CG), fuc, env)(xx)
            else:
                return None
            add = lambda items: functools.reduce(lambda a, b: Rec('binop', 'Add', a, b), items)
            if sel is not None:
                ctx.oblige(f'{fn}: sum of the {"odd" if fn.endswith("sin") else "even"} terms', same(r, add(ws[sel])), meta={'got': repr(r)})
            else:
                ctx.oblige('outertan: (sum of odd terms) / (sum of even terms)', same(r, Rec('binop', 'Div', add(ws[1::2]), add(ws[0::2]))), meta={'got': repr(r)})
            calls = [e for e in ctx.events if e[0] == 'call' and e[1] is stub]
            ctx.oblige(f'{fn}: terms come from codegen_outerexp(x, asterms=True)', len(calls) == 1 and same(tuple(calls[0][2]), (xx,)) and calls[0][3] == {'asterms': True})
            return r
        if fn != 'codegen_outerexp':
            H.run_paths(fuc, '', body)


def vc_pow(H):
    """x**0 == scalar 1; x**n (n >= 1) is a product of n factors x; x**-n of n factors inverse(x); x**0.5 == sqrt(x); x**-0.5 the
    square root of the inverse.  The returned operator tree is *evaluated* to (base, number of factors): powers of one element
    associate and commute, so any bracketing (repeated multiplication, square-and-multiply) with the right count is accepted."""
    fuc = H.fn(MV, 'MultiVector.__pow__')
    for power in (0, 1, 2, 3, 4, 5, 6, 7, 9, 11, 12, -1, -3, -5, -6, 0.5):
        def body(ctx, power=power):
            one = sym('scalar-one')
            scal = []
            alg = sym('algebra', attrs={'scalar': sym('alg.scalar', callable_result=lambda i, m, a, k: scal.append(a) or one)})
            x = sym('x', attrs={'algebra': alg})
            r = H.closure(Interp(ctx, source_name=MV), fuc)(x, power)
            m = lambda o, name, *a: Rec('call', Rec('attr', o, name), tuple(a), {})
            if power == 0:
                ctx.oblige('x**0 is the scalar 1', r is one and len(scal) == 1 and tuple(scal[0]) == ((1,),))
                return r
            if power == 0.5:
                ctx.oblige('x**0.5 is sqrt(x)', same(r, m(x, 'sqrt')), meta={'got': repr(r)})
                return r
            base = x if power > 0 else m(x, 'inv')

            def count(t):
                """number of factors `base` in a product tree (None: not a pure product of the base)"""
                if isinstance(t, Rec) and same(t, base):
                    return 1
                if isinstance(t, Rec) and t.kind == 'call' and isinstance(t.parts[0], Rec) and t.parts[0].kind == 'attr' \
                        and t.parts[0].parts[1] in ('gp', '__mul__') and len(t.parts[1]) == 1 and not t.parts[2]:
                    a, b = count(t.parts[0].parts[0]), count(t.parts[1][0])
                    return None if a is None or b is None else a + b
                if isinstance(t, Rec) and t.kind == 'binop' and t.parts[0] == 'Mult':
                    a, b = count(t.parts[1]), count(t.parts[2])
                    return None if a is None or b is None else a + b
                return None
            n = count(r)
            if n is None:
                raise OutOfSubset(f'x**{power}: the result is not a product tree over one base: {r!r}')
            ctx.oblige(f'x**{power}: a product of exactly {abs(power)} factors {"x" if power > 0 else "inverse(x)"}', n == abs(power),
                       meta={'got': repr(r)[:300], 'factors': n})
            return r
        H.run_paths(fuc, f'power={power}', body)


# ------------------------------------------------------------------ C20
def vc_graph_derived(H):
    """GraphWidget.get_key2idx / get_signature / get_cayley describe the algebra: key -> canonical position; signature as ints;
    cayley[row J][column I] = algebra.cayley[name_J, name_I] with a trailing 'e' (the scalar) written as '1'."""
    fk = H.fn(GR, 'GraphWidget.get_key2idx')

    def body(ctx):
        n = SInt(z3.Int('n_blades'))
        ctx.assume(n.t >= 0)
        kf = z3.Function('blade_at', z3.IntSort(), z3.IntSort())
        vals = SymSeq(None, n, lambda i: SInt(kf(sint(i).t)), 'values')
        c2b = sym('canon2bin', attrs={'values': sym('values', callable_result=lambda i, m, a, k: vals)})
        me = sym('self', attrs={'algebra': sym('algebra', attrs={'canon2bin': c2b})})
        r = H.closure(Interp(ctx, source_name=GR), fk)(me)
        ok = isinstance(r, CompSeq) and r.kind == 'dict'
        if not ok:
            raise OutOfSubset('get_key2idx: not one dict comprehension over the canonical key sequence (contract does not apply)')
        ctx.oblige('key2idx is a dict built over the canonical key sequence', True)
        if ok:
            i = SInt(z3.Int('i'))
            ctx.assume(z3.And(i.t >= 0, i.t < n.t))
            cond, (k, v) = r.at(i)
            ctx.oblige('key2idx: every blade key maps to its canonical position', z3.And(z3.BoolVal(cond is True), k.t == kf(i.t), v.t == i.t))
        return r
    H.run_paths(fk, '', body)
    fs = H.fn(GR, 'GraphWidget.get_signature')

    def body2(ctx):
        sig = [sym('s0'), sym('s1'), sym('s2')]
        me = sym('self', attrs={'algebra': sym('algebra', attrs={'signature': sig})})
        r = H.closure(Interp(ctx, source_name=GR), fs, {'int': sym('int')})(me)
        ctx.oblige('signature: the algebra\'s entries in order, converted to int', isinstance(r, list) and len(r) == 3 and all(
            isinstance(x, Rec) and x.kind == 'call' and same(tuple(x.parts[1]), (s,)) for x, s in zip(r, sig)))
        return r
    H.run_paths(fs, '', body2)
    fc = H.fn(GR, 'GraphWidget.get_cayley')

    def body3(ctx):
        names = ['e', 'e1', 'e2', 'e12']
        table = {(a, b): f'{a}*{b}' for a in names for b in names}
        table['e', 'e'] = 'e'
        table['e1', 'e1'] = '-e'
        table['e1', 'e2'] = 'e12'
        table['e2', 'e1'] = '-e12'
        table['e12', 'e12'] = '0'
        me = sym('self', attrs={'algebra': sym('algebra', attrs={'canon2bin': {n: i for i, n in enumerate(names)}, 'cayley': table})})
        r = H.closure(Interp(ctx, source_name=GR), fc)(me)
        fix = lambda s: s if s[-1] != 'e' else s[:-1] + '1'
        exp = [[fix(table[eJ, eI]) for eI in names] for eJ in names]
        ctx.oblige("cayley: rows by left factor, columns by right factor, in canonical order; the scalar 'e' written '1'", r == exp,
                   meta={'got': repr(r)[:300]})
        return r
    H.run_paths(fc, '', body3)


def vc_graph_refresh(H):
    """C20 "dependent callables are re-evaluated": every computation of the payload evaluates the subjects afresh.
      get_subjects()              == walker(encode(<a new call of self._get_pre_subjects()>, root=True))
      _observe_draggable_points   writes the reported values into self.pre_subjects at draggable_points_idxs (inplacereplace),
                                  then sets self.subjects from a get_subjects() made after the write-back
      _handle_custom_msg(update_mvs) sets self.subjects from a new get_subjects()."""
    fg = H.fn(GR, 'GraphWidget.get_subjects')

    def body(ctx):
        calls = []
        fresh = sym('fresh-pre-subjects')
        stored = sym('stored-pre-subjects')
        me = sym('self', attrs={'_get_pre_subjects': sym('_get_pre_subjects', callable_result=lambda i, m, a, k: calls.append(('eval', a, k)) or fresh),
                                'pre_subjects': stored, 'raw_subjects': sym('raw'),
                                'draggable_points_idxs': sym('idxs', truth=SBool(z3.Bool('has_draggable_points')))})
        enc = sym('encode', callable_result=lambda i, m, a, k: Rec('call', m, tuple(a), dict(k)))
        wal = sym('walker', callable_result=lambda i, m, a, k: Rec('call', m, tuple(a), dict(k)))
        r = H.closure(Interp(ctx, source_name=GR), fg, {'encode': enc, 'walker': wal})(me)
        ok = (isinstance(r, Rec) and r.kind == 'call' and r.parts[0] is wal and len(r.parts[1]) == 1 and isinstance(r.parts[1][0], Rec)
              and r.parts[1][0].kind == 'call' and r.parts[1][0].parts[0] is enc)
        if not ok:
            raise OutOfSubset('get_subjects: the result is not walker(encode(..)) (contract does not apply)')
        ctx.oblige('get_subjects returns walker(encode(.., root=True))', True)
        if ok:
            e = r.parts[1][0]
            ctx.oblige('get_subjects encodes the result of a new evaluation of the subjects (self._get_pre_subjects() called now), as the root',
                       len(e.parts[1]) == 1 and e.parts[1][0] is fresh and len(calls) == 1 and e.parts[2].get('root') is True,
                       meta={'encoded': repr(e.parts[1])[:200], 'evaluations': len(calls)})
        return r
    H.run_paths(fg, '', body)
    fo = H.fn(GR, 'GraphWidget._observe_draggable_points')

    def body2(ctx):
        log = []
        payload = sym('new-payload', attrs={'copy': sym('copy', callable_result=lambda i, m, a, k: sym('payload-copy'))})
        pre = sym('pre_subjects')
        idxs = ['i0', 'i1']
        newv = ['n0', 'n1']
        me = sym('self', attrs={'pre_subjects': pre, 'draggable_points_idxs': idxs,
                                'inplacereplace': sym('inplacereplace', callable_result=lambda i, m, a, k: log.append(('replace', a, k)) or None),
                                'get_subjects': sym('get_subjects', callable_result=lambda i, m, a, k: log.append(('get_subjects',)) or payload)})
        H.closure(Interp(ctx, source_name=GR), fo, {'zip': zip})(me, {'new': newv, 'old': ['o0', 'o1']})
        rep = [x for x in log if x[0] == 'replace']
        ok = len(rep) == 1 and len(rep[0][1]) == 2 and rep[0][1][0] is pre
        pairs = list(rep[0][1][1]) if ok else None
        ctx.oblige('drag: the reported points are written into self.pre_subjects, paired with draggable_points_idxs in order',
                   bool(ok) and pairs == list(zip(idxs, newv)), meta={'got': repr(pairs)[:200]})
        order = [x[0] for x in log]
        ctx.oblige('drag: the payload is recomputed (get_subjects) after the write-back', order == ['replace', 'get_subjects'], meta={'order': order})
        sets = [e for e in ctx.events if e[0] == 'setattr' and e[2] == 'subjects']
        ctx.oblige('drag: self.subjects is set from that recomputed payload', len(sets) == 1 and isinstance(sets[0][3], Rec) and (sets[0][3] is payload or sets[0][3].parts[0] == 'payload-copy'),
                   meta={'got': repr(sets)[:200]})
    H.run_paths(fo, '', body2)
    fh = H.fn(GR, 'GraphWidget._handle_custom_msg')

    def body3(ctx):
        log = []
        payload = sym('new-payload')
        me = sym('self', attrs={'get_subjects': sym('get_subjects', callable_result=lambda i, m, a, k: log.append('get_subjects') or payload)})
        H.closure(Interp(ctx, source_name=GR), fh)(me, {'type': 'update_mvs'}, [])
        sets = [e for e in ctx.events if e[0] == 'setattr' and e[2] == 'subjects']
        ctx.oblige('update_mvs: self.subjects is set from a new get_subjects()', log == ['get_subjects'] and len(sets) == 1 and sets[0][3] is payload)
    H.run_paths(fh, 'update_mvs', body3)


def vc_inplacereplace(H):
    """When the front end reports moved points, exactly the corresponding coefficients of the original multivectors are
    overwritten in place: a sparse (or non-canonically ordered) subject reads new_vals[key2idx[key]] for each of its own keys; a
    canonical full subject reads position by position; unchanged values are not written; other subjects are untouched."""
    fuc = H.fn(GR, 'GraphWidget.inplacereplace')
    canon = (0, 1)

    def body(ctx):
        key2idx = {0: 0, 1: 1}
        alg = sym('algebra', attrs={'canon2bin': sym('c2b', attrs={'values': sym('values', callable_result=lambda i, m, a, k: canon)})})
        alg.kvc_len = lambda: 2
        stores = []

        class Vals:
            def __init__(self, name, n):
                self.name, self.n = name, n
                self.cells = [sym(f'{name}[{i}]') for i in range(n)]

            def kvc_len(self):
                return self.n

            def kvc_getitem(self, interp, i):
                return self.cells[i]

            def kvc_setitem(self, interp, i, v):
                stores.append((self.name, i, v))
        changed = {}

        def neq(interp, me, other):
            key = (repr(me), repr(other))
            if key not in changed:
                changed[key] = SBool(z3.Bool(f'same_{len(changed)}'))
            return changed[key]
        full = sym('subj-full', attrs={'_values': Vals('full', 2), '_keys': canon})
        sparse = sym('subj-sparse', attrs={'_values': Vals('sparse', 1), '_keys': (1,)})
        permuted = sym('subj-permuted-full', attrs={'_values': Vals('perm', 2), '_keys': (1, 0)})
        other = sym('subj-other', attrs={'_values': Vals('other', 1), '_keys': (0,)})
        for s in (full, sparse, permuted, other):
            for c in s.attrs['_values'].cells:
                c.on_eq = neq
        new = {0: [sym(f'n0[{i}]') for i in range(2)], 2: [sym(f'n2[{i}]') for i in range(2)], 3: [sym(f'n3[{i}]') for i in range(2)]}
        me = sym('self', attrs={'algebra': alg, 'key2idx': key2idx})
        old = [full, other, sparse, permuted]
        H.closure(Interp(ctx, source_name=GR), fuc, {'tuple': tuple})(me, old, [(0, {'mv': new[0]}), (2, {'mv': new[2]}), (3, {'mv': new[3]})])
        exp = {}
        for i in range(2):
            exp[('full', i)] = new[0][i]
        exp[('sparse', 0)] = new[2][1]
        for j, k in enumerate((1, 0)):
            exp[('perm', j)] = new[3][k]
        ok = all((nm, i) in exp and v is exp[(nm, i)] for nm, i, v in stores)
        ctx.oblige('write-back: every written coefficient receives the value the front end sent for its own blade; the untouched subject is not written',
                   bool(ok), meta={'stores': repr(stores)})
        # each addressed coefficient is either written with the new value or was equal to it (the `!=` test); all addressed ones are visited
        visited = set(changed)
        need = {(repr(full.attrs['_values'].cells[i]) if nm == 'full' else repr(sparse.attrs['_values'].cells[i]) if nm == 'sparse' else repr(permuted.attrs['_values'].cells[i]), repr(v))
                for (nm, i), v in exp.items()}
        ctx.oblige('write-back: every addressed coefficient is compared with its new value', need <= visited, meta={'missing': repr(need - visited)})
        written = {(nm, i) for nm, i, v in stores}
        for (a, b), flag in changed.items():
            pass
        return None
    H.run_paths(fuc, 'full+sparse+permuted-full', body)


def vc_encode(H):
    """encode / walker (recursive generator functions, interpreted with eager generators): for concrete subject trees with
    opaque multivectors, walker(encode(tree, root=True)) must be the tree with
      * every multivector replaced by {'mv': its values (a copy / a float64 buffer for ndarrays)} plus 'keys' unless its keys are
        exactly the canonical full key tuple,
      * an array-valued multivector expanded into the payloads of its elements (itermv order),
      * a zero-argument callable replaced by the encoding of its value, lists and tuples keeping their nesting, other values kept.
    Bounded in tree shapes (listed), unbounded in coefficient values."""
    import types
    fe = H.fn(GR, 'encode')
    fw = H.fn(GR, 'walker')
    canon = (0, 1, 2, 3)

    def world(ctx):
        alg = sym('algebra', attrs={'canon2bin': sym('c2b', attrs={'values': sym('values', callable_result=lambda i, m, a, k: canon)})})
        alg.kvc_len = lambda: 4
        MVc = sym('MultiVector')
        nd = sym('ndarray')
        np_ = sym('np', attrs={'ndarray': nd})

        def mv(name, keys, kind='list', elements=None):
            if kind == 'list':
                vals = sym(f'{name}._values', attrs={'copy': sym('copy', callable_result=lambda i, m, a, k: ('COPY', name))})
            else:
                vals = sym(f'{name}._values', isinstance_of=('ndarray',), attrs={'tobytes': sym('tobytes', callable_result=lambda i, m, a, k: ('BYTES', name))})
            o = sym(name, attrs={'algebra': alg, '_keys': tuple(keys), '_values': vals,
                                 'shape': (len(keys),) if elements is None else (len(keys), len(elements)),
                                 'itermv': sym('itermv', callable_result=lambda i, m, a, k: list(elements or []))},
                    isinstance_of=('MultiVector',))
            o.kvc_len = lambda: len(keys)
            return o
        return alg, MVc, np_, mv

    def payload(name, keys, kind='list'):
        d = {'mv': ('COPY', name) if kind == 'list' else ('BYTES', name)}
        if tuple(keys) != canon:
            d['keys'] = tuple(keys)
        return d
    scenarios = ['flat', 'nested', 'callable', 'array-valued', 'layouts']
    for sc in scenarios:
        def body(ctx, sc=sc):
            alg, MVc, np_, mv = world(ctx)
            interp = Interp(ctx, source_name=GR)
            env = {'MultiVector': MVc, 'np': np_, 'Callable': sym('Callable'), 'GeneratorType': types.GeneratorType, 'TREE_TYPES': (list, tuple)}
            walker = H.closure(interp, fw, env)
            env['walker'] = walker
            encode = H.closure(interp, fe, env)
            env['encode'] = encode
            a, b = mv('a', (1, 2)), mv('b', (3,))
            if sc == 'flat':
                tree = [0xff0000, a, 'label', b]
                exp = [0xff0000, payload('a', (1, 2)), 'label', payload('b', (3,))]
            elif sc == 'nested':
                tree = [a, [b, (a, 'x')], (b,)]
                exp = [payload('a', (1, 2)), [payload('b', (3,)), [payload('a', (1, 2)), 'x']], [payload('b', (3,))]]
            elif sc == 'callable':
                f1 = sym('thunk', isinstance_of=('Callable',), callable_result=lambda i, m, x, k: [a, b])
                f2 = sym('thunk2', isinstance_of=('Callable',), callable_result=lambda i, m, x, k: a)
                tree = [f1, 7, f2]
                exp = [[payload('a', (1, 2)), payload('b', (3,))], 7, payload('a', (1, 2))]
            elif sc == 'array-valued':
                e0, e1 = mv('c[0]', (1, 2)), mv('c[1]', (1, 2))
                c = mv('c', (1, 2), elements=[e0, e1])
                tree = [c, 'after']
                exp = [payload('c[0]', (1, 2)), payload('c[1]', (1, 2)), 'after']
            else:
                full = mv('full', canon)
                binary = mv('binary', (0, 1, 3, 2))
                ndf = mv('ndfull', canon, kind='ndarray')
                nds = mv('ndsparse', (2, 1), kind='ndarray')
                tree = [full, binary, ndf, nds]
                exp = [payload('full', canon), payload('binary', (0, 1, 3, 2)), payload('ndfull', canon, 'ndarray'), payload('ndsparse', (2, 1), 'ndarray')]
            r = walker(encode(tree, root=True))

            def norm(x):
                if isinstance(x, (list, tuple)):
                    return [norm(y) for y in x]
                if isinstance(x, dict):
                    return {k: norm(v) if k != 'keys' else tuple(v) for k, v in x.items()}
                return x
            ctx.oblige(f'encode/walker[{sc}]: payload == tree with multivectors replaced by their (values, keys) records', norm(r) == norm(exp),
                       meta={'got': repr(norm(r))[:400], 'expected': repr(norm(exp))[:400]})
            return r
        H.run_paths(fe, sc, body)


def vc_codegen_sqrt(H):
    """codegen_sqrt (Study-number square root, https://doi.org/10.1002/mma.8639): for x = a + bI (a = scalar part,
    bI = x - a the whole non-scalar part)  sqrt(x) = c + bI/(2c),  c = sqrt((a + sqrt(a^2 - (bI)^2))/2)   [c = sqrt(a) when (bI)^2 == 0].
    Checked: (i) the operator tree of a, bI, bI*bI, normS = (a*a - bI*bI).e, dI = bI * c2_inv, res = c + dI;
    (ii) the two dependency texts, parsed with Python's parser and evaluated: c^2 == (a + sqrt(normS))/2 and c2_inv * 2c == 1,
    with str() of the symbolic scalars substituted by sums (so missing parentheses show up, finding F6);
    (iii) argument binding and result dict."""
    import ast as _ast
    fuc = H.fn(CG, 'codegen_sqrt')
    for case in ('study', 'null-part', 'scalar'):
        def body(ctx, case=case):
            ops = []

            def mk(name, attrs=None, truth=None):
                r = sym(name, attrs=attrs or {}, truth=True if truth is None else truth)

                def binop(interp, op, other, reflected):
                    a_, b_ = (other, r) if reflected else (r, other)
                    res = mk(f'({getattr(a_, "label", a_)} {op} {getattr(b_, "label", b_)})')
                    res.tree = ('binop', op, getattr(a_, 'tree', a_), getattr(b_, 'tree', b_))
                    return res
                r.kvc_binop = binop
                r.label = name
                r.tree = name
                r.attrs['items'] = sym('items', callable_result=lambda i, m, a, k, r=r: [('ITEMS-OF', r)])
                return r
            alg = sym('algebra')
            scal = {}

            def scalar(interp, me, a, k):
                nm = k.get('name')
                s = mk(nm, attrs={'values': sym('v', callable_result=lambda i, m, a2, k2, nm=nm: [f'SYM_{nm}'])})
                scal[nm] = s
                return s
            alg.attrs['scalar'] = sym('alg.scalar', callable_result=scalar)
            x = mk('x', attrs={'algebra': alg, 'grades': (0,) if case == 'scalar' else (0, 2),
                               'values': sym('x.values', callable_result=lambda i, m, a, k: 'XVALS')})
            x.attrs['e'] = 'XE'                                              # the operand holds fresh symbols: its coefficients print as atoms
            # the operand of these three cases stores blades (the empty multivector, whose root is the empty multivector - fix F18 - is
            # exercised by the stand-ins of C11 / C12)
            x.attrs['keys'] = sym('x.keys', callable_result=lambda i, m, a, k: (0,) if case == 'scalar' else (0, 3))
            g0 = mk('x.grade(0)')
            g0.attrs['e'] = 'AE'
            x.attrs['grade'] = sym('x.grade', callable_result=lambda i, m, a, k: g0 if tuple(a) == (0,) else mk('x.grade(?)'))
            state = {}
            real_binop = x.kvc_binop

            def xbin(interp, op, other, reflected):
                r = real_binop(interp, op, other, reflected)
                if op == 'Sub' and other is g0 and not reflected:
                    state['bI'] = r
                    rb = r.kvc_binop

                    def bibin(interp2, op2, other2, refl2):
                        q = rb(interp2, op2, other2, refl2)
                        if op2 == 'Mult' and other2 is r:
                            q.truth = (case != 'null-part')              # bI*bI is the zero multivector or not
                            state['bIsq'] = q
                        return q
                    r.kvc_binop = bibin
                return r
            x.kvc_binop = xbin
            # (a*a - bI*bI).e
            ga = g0.kvc_binop

            def g0bin(interp, op, other, reflected):
                q = ga(interp, op, other, reflected)
                if op == 'Mult' and other is g0:
                    qb = q.kvc_binop

                    def aabin(i2, op2, o2, r2):
                        z = qb(i2, op2, o2, r2)
                        z.attrs['e'] = 'NS0 + NS1'
                        state['normS_tree'] = z.tree
                        return z
                    q.kvc_binop = aabin
                return q
            g0.kvc_binop = g0bin
            warn = sym('warnings', attrs={'warn': sym('warn', callable_result=lambda i, m, a, k: None)})
            LI = lambda **kw: ('LambdifyInput', kw)
            env = {'warnings': warn, 'LambdifyInput': LI, '_type_id': sym('_type_id', callable_result=lambda i, m, a, k: 'T')}
            r = H.closure(Interp(ctx, source_name=CG), fuc, env)(x)
            if case == 'scalar':
                ok = isinstance(r, dict) and list(r) == [0] and isinstance(r[0], str)
                ctx.oblige('only(C13,C19): sqrt of a scalar: {0: text}', bool(ok))
                if ok:
                    v = eval(compile(_ast.parse(r[0], mode='eval'), '<s>', 'eval'), {'XE': 9.0})
                    ctx.oblige('only(C13,C19): sqrt of a scalar: text evaluates to sqrt(x.e)', abs(v - 3.0) < 1e-12, meta={'text': r[0]})
                return r
            ok = isinstance(r, tuple) and r[0] == 'LambdifyInput'
            if not ok:
                raise OutOfSubset('codegen_sqrt: the result is not a LambdifyInput (contract does not apply)')
            ctx.oblige('returns a LambdifyInput', True)
            kw = r[1]
            bI = state.get('bI')
            ctx.oblige('only(C08,C19): bI is the whole non-scalar part: x - x.grade(0)', bI is not None and bI.tree == ('binop', 'Sub', 'x', 'x.grade(0)'))
            deps = kw.get('dependencies') or []
            ctx.oblige('two dependencies: c and c2_inv', len(deps) == 2 and deps[0][0] == 'SYM_c' and deps[1][0] == 'SYM_c2_inv', meta={'deps': repr(deps)[:300]})
            if len(deps) != 2:
                return r
            if case == 'study':
                ctx.oblige('only(C19): normS == (a*a - bI*bI).e', state.get('normS_tree') == ('binop', 'Sub', ('binop', 'Mult', 'x.grade(0)', 'x.grade(0)'),
                                                                                      ('binop', 'Mult', bI.tree, bI.tree)), meta={'got': repr(state.get('normS_tree'))})
            envv = {'AE': 3.0, 'NS0': 3.0, 'NS1': 1.0}                    # a.e = 3, normS = NS0 + NS1 = 4 (prints as a sum)  ->  c^2 = (3 + 2)/2
            try:
                c = eval(compile(_ast.parse(deps[0][1], mode='eval'), '<c>', 'eval'), dict(envv))
                c2 = eval(compile(_ast.parse(deps[1][1], mode='eval'), '<c2>', 'eval'), dict(envv))
            except SyntaxError as e:
                if any(t in deps[0][1] + deps[1][1] for t in ('<', 'Rec(', 'object at')):
                    # the text contains the repr of a value this contract's printing model has no text for
                    raise OutOfSubset('codegen_sqrt: dependency text contains a value the contract model cannot print')
                ctx.oblige('dependency texts are valid expressions', False, meta={'error': repr(e), 'texts': [deps[0][1][:200], deps[1][1][:200]]})
                return r
            except Exception as e:
                # the text is well formed but mentions something this contract's printing model does not produce
                raise OutOfSubset(f'codegen_sqrt: dependency text not evaluable in the contract model ({type(e).__name__}: {e})')
            ctx.oblige('dependency texts are valid expressions', True)
            if case == 'study':
                ctx.oblige('only(C13,C19): c^2 == (a + sqrt(normS)) / 2 (texts evaluated with a.e and normS printing as sums)', abs(c * c - 2.5) < 1e-12, meta={'text': deps[0][1]})
            else:
                ctx.oblige('only(C13,C19): (bI)^2 == 0: c == sqrt(a)', abs(c * c - 3.0) < 1e-12, meta={'text': deps[0][1]})
            ctx.oblige('only(C13,C19): c2_inv == 1 / (2c)', abs(c2 * 2 * c - 1.0) < 1e-12, meta={'text': deps[1][1]})
            # result c + bI * c2_inv
            ed = kw.get('expr_dict')
            tree = ed.get('ITEMS-OF').tree if isinstance(ed, dict) and 'ITEMS-OF' in ed else None
            ctx.oblige('only(C19): result expressions are those of c + bI * c2_inv', tree == ('binop', 'Add', 'c', ('binop', 'Mult', bI.tree, 'c2_inv')), meta={'got': repr(tree)})
            ctx.oblige("args bind x to its values", kw.get('args') == {'x': 'XVALS'})
            return r
        H.run_paths(fuc, case, body)


# ------------------------------------------------------------------ C19: MultiVector.exp of a simple element
class _SqScalar(Rec):
    """The scalar s = <x*x>_0 seen by MultiVector.exp: an opaque leaf with a real value `s`, whose *type* (sympy expression,
    python number, anything else) is fixed per scenario and whose sign is decided by the path."""

    def __init__(self, kind):
        super().__init__('sym', 's')
        self.tkind = kind
        self.s = z3.Real('s')

    def kvc_isinstance(self, interp, cls):
        classes = cls if isinstance(cls, tuple) else (cls,)
        for c in classes:
            if isinstance(c, Rec) and c.parts[0] == 'Expr' and self.tkind == 'expr':
                return True
            if c in (float, int) and self.tkind == 'number':
                return True
        return False

    def kvc_cmp(self, interp, op, other):
        from kvc.values import mkbool
        if not isinstance(other, (int, float)):
            raise OutOfSubset('comparison of the squared scalar with a non-number')
        o = z3.RealVal(other)
        return mkbool({'Gt': self.s > o, 'GtE': self.s >= o, 'Lt': self.s < o, 'LtE': self.s <= o}[op])

    def kvc_eq(self, interp, other):
        from kvc.values import mkbool
        if isinstance(other, (int, float)):
            return mkbool(self.s == z3.RealVal(other))
        return other is self


def vc_exp(H):
    """exp(x) for x*x == s (a scalar):  cosh(sqrt(s)) + x sinh(sqrt(s))/sqrt(s)  for numbers s > 0,  1 + x  for s == 0,
    cos(sqrt(-s)) + x sin(sqrt(-s))/sqrt(-s)  for numbers s < 0, for sympy expressions and for every other coefficient type
    (numpy); anything that does not square to a scalar raises; user-supplied (cosh, sinhc, sqrt) are applied as documented.
    The returned operator tree is *evaluated* (linear form a*x + b over uninterpreted Sqrt/Sin/Cos/Sinh/Cosh, numpy's
    sinc(t) = sin(pi t)/(pi t)) and compared with these formulas by the solver -- not matched textually."""
    fuc = H.fn(MV, 'MultiVector.exp')
    R = z3.RealSort()
    Sqrt, Sin, Cos, Sinh, Cosh = (z3.Function(n, R, R) for n in ('Sqrt', 'Sin', 'Cos', 'Sinh', 'Cosh'))
    PI = z3.Real('pi')

    def world(ctx, kind, grades):
        np_ = sym('numpy', attrs={'pi': sym('numpy.pi')})
        ll = 0 if grades == () else _SqScalar(kind)
        flt = sym('filtered-square', attrs={'grades': grades, 'e': ll})
        sq = sym('x*x', attrs={'filter': sym('filter', callable_result=lambda i, m, a, k: flt)})

        class Me(Rec):
            def kvc_binop(self, interp, op, other, reflected):
                if op == 'Mult' and other is self:
                    return sq
                return Rec.kvc_binop(self, interp, op, other, reflected)
        me = Me('sym', 'self')
        interp = Interp(ctx, source_name=MV)
        interp.modules = {'numpy': np_}
        env = {'Expr': sym('Expr'), 'cos': sym('sympy.cos'), 'sinc': sym('sympy.sinc')}
        return me, ll, np_, interp, env

    def lin(x, me, ll):
        """value of an operator tree as (a, b) meaning a*self + b"""
        if x is me:
            return z3.RealVal(1), z3.RealVal(0)
        if isinstance(x, bool):
            raise OutOfSubset('boolean in the exp() result')
        if isinstance(x, (int, float)):
            return z3.RealVal(0), z3.RealVal(x)
        if isinstance(x, _SqScalar):
            return z3.RealVal(0), x.s
        if not isinstance(x, Rec):
            raise OutOfSubset(f'exp() result contains {type(x).__name__}')
        if x.kind == 'sym' and x.parts[0] == 'numpy.pi':
            return z3.RealVal(0), PI
        if x.kind == 'unop' and x.parts[0] == 'USub':
            a, b = lin(x.parts[1], me, ll)
            return -a, -b
        if x.kind == 'binop':
            op, l, r = x.parts
            (a1, b1), (a2, b2) = lin(l, me, ll), lin(r, me, ll)
            zero = lambda t: z3.is_rational_value(z3.simplify(t)) and z3.simplify(t).as_fraction() == 0
            if op == 'Add':
                return a1 + a2, b1 + b2
            if op == 'Sub':
                return a1 - a2, b1 - b2
            if op == 'Mult':
                if zero(a1):
                    return b1 * a2, b1 * b2
                if zero(a2):
                    return a1 * b2, b1 * b2
                raise OutOfSubset('exp() result is not linear in self')
            if op == 'Div' and zero(a2):
                return (z3.RealVal(0) if zero(a1) else a1 / b2), b1 / b2
            if op == 'Pow' and zero(a1) and zero(a2) and z3.simplify(b2).eq(z3.RealVal('1/2')):
                return z3.RealVal(0), Sqrt(b1)
            raise OutOfSubset(f'exp() result: operator {op} not evaluated')
        if x.kind == 'call' and isinstance(x.parts[0], Rec) and len(x.parts[1]) == 1 and not x.parts[2]:
            f, (arg,) = x.parts[0], x.parts[1]
            a, b = lin(arg, me, ll)
            if not (z3.is_rational_value(z3.simplify(a)) and z3.simplify(a).as_fraction() == 0):
                raise OutOfSubset('function of self in the exp() result')
            name = repr(f)
            table = {'<numpy>.cosh': Cosh(b), '<numpy>.sinh': Sinh(b), '<numpy>.cos': Cos(b), '<numpy>.sin': Sin(b),
                     '<numpy>.sinc': Sin(PI * b) / (PI * b), '<sympy.cos>': Cos(b), '<sympy.sinc>': Sin(b) / b, '<numpy>.sqrt': Sqrt(b)}
            if name in table:
                return z3.RealVal(0), table[name]
        raise OutOfSubset(f'exp() result: {x!r} not evaluated')

    for kind in ('number', 'expr', 'other'):
        def body(ctx, kind=kind):
            me, ll, np_, interp, env = world(ctx, kind, (0,))
            ctx.assume(z3.And(PI > 3, PI < 4))
            r = H.closure(interp, fuc, env)(me)
            a, b = lin(r, me, ll)
            s = ll.s
            if kind == 'number':
                pos, zer = ctx.decide(s > 0), False
                if not pos:
                    zer = ctx.decide(s == 0)
            else:
                pos = zer = False
            if pos:
                l = Sqrt(s)
                ctx.oblige('exp, s > 0: cosh(sqrt(s)) + x * sinh(sqrt(s)) / sqrt(s)', z3.Implies(l != 0, z3.And(a == Sinh(l) / l, b == Cosh(l))))
            elif zer:
                ctx.oblige('exp, s == 0: 1 + x', z3.And(a == 1, b == 1))
            else:
                l = Sqrt(-s)
                # sinc(0) = 1 is numpy's / sympy's own convention; for l != 0:
                ctx.oblige(f'exp, {"s < 0" if kind == "number" else kind + " coefficient"}: cos(sqrt(-s)) + x * sin(sqrt(-s)) / sqrt(-s)',
                           z3.Implies(l != 0, z3.And(a == Sin(l) / l, b == Cos(l))))
            return r
        H.run_paths(fuc, f'coefficient type={kind}', body)

    def body_zero(ctx):
        me, ll, np_, interp, env = world(ctx, 'number', ())
        r = H.closure(interp, fuc, env)(me)
        a, b = lin(r, me, None)
        ctx.oblige('exp of an element with x*x == 0 (empty square): 1 + x', z3.And(a == 1, b == 1))
        return r
    H.run_paths(fuc, 'null square', body_zero)

    def body_nonsimple(ctx):
        me, ll, np_, interp, env = world(ctx, 'number', (0, 2))
        try:
            r = H.closure(interp, fuc, env)(me)
            raised = None
        except NotImplementedError as e:
            r, raised = None, e
        ctx.oblige('exp of an element whose square is not a scalar raises NotImplementedError', raised is not None)
        if raised is not None:
            ctx.notes.append('expected-raise'); raise raised
        return r
    H.run_paths(fuc, 'not simple', body_nonsimple)

    def body_custom(ctx):
        me, ll, np_, interp, env = world(ctx, 'other', (0,))
        C, S, Q = sym('cosh'), sym('sinhc'), sym('sqrt')
        r = H.closure(interp, fuc, env)(me, cosh=C, sinhc=S, sqrt=Q)
        l = Rec('call', Q, (ll,), {})
        exp = Rec('binop', 'Add', Rec('binop', 'Mult', me, Rec('call', S, (l,), {})), Rec('call', C, (l,), {}))
        alt = Rec('binop', 'Add', Rec('call', C, (l,), {}), Rec('binop', 'Mult', me, Rec('call', S, (l,), {})))
        ctx.oblige('exp with user functions: x * sinhc(sqrt(s)) + cosh(sqrt(s))', bool(same(r, exp) or same(r, alt)), meta={'got': repr(r)})
        return r
    H.run_paths(fuc, 'user functions', body_custom)
