"""Small contracts behind C13/C14: option handling that is decidable from the class definitions."""
import ast
from kvc import extract as X
from kvc.engine import Interp
from kvc.rec import Rec, sym, same

ALG = 'kingdon/algebra.py'
OD = 'kingdon/operator_dict.py'


def vc_options(H):
    """OperatorDict.__post_init__: a user-supplied algebra.codegen_symbolcls overrides the per-operator symbol class; otherwise the
    field default stays."""
    fuc = H.fn(OD, 'OperatorDict.__post_init__')
    for given in (False, True):
        def body(ctx, given=given):
            cls = sym('user-symbolcls') if given else None
            alg = sym('algebra', attrs={'codegen_symbolcls': cls})
            me = sym('self', attrs={'algebra': alg, 'codegen_symbolcls': sym('field-default')})
            H.closure(Interp(ctx, source_name=OD), fuc)(me)
            sets = [e for e in ctx.events if e[0] == 'setattr']
            if given:
                ctx.oblige('codegen_symbolcls option: user class replaces the operator default', len(sets) == 1 and sets[0][2] == 'codegen_symbolcls' and sets[0][3] is cls)
            else:
                ctx.oblige('codegen_symbolcls option: default kept when the option is None', not sets)
        H.run_paths(fuc, f'option-given={given}', body)
    # pretty_blade is a printing option: it is read where names are made pretty (initialisation / printing helpers), never on the way
    # to an operator result.  Decided here only for the clear cases: every read sits in a function whose name says initialisation or
    # printing; a read anywhere else is *undecided* (the options stand-in compares results under a changed pretty_blade).
    import z3
    reads = []
    for rel in ('kingdon/algebra.py', 'kingdon/multivector.py', 'kingdon/codegen.py', 'kingdon/operator_dict.py', 'kingdon/taperecorder.py',
                'kingdon/polynomial.py', 'kingdon/matrixreps.py'):
        try:
            src, tree = X.module_ast(rel)
        except Exception:
            continue

        def visit(node, stack):
            for ch in ast.iter_child_nodes(node):
                st2 = stack + [ch.name] if isinstance(ch, (ast.FunctionDef, ast.ClassDef)) else stack
                if isinstance(ch, ast.Attribute) and ch.attr == 'pretty_blade' and isinstance(ch.ctx, ast.Load):
                    reads.append((rel, '.'.join(stack)))
                visit(ch, st2)
        visit(tree, [])
    printing = ('init', 'pretty', 'str', 'repr', 'format', 'latex', 'print')
    foreign = [r for r in reads if not any(w in r[1].lower() for w in printing)]
    if foreign:
        H.out_of_subset.append(('Algebra.pretty_blade/frame', f'pretty_blade is read in {foreign[:3]}: not an initialisation / printing helper by name (undecided here)'))
    else:
        H.add_goal('Algebra.pretty_blade/frame: the printing option is read only by initialisation / printing helpers', [], z3.BoolVal(True))


def vc_equality_fields(H):
    """C14 rejection clause: `a.algebra == b.algebra` (dataclass-generated __eq__ over the fields with compare=True) must
    imply equal metric and basis.  The fields that determine metric and basis are p, q, r, signature, start_index, basis."""
    import z3
    cls, fields = X.class_fields(ALG, 'Algebra')
    meths, _bases = X.class_info(ALG, 'Algebra')
    if '__eq__' in meths:
        # equality is no longer the dataclass-generated comparison of the compare=True fields: these clauses read the field flags
        # only -> undecided, the reject stand-in decides
        H.out_of_subset.append(('Algebra.__eq__', 'Algebra defines __eq__ explicitly: the field-flag clauses do not describe it (undecided here)'))
        return
    cmp = {name: kw.get('compare', True) is not False for name, kw in fields}
    for f in ('p', 'q', 'r', 'basis'):
        H.add_goal(f'Algebra.__eq__/compares field {f}', [], z3.BoolVal(cmp.get(f, False)))
    H.add_goal('Algebra.__eq__/equal algebras have the same signature ordering (field signature takes part in ==)', [],
               z3.BoolVal(cmp.get('signature', False)))
    H.add_goal('Algebra.__eq__/equal algebras have the same start_index, i.e. the same blade names (field start_index takes part in ==)', [],
               z3.BoolVal(cmp.get('start_index', False)))
