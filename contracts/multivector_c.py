"""Sidecar contracts for the operator surface of kingdon/multivector.py and kingdon/taperecorder.py.

Delegation contracts (C16 operand order, C02-C07 'a*b' etc. reach the operator dicts, C11 simulation):
every documented infix / inline form calls the algebra operator named in the README table with its
operands in the order written: `left op right` -> algebra.<op>(left, right); reflected forms get
(other, self).  The expected table below is transcribed from README.rst "Overview of Operators" and the
statement of C16, not from the code."""
import z3

from kvc.values import SKey, SInt, OutOfSubset
from kvc.engine import Interp, PathEnd
from kvc.rec import Rec, sym, same

MV = 'kingdon/multivector.py'
TR = 'kingdon/taperecorder.py'

# method -> (algebra operator, operands reflected?)
BINARY = {
    'gp': ('gp', False), '__mul__': ('gp', False), '__rmul__': ('gp', True),
    'ip': ('ip', False), '__or__': ('ip', False), '__ror__': ('ip', True),
    'op': ('op', False), '__xor__': ('op', False), '__rxor__': ('op', True),
    'rp': ('rp', False), '__and__': ('rp', False), '__rand__': ('rp', True),
    'sw': ('sw', False), '__rshift__': ('sw', False), '__rrshift__': ('sw', True),
    'proj': ('proj', False), '__matmul__': ('proj', False), '__rmatmul__': ('proj', True),
    'sp': ('sp', False), 'lc': ('lc', False), 'rc': ('rc', False), 'cp': ('cp', False), 'acp': ('acp', False),
    'add': ('add', False), '__add__': ('add', False), '__radd__': ('add', True),
    'sub': ('sub', False), '__sub__': ('sub', False), '__rsub__': ('sub', True),
    'div': ('div', False), '__truediv__': ('div', False), '__rtruediv__': ('div', True),
}
COMMUTATIVE = {'add'}      # a+b == b+a blade-wise (C04 + commutativity of ring addition): either operand order is accepted
UNARY = {
    'neg': 'neg', '__neg__': 'neg', '__invert__': 'reverse', 'reverse': 'reverse', 'involute': 'involute',
    'conjugate': 'conjugate', 'sqrt': 'sqrt', 'normsq': 'normsq', 'inv': 'inv', 'outerexp': 'outerexp',
    'outersin': 'outersin', 'outercos': 'outercos', 'outertan': 'outertan', 'polarity': 'polarity',
    'unpolarity': 'unpolarity', 'hodge': 'hodge', 'unhodge': 'unhodge',
}


def _mk_self(ctx, name='self'):
    r = SKey.fresh('alg_r', 0, 16)
    ctx.assume(r.range_constraint())
    alg = sym('algebra', attrs={'r': r})
    return sym(name, attrs={'algebra': alg}, isinstance_of=('MultiVector',)), alg, r


def _recognised(r, alg, meth):
    """The delegation clauses compare the result with `algebra.<operator>(operands)`.  A result of any other form (an operator reached
    through another object, a helper, a composed expression) cannot be compared that way: undecided, the stand-ins decide."""
    from kvc.values import OutOfSubset
    if not (isinstance(r, Rec) and r.kind == 'call' and isinstance(r.parts[0], Rec) and r.parts[0].kind == 'attr' and r.parts[0].parts[0] is alg):
        raise OutOfSubset(f'MultiVector.{meth}: the result is not a call of an operator of self.algebra (contract does not apply): {r!r}'[:200])


def vc_mv_delegations(H, methods_binary=None, methods_unary=None, scalar_left=False):
    for meth, (op, refl) in BINARY.items():
        if methods_binary is not None and meth not in methods_binary:
            continue
        fuc = H.fn(MV, f'MultiVector.{meth}')

        def body(ctx, meth=meth, op=op, refl=refl, fuc=fuc):
            interp = Interp(ctx, source_name=MV)
            me, alg, _ = _mk_self(ctx)
            other = sym('other')
            clo = H.closure(interp, fuc)
            r = clo(me, other)
            args = (other, me) if refl else (me, other)
            exp = Rec('call', Rec('attr', alg, op), args, {})
            _recognised(r, alg, meth)
            ok = same(r, exp)
            # scalar_left (C11): the reflected forms are only reached with a plain number on the left; for these operators
            # number op x and x op number are the same element, so either operand order is accepted there
            if not ok and (op in COMMUTATIVE or (scalar_left and refl and op in ('gp', 'op', 'ip', 'sp', 'cp', 'acp'))):
                ok = same(r, Rec('call', Rec('attr', alg, op), args[::-1], {}))
            ctx.oblige(f'post: {meth} == algebra.{op}({"other, self" if refl else "self, other"})', bool(ok),
                       meta={'got': repr(r), 'expected': repr(exp)})
            return r
        H.run_paths(fuc, '', body)
    for meth, op in UNARY.items():
        if methods_unary is not None and meth not in methods_unary:
            continue
        fuc = H.fn(MV, f'MultiVector.{meth}')

        def body(ctx, meth=meth, op=op, fuc=fuc):
            interp = Interp(ctx, source_name=MV)
            me, alg, _ = _mk_self(ctx)
            clo = H.closure(interp, fuc)
            r = clo(me)
            exp = Rec('call', Rec('attr', alg, op), (me,), {})
            _recognised(r, alg, meth)
            ctx.oblige(f'post: {meth} == algebra.{op}(self)', bool(same(r, exp)), meta={'got': repr(r), 'expected': repr(exp)})
            return r
        H.run_paths(fuc, '', body)


def vc_mv_norms(H, cls='MultiVector', rel=MV):
    """norm() == sqrt(normsq()), normalized() == self / norm()   (C19: norm squared is normsq; README table)."""
    for meth in ('norm', 'normalized'):
        fuc = H.fn(rel, f'{cls}.{meth}')

        def body(ctx, meth=meth, fuc=fuc):
            interp = Interp(ctx, source_name=rel)
            me, alg, _ = _mk_self(ctx)
            clo = H.closure(interp, fuc)
            r = clo(me)
            m = lambda o, name: Rec('call', Rec('attr', o, name), (), {})
            if meth == 'norm':
                exp = m(m(me, 'normsq'), 'sqrt')
            else:
                exp = Rec('binop', 'Div', me, m(me, 'norm'))
            ctx.oblige(f'post: {meth}', bool(same(r, exp)), meta={'got': repr(r), 'expected': repr(exp)})
            return r
        H.run_paths(fuc, '', body)


def vc_dual(H, cls='MultiVector', rel=MV):
    """C05: dual()/undual() select polarity for non-degenerate metrics (r == 0) and Hodge duality when exactly
    one generator is null (r == 1); explicit kinds select that kind; anything else raises."""
    for meth, pol, hod in (('dual', 'polarity', 'hodge'), ('undual', 'unpolarity', 'unhodge')):
        fuc = H.fn(rel, f'{cls}.{meth}')
        for kind in ('auto', 'polarity', 'hodge', 'poincare'):
            def body(ctx, meth=meth, pol=pol, hod=hod, kind=kind, fuc=fuc):
                interp = Interp(ctx, source_name=rel)
                me, alg, r_ = _mk_self(ctx)
                clo = H.closure(interp, fuc)
                m = lambda name: Rec('call', Rec('attr', me, name), (), {})
                try:
                    r = clo(me, kind) if kind != 'auto' else clo(me)
                    raised = None
                except OutOfSubset:
                    raise                       # the engine cannot follow the body: undecided, not "the code raised"
                except Exception as e:
                    r, raised = None, e
                if kind == 'polarity':
                    ctx.oblige(f'post: {meth}(kind=polarity) == {pol}()', raised is None and same(r, m(pol)))
                elif kind == 'hodge':
                    ctx.oblige(f'post: {meth}(kind=hodge) == {hod}()', raised is None and same(r, m(hod)))
                elif kind == 'poincare':
                    ctx.oblige(f'post: {meth}(unknown kind) raises', raised is not None)
                else:
                    is0, is1 = r_.t == 0, r_.t == 1
                    ctx.oblige(f'post: {meth}() with r == 0 is {pol}()',
                               z3.Implies(is0, z3.BoolVal(raised is None and same(r, m(pol)))))
                    ctx.oblige(f'post: {meth}() with r == 1 is {hod}()',
                               z3.Implies(is1, z3.BoolVal(raised is None and same(r, m(hod)))))
                    ctx.oblige(f'post: {meth}() with r > 1 raises',
                               z3.Implies(z3.And(z3.Not(is0), z3.Not(is1)), z3.BoolVal(raised is not None)))
                if raised is not None:
                    ctx.notes.append('expected-raise'); raise raised
                return r
            H.run_paths(fuc, f'kind={kind}', body)
