"""Sidecar contracts decided on *generic elements* by exact polynomial identities: the closed-form (Hitzer) inverses (C07, d <= 5)
and the composite operators sw / proj / normsq (C06).

The real body of `codegen_hitzer_inv` is interpreted on a *generic* element x of the algebra: one indeterminate per basis
blade, coefficients in Z[x_0 .. x_{2^d - 1}] (exact integer polynomials in normal form), over an independent reference
Clifford product (generator masks, sign from reordering + metric: standins/oracle.py; C01/C02 relate kingdon's own product to
it).  Post, for the pair (num, denom) the body returns:

        x * num == denom  and  num * x == denom     as polynomial identities (denom scalar),   denom == <x * num>_0.

A polynomial identity over Z holds for every value of the coefficients in every commutative ring, so each discharged
obligation is a proof for *all* operands of that algebra (sparse operands are the generic one with zeros substituted).
It is decided by exact normalisation (no solver): back end `poly-normal-form`.

d <= 4: every signature (3^d of them).  d = 5 (thorough tier only, one signature per class (p, q, r) up to the listed ones):
the last product of the body is kept *lazy* and the identity is checked as (x * combo) * y' == denom using associativity
(lemma L-assoc) -- the eager normal form of num has 4.3 million terms."""
import itertools

from kvc.values import OutOfSubset
from kvc.engine import Interp
from kvc.rec import sym
from standins import oracle as O

REL = 'kingdon/codegen.py'


def _rcase(op, sig, xk, yk=None):
    """what a native replay of a refuted identity needs: operator, signature, stored blades of the failing shape"""
    c = {'op': op, 'signature': [int(v) for v in sig], 'x_keys': [int(k) for k in xk]}
    if yk is not None:
        c['y_keys'] = [int(k) for k in yk]
    return c


def _ob(ctx, name, goal, meta=None):
    """obligations of this module are decided by exact normalisation of polynomials (kind 'poly' in the evidence)"""
    ctx.oblige(name, goal, 'poly', meta)


class Frac(tuple):
    """codegen.Fraction(numer, denom): a 2-tuple (NamedTuple in the real module)"""

    def __new__(cls, numer, denom):
        return tuple.__new__(cls, (numer, denom))


class IP:
    """integer polynomial in normal form: {sorted tuple of variable indices (with multiplicity): non-zero int}"""
    __slots__ = ('c',)

    def __init__(self, c=None):
        self.c = c or {}

    @staticmethod
    def var(i):
        return IP({(i,): 1})

    @staticmethod
    def lift(o):
        if isinstance(o, IP):
            return o
        from fractions import Fraction
        if isinstance(o, bool) or not isinstance(o, (int, Fraction)):
            raise OutOfSubset(f'coefficient arithmetic with {type(o).__name__}')
        return IP({(): o} if o else {})

    def __add__(self, o):
        o = IP.lift(o)
        r = dict(self.c)
        for m, v in o.c.items():
            t = r.get(m, 0) + v
            if t:
                r[m] = t
            else:
                r.pop(m, None)
        return IP(r)
    __radd__ = __add__

    def __neg__(self):
        return IP({m: -v for m, v in self.c.items()})

    def __sub__(self, o):
        return self + (-IP.lift(o))

    def __rsub__(self, o):
        return IP.lift(o) + (-self)

    def __mul__(self, o):
        from fractions import Fraction
        if isinstance(o, (int, Fraction)) and not isinstance(o, bool):
            return IP({m: v * o for m, v in self.c.items()} if o else {})
        o = IP.lift(o)
        r = {}
        for m1, v1 in self.c.items():
            for m2, v2 in o.c.items():
                m = tuple(sorted(m1 + m2))
                t = r.get(m, 0) + v1 * v2
                if t:
                    r[m] = t
                else:
                    r.pop(m, None)
        return IP(r)
    __rmul__ = __mul__

    def __truediv__(self, o):
        from fractions import Fraction
        if isinstance(o, IP):
            if set(o.c) != {()}:
                raise OutOfSubset('division by a non-constant polynomial')
            o = o.c[()]
        if isinstance(o, bool) or not isinstance(o, (int, Fraction)) or o == 0:
            raise OutOfSubset(f'division of a coefficient by {o!r}')
        f = Fraction(1, o) if isinstance(o, int) else 1 / o
        return IP({m: v * f for m, v in self.c.items()})

    def __bool__(self):
        return bool(self.c)

    def __eq__(self, o):
        return self.c == IP.lift(o).c

    def __hash__(self):
        return id(self)


def _gp(A, B, sig, only_scalar=False, filt=None):
    R = {}
    for ka, va in A.items():
        for kb, vb in B.items():
            if only_scalar and ka != kb:
                continue
            if filt is not None and not filt(O.pc(ka), O.pc(kb), O.pc(ka ^ kb)):
                continue
            s = O.bsign(ka, kb, sig)
            if s == 0:
                continue
            t = va * vb
            k = ka ^ kb
            R[k] = R.get(k, 0) + (t if s > 0 else -t)
    return {k: v for k, v in R.items() if v}


class RefMV:
    """A multivector of the reference algebra seen through the part of the MultiVector API the closed forms use."""
    LAZY_ABOVE = 5_000_000     # (terms of A) x (terms of B) above which a product is kept symbolic

    def __init__(self, world, comp, lazy=None):
        self.world, self.comp, self.lazy = world, comp, lazy

    # ---- API used by codegen_hitzer_inv
    @property
    def algebra(self):
        return self.world['alg']

    def _need(self):
        if self.lazy is not None:
            raise OutOfSubset('a lazily kept product is used other than as the returned numerator')
        return self.comp

    def involute(self):
        return RefMV(self.world, O.invo(self._need()))

    def conjugate(self):
        return RefMV(self.world, O.conj(self._need()))

    def reverse(self):
        return RefMV(self.world, O.rev(self._need()))

    def __invert__(self):
        return self.reverse()

    def grade(self, *grades):
        if len(grades) == 1 and isinstance(grades[0], tuple):
            grades = grades[0]
        return RefMV(self.world, {k: v for k, v in self._need().items() if O.pc(k) in grades})

    def __mul__(self, o):
        if isinstance(o, int) and not isinstance(o, bool):
            return RefMV(self.world, {k: v * o for k, v in self._need().items() if o})
        if isinstance(o, IP):           # a coefficient (scalar polynomial) as factor
            return RefMV(self.world, {k: w for k, v in self._need().items() if (w := v * o)})
        if not isinstance(o, RefMV):
            raise OutOfSubset(f'product of a multivector with {type(o).__name__}')
        A, B = self._need(), o._need()
        size = sum(len(v.c) for v in A.values()) * sum(len(v.c) for v in B.values())
        if size > RefMV.LAZY_ABOVE:
            return RefMV(self.world, None, lazy=(self, o))
        return RefMV(self.world, _gp(A, B, self.world['sig']))

    def __rmul__(self, o):
        if isinstance(o, (int, IP)) and not isinstance(o, bool):
            return self * o
        raise OutOfSubset(f'product of {type(o).__name__} with a multivector')

    def gp(self, o):
        return self * o

    def _filtered(self, o, filt):
        if not isinstance(o, RefMV):
            raise OutOfSubset(f'product of a multivector with {type(o).__name__}')
        return RefMV(self.world, _gp(self._need(), o._need(), self.world['sig'], filt=filt))

    def __or__(self, o):            # inner product: grade |r - s|
        return self._filtered(o, lambda r, s_, t: t == abs(r - s_))

    def __xor__(self, o):           # outer product: grade r + s
        return self._filtered(o, lambda r, s_, t: t == r + s_)

    def __sub__(self, o):
        if isinstance(o, (IP, int)) and not isinstance(o, bool):        # a scalar is the multivector o * 1
            o = RefMV(self.world, {0: IP.lift(o)} if IP.lift(o) else {})
        if not isinstance(o, RefMV):
            raise OutOfSubset('difference with a non-multivector')
        R = dict(self._need())
        for k, v in o._need().items():
            R[k] = R.get(k, 0) - v
        return RefMV(self.world, {k: v for k, v in R.items() if v})

    def __add__(self, o):
        if isinstance(o, (IP, int)) and not isinstance(o, bool):
            o = RefMV(self.world, {0: IP.lift(o)} if IP.lift(o) else {})
        if not isinstance(o, RefMV):
            raise OutOfSubset('sum with a non-multivector')
        R = dict(self._need())
        for k, v in o._need().items():
            R[k] = R.get(k, 0) + v
        return RefMV(self.world, {k: v for k, v in R.items() if v})

    __radd__ = __add__

    def __neg__(self):
        return RefMV(self.world, {k: -v for k, v in self._need().items()})

    def sp(self, o):
        """scalar product <self * o>_0.  For a lazy o = A * B:  <self * (A * B)>_0 == <(self * A) * B>_0  (L-assoc)."""
        if not isinstance(o, RefMV):
            raise OutOfSubset('scalar product with a non-multivector')
        sig = self.world['sig']
        if o.lazy is not None:
            A, B = o.lazy
            left = _gp(self._need(), A._need(), sig)
            self.world['left_of_lazy'] = left
            self.world['assoc_used'] = True
            return RefMV(self.world, _gp(left, B._need(), sig, only_scalar=True))
        return RefMV(self.world, _gp(self._need(), o._need(), sig, only_scalar=True))

    @property
    def e(self):
        return self._need().get(0, IP())

    @property
    def _values(self):
        return tuple(self._need().values())

    @_values.setter
    def _values(self, vals):
        vals = list(vals)
        keys = list(self._need())
        if len(vals) != len(keys):
            raise OutOfSubset('_values assigned a sequence of another length')
        self.comp = {k: IP.lift(v) if not isinstance(v, IP) else v for k, v in zip(keys, vals)}

    def kvc_setattr(self, interp, name, v):
        if name != '_values':
            raise OutOfSubset(f'attribute store .{name} on a multivector')
        self._values = v            # rescaling the coefficients of a freshly computed term (codegen_outerexp)

    @property
    def grades(self):
        return tuple(sorted({O.pc(k) for k in self._need()}))

    def keys(self):
        return tuple(self._need())

    def values(self):
        return list(self._need().values())

    def __len__(self):
        return len(self._need())

    def __bool__(self):
        return bool(self._need())

    def items(self):
        return self._need().items()


def _generic(d, sig):
    world = {'sig': list(sig)}
    one = RefMV(world, {0: IP({(): 1})})
    signs = sym('signs', on_getitem=lambda interp, me, idx: O.bsign(idx[0], idx[1], world['sig']))
    world['alg'] = sym('algebra', attrs={'d': d, 'blades': sym('blades', attrs={'e': one}), 'signs': signs,
                                         'p': list(sig).count(1), 'q': list(sig).count(-1), 'r': list(sig).count(0),
                                         'signature': list(sig)})
    world['alg'].kvc_len = lambda: 2 ** d
    world['alg'].attrs['pss'] = RefMV(world, {2 ** d - 1: IP({(): 1})})
    world['alg'].attrs['scalar'] = sym('alg.scalar', callable_result=lambda interp, me, a, k: RefMV(world, {0: IP.lift(a[0][0])} if a and a[0] and a[0][0] else {}))
    x = RefMV(world, {k: IP.var(k) for k in range(2 ** d)})
    return world, x


def signatures(d, tier):
    if d <= 4:
        return [list(s) for s in itertools.product([1, -1, 0], repeat=d)]
    # d = 5: one signature per class (p, q, r); generator permutations are algebra isomorphisms that preserve grades, reversion
    # and conjugation, hence the closed form (stated symmetry argument).  Quick tier: none (bounded stand-in only).
    if tier == 'quick':
        return []
    cls = [(p, q, 5 - p - q) for p in range(6) for q in range(6 - p)]           # all 21 classes
    return [[1] * p + [-1] * q + [0] * r for p, q, r in cls]


def _d5_worker(sig):
    """one 5-D signature in a worker process: returns the obligations (name, holds, meta) and out-of-subset reports"""
    from kvc.harness import Harness
    Hw = Harness()
    _hitzer_one(Hw, Hw.fn(REL, 'codegen_hitzer_inv'), 5, sig)
    return [(n, s2 is None, m) for n, s2, m in Hw.obls], list(Hw.out_of_subset), list(Hw.vacuous), list(Hw.notes)


def vc_hitzer_inv(H, tier='quick'):
    fuc = H.fn(REL, 'codegen_hitzer_inv')
    for d in range(0, 5):
        for sig in signatures(d, tier):
            _hitzer_one(H, fuc, d, sig)
    sig5 = signatures(5, tier)
    if sig5:
        # about two minutes of exact polynomial arithmetic per signature: eight worker processes
        import multiprocessing as mp
        import z3
        try:
            with mp.get_context('fork').Pool(8) as pool:
                outs = pool.map(_d5_worker, sig5, chunksize=1)
        except Exception as e:                 # no fork available: sequential
            H.notes.append(f'd = 5 worker pool unavailable ({type(e).__name__}); run sequentially')
            outs = [_d5_worker(sg) for sg in sig5]
        for obls, oos, vac, notes in outs:
            for n, holds, m in obls:
                H.add_goal(n, [], z3.BoolVal(bool(holds)), kind=(m or {}).get('kind', 'post'), meta=(m or {}).get('meta'))
            H.out_of_subset.extend(oos)
            H.vacuous.extend(vac)
            for nt in notes:
                if nt not in H.notes:
                    H.notes.append(nt)


def _hitzer_one(H, fuc, d, sig):
    if True:
        if True:
            def body(ctx, d=d, sig=sig):
                world, x = _generic(d, sig)
                r = H.closure(Interp(ctx, source_name=REL), fuc, {'Fraction': Frac})(x, symbolic=True)
                ok = isinstance(r, Frac) and isinstance(r[0], RefMV) and isinstance(r[1], IP)
                _ob(ctx, 'symbolic=True returns Fraction(num, denom): a multivector and a scalar coefficient', bool(ok), meta={'got': repr(r)[:200]})
                if not ok:
                    return r
                num, denom = r[0], r[1]
                sigv = world['sig']
                X = x.comp
                if num.lazy is None:
                    N = num.comp
                    left = _gp(X, N, sigv)
                    right = _gp(N, X, sigv)
                    _ob(ctx, 'x * num == denom (a scalar): polynomial identity in the coefficients of a generic x',
                               set(left) <= {0} and left.get(0, IP()) == denom,
                               meta={'non_scalar_blades': sorted(set(left) - {0})[:8], 'replay_case': _rcase('inv', sigv, range(2 ** d))})
                    _ob(ctx, 'num * x == denom: the inverse is two-sided', set(right) <= {0} and right.get(0, IP()) == denom,
                               meta={'non_scalar_blades': sorted(set(right) - {0})[:8], 'replay_case': _rcase('inv', sigv, range(2 ** d))})
                else:
                    A, B = num.lazy
                    xa = _gp(X, A.comp, sigv)
                    full = _gp(xa, B.comp, sigv)
                    _ob(ctx, 'x * num == denom (a scalar), with num = A * B kept lazy and x * (A * B) == (x * A) * B by L-assoc',
                               set(full) <= {0} and full.get(0, IP()) == denom,
                               meta={'non_scalar_blades': sorted(set(full) - {0})[:8], 'replay_case': _rcase('inv', sigv, range(2 ** d))})
                    ctx.notes.append('two-sidedness for d = 5 by: a right inverse in a finite-dimensional associative unital algebra is a left inverse')
                _ob(ctx, 'denom is not the zero polynomial (the formula is not vacuous)', bool(denom))
                return r
            H.run_paths(fuc, f'd={d},signature={sig}', body)


def vc_inv_patterns(H, tier='quick'):
    """codegen_inv(y, symbolic=True) -- with codegen_hitzer_inv inlined -- on *restricted* generic operands: for every non-empty
    set of grades G the operand has one indeterminate per blade of a grade in G (even / odd elements, single grades, ...).  The
    generic contract above already covers these as substitution instances as long as the body never looks at the operand's
    pattern; this contract lets a pattern-dependent body (a fast path for some shape) run and checks the same identity there."""
    fuc = H.fn(REL, 'codegen_inv')
    for d in (2, 3, 4):
        sigs = [list(s_) for s_ in itertools.product([1, -1, 0], repeat=d)]
        if d == 4 and tier == 'quick':
            sigs = [[1, 1, 1, 1], [1, 1, 1, -1], [0, 1, 1, 1], [1, -1, 1, -1], [0, 0, 1, 1], [-1, -1, -1, -1]]
        gsets = [g for r_ in range(1, d + 2) for g in itertools.combinations(range(d + 1), r_)]
        for sig in sigs:
            def body(ctx, d=d, sig=sig, gsets=gsets):
                bad = []
                n = 0
                for G in gsets:
                    world, _ = _generic(d, sig)
                    y = RefMV(world, {k: IP.var(k) for k in range(2 ** d) if O.pc(k) in G})
                    r = H.closure(Interp(ctx, source_name=REL), fuc, {'Fraction': Frac})(y, symbolic=True)
                    if not (isinstance(r, Frac) and isinstance(r[0], RefMV) and isinstance(r[1], IP) and r[0].lazy is None):
                        raise OutOfSubset(f'codegen_inv(symbolic=True) did not return Fraction(multivector, scalar) for grades {G}')
                    num, denom = r[0].comp, r[1]
                    n += 1
                    if not denom:
                        continue            # identically singular pattern (e.g. a null vector): nothing is returned for it
                    left, right = _gp(y.comp, num, sig), _gp(num, y.comp, sig)
                    if not (set(left) <= {0} and left.get(0, IP()) == denom and set(right) <= {0} and right.get(0, IP()) == denom):
                        bad.append(G)
                _ob(ctx, f'operands restricted to any set of grades ({n} patterns): y * num == num * y == denom as polynomial identities',
                           not bad, meta={'failing_grade_sets': bad[:6],
                                          'replay_case': _rcase('inv', sig, [k for k in range(2 ** d) if O.pc(k) in bad[0]]) if bad else None})
            H.run_paths(fuc, f'patterns,d={d},signature={sig}', body)


def vc_compositions_generic(H, tier='quick'):
    """C06 on generic operands: the real bodies of codegen_sw / codegen_proj / codegen_normsq (with codegen_product inlined when a
    body calls it) are interpreted on generic x and y (one indeterminate per blade each) and must return x*y*~x, (x|y)*~y, x*~x
    *as polynomial identities*, for every signature with d <= 3 and selected (thorough: all) signatures with d = 4.  Unlike the
    structural contract (which only follows bodies written as that very composition) this one decides any body that computes
    the result through the elementary operators or through codegen_product with its own filters."""
    fs = {n: H.fn(REL, f'codegen_{n}') for n in ('sw', 'proj', 'normsq')}
    for d in (1, 2, 3, 4):
        sigs = [list(s_) for s_ in itertools.product([1, -1, 0], repeat=d)]
        if d == 4 and tier == 'quick':
            sigs = [[1, 1, 1, 1], [1, 1, 1, -1], [0, 1, 1, 1], [1, -1, 1, -1]]
        for sig in sigs:
            for name, fuc in fs.items():
                def body(ctx, d=d, sig=sig, name=name, fuc=fuc):
                    N = 2 ** d
                    # operand shapes: generic, even, odd for x; generic and every single grade for y (a body may branch on them)
                    xshapes = [('generic', lambda k: True), ('even', lambda k: O.pc(k) % 2 == 0), ('odd', lambda k: O.pc(k) % 2 == 1)]
                    yshapes = [('generic', lambda k: True)] + [(f'grade {g}', (lambda k, g=g: O.pc(k) == g)) for g in range(d + 1)]
                    if name == 'normsq':
                        yshapes = yshapes[:1]
                        xshapes = xshapes + [(f'grade {g}', (lambda k, g=g: O.pc(k) == g)) for g in range(d + 1)]
                    spec = {'sw': 'x * y * ~x', 'proj': '(x | y) * ~y', 'normsq': 'x * ~x'}[name]
                    failing = []
                    rcase = None
                    for xn, xf in xshapes:
                        for yn, yf in yshapes:
                            world, _ = _generic(d, sig)
                            x = RefMV(world, {k: IP.var(k) for k in range(N) if xf(k)})
                            y = RefMV(world, {k: IP.var(N + k) for k in range(N) if yf(k)})
                            clo = H.closure(Interp(ctx, source_name=REL), fuc)
                            r = clo(x, y) if name != 'normsq' else clo(x)
                            if isinstance(r, RefMV):
                                got = r._need()
                            elif isinstance(r, dict):
                                got = {k: IP.lift(v) if not isinstance(v, IP) else v for k, v in r.items()}
                            else:
                                raise OutOfSubset(f'codegen_{name} returned {type(r).__name__}')
                            got = {k: v for k, v in got.items() if v}
                            X, Y = x.comp, y.comp
                            if name == 'sw':
                                want = _gp(_gp(X, Y, sig), O.rev(X), sig)
                            elif name == 'proj':
                                want = _gp(_gp(X, Y, sig, filt=lambda r_, s_, t: t == abs(r_ - s_)), O.rev(Y), sig)
                            else:
                                want = _gp(X, O.rev(X), sig)
                            bad = sorted(k for k in set(got) | set(want) if not (got.get(k, IP()) == want.get(k, IP())))
                            if bad:
                                failing.append((xn, yn, bad[:4]))
                                if rcase is None:
                                    rcase = _rcase(name, sig, x.comp, y.comp if name != 'normsq' else None)
                    _ob(ctx, f'codegen_{name} on generic operands (x: generic / even / odd; y: generic / each single grade) == {spec}: every '
                               'coefficient is the same polynomial (no blade dropped unless identically zero)',
                               not failing, meta={'failing_shapes': failing[:6], 'replay_case': rcase})
                H.run_paths(fuc, f'generic,d={d},signature={sig}', body)


class _Chains:
    """AdditionChains(limit) as used by power_supply: chains come from the *real* minimal_chains body, and each chain handed out
    is checked to be an addition chain for n (every element the sum of two earlier ones, last element n)."""

    def __init__(self, H, ctx, limit):
        fuc = H.fn(REL, 'AdditionChains.minimal_chains')
        me = sym('self', attrs={'limit': limit})
        self.chains = H.closure(Interp(ctx, source_name=REL), fuc)(me)
        self.ctx = ctx

    def __getitem__(self, n):
        ch = self.chains[n]
        ok = ch[0] == 1 and ch[-1] == n and all(any(ch[i] == ch[a] + ch[b] for a in range(i) for b in range(i)) for i in range(1, len(ch)))
        _ob(self.ctx, f'AdditionChains[{n}] is an addition chain ending in {n}', bool(ok), meta={'chain': repr(ch)})
        return ch


def vc_shirokov_small(H, tier='quick'):
    """codegen_shirokov_inv is dimension-agnostic code (used by kingdon for d >= 6, where a generic element has 64 indeterminates).
    Its real body (with power_supply and AdditionChains.minimal_chains) is interpreted on generic elements of *small* algebras,
    d <= 3 (thorough: d = 4 for a few signatures): x * adj == adj * x == denom as polynomial identities over Q.  This proves the
    code correct where it can be decided; for d >= 6 the same code runs on more indeterminates (bounded stand-in)."""
    fuc = H.fn(REL, 'codegen_shirokov_inv')
    for d in (1, 2, 3, 4):
        sigs = [list(s_) for s_ in itertools.product([1, -1, 0], repeat=d)]
        if d == 4:
            sigs = [] if tier == 'quick' else [[1, 1, 1, 1], [1, 1, 1, -1], [0, 1, 1, 1], [1, -1, 1, -1]]
        for sig in sigs:
            def body(ctx, d=d, sig=sig):
                world, x = _generic(d, sig)
                env = {'Fraction': Frac, 'AdditionChains': lambda limit: _Chains(H, ctx, limit)}
                r = H.closure(Interp(ctx, source_name=REL), fuc, env)(x, symbolic=True)
                ok = isinstance(r, Frac) and isinstance(r[0], RefMV) and isinstance(r[1], IP) and r[0].lazy is None
                _ob(ctx, 'symbolic=True returns Fraction(adjugate, denom)', bool(ok), meta={'got': repr(r)[:200]})
                if not ok:
                    return r
                adj, denom = r[0].comp, r[1]
                left, right = _gp(x.comp, adj, sig), _gp(adj, x.comp, sig)
                _ob(ctx, 'x * adj == denom (a scalar): polynomial identity over Q in the coefficients of a generic x',
                           set(left) <= {0} and left.get(0, IP()) == denom, meta={'non_scalar_blades': sorted(set(left) - {0})[:8]})
                _ob(ctx, 'adj * x == denom', set(right) <= {0} and right.get(0, IP()) == denom)
                _ob(ctx, 'denom is not the zero polynomial', bool(denom))
                return r
            H.run_paths(fuc, f'd={d},signature={sig}', body)


def vc_div_generic(H, tier='quick'):
    """a / b on generic operands: codegen_inv(y, x, symbolic=True) returns (x * num, denom) with (x * num) * y == x * denom, i.e.
    a / b == a * inverse(b) with the inverse on the right; every signature with d <= 3."""
    fuc = H.fn(REL, 'codegen_inv')
    for d in (1, 2, 3):
        for sig in itertools.product([1, -1, 0], repeat=d):
            def body(ctx, d=d, sig=list(sig)):
                world, y = _generic(d, sig)
                N = 2 ** d
                x = RefMV(world, {k: IP.var(N + k) for k in range(N)})
                r = H.closure(Interp(ctx, source_name=REL), fuc, {'Fraction': Frac})(y, x, symbolic=True)
                ok = isinstance(r, Frac) and isinstance(r[0], RefMV) and isinstance(r[1], IP) and r[0].lazy is None
                _ob(ctx, 'codegen_inv(y, x, symbolic=True) returns Fraction(x * num, denom)', bool(ok))
                if not ok:
                    return r
                q, denom = r[0].comp, r[1]
                back = _gp(q, y.comp, sig)
                want = {k: v * denom for k, v in x.comp.items()}
                bad = sorted(k for k in set(back) | set(want) if not (back.get(k, IP()) == want.get(k, IP())))
                _ob(ctx, '(x / y) * y == x: the quotient is x * inverse(y) (inverse on the right), as a polynomial identity', not bad,
                           meta={'differing_blades': bad[:8], 'replay_case': _rcase('div', sig, x.comp, y.comp)})
                return r
            H.run_paths(fuc, f'div,d={d},signature={list(sig)}', body)


def vc_outerexp_generic(H, tier='quick'):
    """C19: codegen_outerexp / outersin / outercos on generic operands (every single grade, and the fully generic element) return
    sum_k x^(wedge k) / k!  (all k, odd k, even k; k <= d) as polynomial identities over Q; the outer product is signature
    independent, so one signature per dimension d <= 4 (thorough: 5) decides all."""
    import math
    fs = {n: H.fn(REL, f'codegen_{n}') for n in ('outerexp', 'outersin', 'outercos')}
    for d in (1, 2, 3, 4) + ((5,) if tier != 'quick' else ()):
        sig = [1] * d
        for name, fuc in fs.items():
            def body(ctx, d=d, sig=sig, name=name, fuc=fuc):
                # operands without scalar part: their wedge powers vanish beyond k = d, so "the finite sum" is well defined
                shapes = [(f'grade {g}', (lambda k, g=g: O.pc(k) == g)) for g in range(1, d + 1)]
                if d <= 4:
                    shapes.append(('generic without scalar part', lambda k: O.pc(k) >= 1))
                failing = []
                rcase = None
                for sn, sf in shapes:
                    world, _ = _generic(d, sig)
                    x = RefMV(world, {k: IP.var(k) for k in range(2 ** d) if sf(k)})
                    wn = sym('warnings', attrs={'warn': sym('warn', callable_result=lambda i, m, a, k: None)})
                    r = H.closure(Interp(ctx, source_name=REL), fuc, {'warnings': wn})(x)
                    if isinstance(r, RefMV):
                        got = r._need()
                    elif isinstance(r, dict) and all(isinstance(k, int) for k in r):
                        got = {k: IP.lift(v) if not isinstance(v, IP) else v for k, v in r.items()}
                    else:
                        raise OutOfSubset(f'codegen_{name} returned {type(r).__name__}')
                    got = {k: v for k, v in got.items() if v}
                    want, term = {}, {0: IP({(): 1})}
                    for k in range(0, d + 1):
                        if k:
                            term = _gp(term, x.comp, sig, filt=lambda r_, s_, t: t == r_ + s_)
                        if (name == 'outersin' and k % 2 == 0) or (name == 'outercos' and k % 2 == 1):
                            continue
                        for kk, vv in term.items():
                            want[kk] = want.get(kk, IP()) + vv / math.factorial(k)
                    want = {k: v for k, v in want.items() if v}
                    bad = sorted(k for k in set(got) | set(want) if not (got.get(k, IP()) == want.get(k, IP())))
                    if bad:
                        failing.append((sn, bad[:4]))
                        if rcase is None:
                            rcase = _rcase(name, sig, x.comp)
                which = {'outerexp': 'all k', 'outersin': 'odd k', 'outercos': 'even k'}[name]
                _ob(ctx, f'codegen_{name} == sum over {which} <= d of x^(wedge k) / k! on generic operands of every single grade >= 1 (and all of them together)',
                           not failing, meta={'failing_shapes': failing[:6], 'replay_case': rcase})
            H.run_paths(fuc, f'generic,d={d}', body)


def _hodge(A, d, undual=False):
    """default basis: hodge(e_I) = s e_{~I} with e_I ^ (s e_{~I}) = +pseudoscalar; unhodge is the inverse map"""
    full = 2 ** d - 1
    R = {}
    for k, v in A.items():
        if not undual:
            s_ = O.reorder_sign(k, full ^ k)
            R[full ^ k] = v if s_ > 0 else -v
        else:
            src = full ^ k                      # k = ~src, hodge(e_src) = s e_k  =>  unhodge(e_k) = s e_src
            s_ = O.reorder_sign(src, k)
            R[src] = v if s_ > 0 else -v
    return R


def vc_products_generic(H, tier='quick', only_ops=None):
    """C03 / C05 on generic operands: the real bodies of codegen_gp/op/ip/lc/rc/sp/cp/acp/rp (codegen_product inlined) on generic
    x and y of several shapes (generic, single grades, two-grade mixtures) return the grade projections of the reference
    product stated in the property - as polynomial identities.  Complements the solver contracts (which are generic in the
    dimension but only follow bodies that hand codegen_product a filter closure): a body with its own shortcuts (early exits
    on the operands' grades, precomputed tables) is executed here."""
    from fractions import Fraction
    ops = tuple(o for o in ('gp', 'op', 'ip', 'lc', 'rc', 'sp', 'cp', 'acp', 'rp') if only_ops is None or o in only_ops)
    fs = {n: H.fn(REL, f'codegen_{n}') for n in ops}
    half = Fraction(1, 2)

    def ref(name, X, Y, sig, d):
        g = lambda f: _gp(X, Y, sig, filt=f)
        if name == 'gp': return _gp(X, Y, sig)
        if name == 'op': return g(lambda r, s_, t: t == r + s_)
        if name == 'ip': return g(lambda r, s_, t: t == abs(r - s_))
        if name == 'lc': return g(lambda r, s_, t: t == s_ - r)
        if name == 'rc': return g(lambda r, s_, t: t == r - s_)
        if name == 'sp': return g(lambda r, s_, t: t == 0)
        if name in ('cp', 'acp'):
            a, b = _gp(X, Y, sig), _gp(Y, X, sig)
            R = {}
            for k in set(a) | set(b):
                v = (a.get(k, IP()) - b.get(k, IP())) if name == 'cp' else (a.get(k, IP()) + b.get(k, IP()))
                R[k] = v * half
            return {k: v for k, v in R.items() if v}
        if name == 'rp':
            hx, hy = _hodge(X, d), _hodge(Y, d)
            return _hodge(_gp(hx, hy, sig, filt=lambda r, s_, t: t == r + s_), d, undual=True)
        raise KeyError(name)
    for d in (1, 2, 3, 4):
        sigs = [list(s_) for s_ in itertools.product([1, -1, 0], repeat=d)]
        if d == 3 and tier == 'quick':
            sigs = [[1, 1, 1], [1, 1, -1], [0, 1, 1], [-1, -1, -1], [0, 0, 1], [1, -1, 0]]
        if d == 4:
            sigs = [[1, 1, 1, 1], [0, 1, 1, 1]] if tier == 'quick' else [[1, 1, 1, 1], [1, 1, 1, -1], [0, 1, 1, 1], [1, -1, 1, -1], [0, 0, 1, 1], [-1, -1, -1, -1]]
        shapes = [('generic', lambda k: True)] + [(f'grade {g}', (lambda k, g=g: O.pc(k) == g)) for g in range(d + 1)]
        if d >= 2:
            shapes += [('grades 0+2', lambda k: O.pc(k) in (0, 2)), ('grades 1+%d' % d, lambda k, d=d: O.pc(k) in (1, d))]
        for sig in sigs:
            for name in ops:
                def body(ctx, d=d, sig=sig, name=name, shapes=shapes):
                    N = 2 ** d
                    failing = []
                    rcase = None
                    for xn, xf in shapes:
                        for yn, yf in shapes:
                            world, _ = _generic(d, sig)
                            x = RefMV(world, {k: IP.var(k) for k in range(N) if xf(k)})
                            y = RefMV(world, {k: IP.var(N + k) for k in range(N) if yf(k)})
                            r = H.closure(Interp(ctx, source_name=REL), fs[name])(x, y)
                            if isinstance(r, RefMV):
                                got = r._need()
                            elif isinstance(r, dict):
                                got = {k: IP.lift(v) if not isinstance(v, IP) else v for k, v in r.items()}
                            else:
                                raise OutOfSubset(f'codegen_{name} returned {type(r).__name__}')
                            got = {k: v for k, v in got.items() if v}
                            want = ref(name, x.comp, y.comp, sig, d)
                            bad = sorted(k for k in set(got) | set(want) if not (got.get(k, IP()) == want.get(k, IP())))
                            if bad:
                                failing.append((xn, yn, bad[:4]))
                                if rcase is None:
                                    rcase = _rcase(name, sig, x.comp, y.comp)
                    _ob(ctx, f'codegen_{name} on generic operands of {len(shapes)}x{len(shapes)} shapes == its definition over the reference product '
                        '(every coefficient the same polynomial)', not failing, meta={'failing_shapes': failing[:6], 'replay_case': rcase})
                H.run_paths(fs[name], f'generic,d={d},signature={sig}', body)


def vc_unary_generic(H, tier='quick', only_ops=None):
    """C04 / C05 on generic operands: codegen_neg / reverse / involute / conjugate / hodge / unhodge / polarity / unpolarity return
    the blade-wise maps (resp. the products with the pseudoscalar) the properties state, as polynomial identities; every
    signature with d <= 3, two (thorough: six) with d = 4."""
    ops = tuple(o for o in ('neg', 'reverse', 'involute', 'conjugate', 'hodge', 'unhodge', 'polarity', 'unpolarity') if only_ops is None or o in only_ops)
    fs = {n: H.fn(REL, f'codegen_{n}') for n in ops}
    for d in (1, 2, 3, 4):
        sigs = [list(s_) for s_ in itertools.product([1, -1, 0], repeat=d)]
        if d == 4:
            sigs = [[1, 1, 1, 1], [0, 1, 1, 1]] if tier == 'quick' else [[1, 1, 1, 1], [1, 1, 1, -1], [0, 1, 1, 1], [1, -1, 1, -1], [0, 0, 1, 1], [-1, -1, -1, -1]]
        for sig in sigs:
            for name in ops:
                def body(ctx, d=d, sig=sig, name=name):
                    world, x = _generic(d, sig)
                    full = 2 ** d - 1
                    pss = {full: IP({(): 1})}
                    sq = _gp(pss, pss, sig).get(0, IP())
                    try:
                        r = H.closure(Interp(ctx, source_name=REL), fs[name])(x)
                        raised = None
                    except ZeroDivisionError as e:
                        r, raised = None, e
                    if name == 'polarity' and not sq:
                        _ob(ctx, 'polarity with a degenerate pseudoscalar (pss * pss == 0) raises ZeroDivisionError', raised is not None)
                        if raised is not None:
                            ctx.notes.append('expected-raise'); raise raised
                        return r
                    if raised is not None:
                        raise raised
                    got = r._need() if isinstance(r, RefMV) else {k: (IP.lift(v) if not isinstance(v, IP) else v) for k, v in r.items()} if isinstance(r, dict) else None
                    if got is None:
                        raise OutOfSubset(f'codegen_{name} returned {type(r).__name__}')
                    got = {k: v for k, v in got.items() if v}
                    X = x.comp
                    want = {'neg': lambda: {k: -v for k, v in X.items()}, 'reverse': lambda: O.rev(X), 'involute': lambda: O.invo(X),
                            'conjugate': lambda: O.conj(X), 'hodge': lambda: _hodge(X, d), 'unhodge': lambda: _hodge(X, d, undual=True),
                            'unpolarity': lambda: _gp(X, pss, sig),
                            'polarity': lambda: _gp(X, {full: sq}, sig)}[name]()          # pss^-1 = pss * (pss*pss), pss*pss = +-1
                    want = {k: v for k, v in want.items() if v}
                    bad = sorted(k for k in set(got) | set(want) if not (got.get(k, IP()) == want.get(k, IP())))
                    _ob(ctx, f'codegen_{name} on a generic operand == its definition (blade-wise sign map / product with the pseudoscalar or its inverse)',
                        not bad, meta={'differing_blades': bad[:8], 'replay_case': _rcase(name, sig, X)})
                    return r
                H.run_paths(fs[name], f'generic,d={d},signature={sig}', body)
