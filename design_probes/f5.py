import z3, time
# Feasibility: codegen_product inner-step invariant preservation with arrays + uninterpreted ring.
R = z3.DeclareSort('Ring'); I = z3.IntSort()
add = z3.Function('add', R, R, R); mul = z3.Function('mul', R, R, R); neg = z3.Function('neg', R, R); zero = z3.Const('zero', R)
signs = z3.Function('signs', I, I, I)
kx = z3.Function('kx', I, I); ky = z3.Function('ky', I, I); vx = z3.Function('vx', I, R); vy = z3.Function('vy', I, R)
keyout = z3.Function('keyout', I, I, I); filt = z3.Function('filt', I, I, I, z3.BoolSort())
m = z3.Int('m')
def contributes(i,j,k): return z3.And(signs(kx(i),ky(j))!=0, filt(kx(i),ky(j),keyout(kx(i),ky(j))), keyout(kx(i),ky(j))==k)
def term(i,j): return z3.If(signs(kx(i),ky(j))>0, mul(vx(i),vy(j)), mul(neg(vx(i)),vy(j)))
Spec = z3.Function('Spec', I, I, I, R)     # Spec(k,i,j): sum over pairs before (i,j) in product order contributing to k
Has  = z3.Function('Has', I, I, I, z3.BoolSort())
present = z3.Array('present', I, z3.BoolSort()); den = z3.Array('den', I, R)
i,j,k = z3.Ints('i j k')
inv = lambda pres,dn,i,j: z3.ForAll([k], z3.And(pres[k]==Has(k,i,j), z3.Implies(pres[k], dn[k]==Spec(k,i,j))))
# unfolding axioms for the step (i,j)->(i,j+1), instantiated for all k
unf = z3.ForAll([k], z3.And(
    Has(k,i,j+1) == z3.Or(Has(k,i,j), contributes(i,j,k)),
    Spec(k,i,j+1) == z3.If(contributes(i,j,k), z3.If(Has(k,i,j), add(Spec(k,i,j), term(i,j)), term(i,j)), Spec(k,i,j))))
# symbolic execution of loop body
sg = signs(kx(i),ky(j)); ko = keyout(kx(i),ky(j))
take = z3.And(sg!=0, filt(kx(i),ky(j),ko))
t = term(i,j)
den2 = z3.If(take, z3.If(present[ko], z3.Store(den, ko, add(den[ko], t)), z3.Store(den, ko, t)), den)
pres2 = z3.If(take, z3.Store(present, ko, True), present)
s=z3.Solver(); s.set('timeout',60000)
s.add(inv(present,den,i,j), unf); s.add(z3.Not(inv(pres2,den2,i,j+1)))
t0=time.time(); print('codegen_product step', s.check(), round(time.time()-t0,2))
# mutated body: forgets the sign (always +)
tm = mul(vx(i),vy(j))
den3 = z3.If(take, z3.If(present[ko], z3.Store(den, ko, add(den[ko], tm)), z3.Store(den, ko, tm)), den)
s=z3.Solver(); s.set('timeout',60000)
s.add(inv(present,den,i,j), unf); s.add(z3.Not(inv(pres2,den3,i,j+1)))
t0=time.time(); r=s.check(); print('mutant (sign dropped)', r, round(time.time()-t0,2))
