import random, itertools, sympy, warnings
warnings.simplefilter('ignore')
from fractions import Fraction as F
import numpy as np
from kingdon import Algebra
from kingdon.multivector import MultiVector as MV
import ref
from p5 import todict
from p6 import rand_basis
random.seed(11)
# --- C18 matrix rep homomorphism on basis pairs + first column
bad=0
cfgs=[dict(p=p,q=q,r=r) for p,q,r in [(1,0,0),(2,0,0),(1,1,0),(2,0,1),(1,1,1),(3,0,0),(3,0,1),(2,2,0),(0,0,2),(1,2,1),(4,1,0)]]
cfgs+=[dict(signature=list(s)) for s in itertools.product([1,-1,0],repeat=3)]
cfgs+=[dict(signature=[0,1,-1,1]),dict(signature=[-1,0,1,0]),dict(signature=[1,-1,0,1,-1])]
for t in range(6):
    d=random.choice([2,3]); cfgs.append(dict(signature=[random.choice([1,-1,0]) for _ in range(d)], basis=rand_basis(d,random.choice([0,1,2]))))
for nm in ['2DPGA','3DPGA']: cfgs.append(nm)
for cfg in cfgs:
    alg=Algebra.fromname(cfg) if isinstance(cfg,str) else Algebra(**cfg)
    names=list(alg.canon2bin)
    issues=[]
    for i,(na,ka) in enumerate(alg.canon2bin.items()):
        Ma=alg.blades[na].asmatrix()
        col=np.zeros(len(alg)); col[i]=1
        if not np.allclose(Ma[:,0],col): issues.append(('col',na))
        for nb,kb in alg.canon2bin.items():
            Mb=alg.blades[nb].asmatrix()
            prod=(alg.blades[na]*alg.blades[nb])
            Mp=prod.asmatrix() if len(prod) else 0*Ma
            if not np.allclose(Ma@Mb, Mp): issues.append(('hom',na,nb))
    if issues: print('C18',cfg,len(issues),issues[:3])
print('C18 done')
