import z3, time
# (1) mathstr.__mul__ : string-level VC.  Signed-monomial abstraction: s = ("-" if neg else "") ++ body, body nonempty, body[0] != '-'
S=z3.StringSort()
def sm(name):
    neg=z3.Bool(name+'_neg'); body=z3.String(name+'_body')
    s=z3.Concat(z3.If(neg, z3.StringVal('-'), z3.StringVal('')), body)
    wf=z3.And(z3.Length(body)>0, z3.SubString(body,0,1)!=z3.StringVal('-'))
    return s,neg,body,wf
a,an,ab,awf=sm('a'); b,bn,bb,bwf=sm('b')
def first(s): return z3.SubString(s,0,1)
def tail(s): return z3.SubString(s,1,z3.Length(s)-1)
minus=z3.StringVal('-'); star=z3.StringVal('*')
# symbolic execution of the three paths of mathstr.__mul__
res = z3.If(first(b)!=minus, z3.Concat(a,star,b),
        z3.If(first(a)==minus, z3.Concat(tail(a),star,tail(b)),
              z3.Concat(minus,a,star,tail(b))))
spec = z3.Concat(z3.If(z3.Xor(an,bn), minus, z3.StringVal('')), ab, star, bb)
def prove(name, hyps, goal):
    s=z3.Solver(); s.set('timeout',60000); s.add(hyps); s.add(z3.Not(goal)); t=time.time(); r=s.check(); print(name,r,round(time.time()-t,2)); 
    if r==z3.sat: print(s.model())
prove('mathstr.__mul__', [awf,bwf], res==spec)
# __neg__
resn = z3.If(first(a)==minus, tail(a), z3.Concat(minus,a))
prove('mathstr.__neg__', [awf], resn==z3.Concat(z3.If(z3.Not(an),minus,z3.StringVal('')),ab))
# __add__: other is a sum-of-terms string whose first term is signed monomial: other = b ++ more ; self arbitrary
more=z3.String('more'); selfs=z3.String('selfs')
other=z3.Concat(b,more)
resa = z3.If(first(other)==minus, z3.Concat(selfs,other), z3.Concat(selfs,z3.StringVal('+'),other))
speca = z3.Concat(selfs, z3.If(bn, minus, z3.StringVal('+')), bb, more)
prove('mathstr.__add__', [bwf], resa==speca)
# __sub__: other a single signed monomial
ress = z3.If(first(b)==minus, z3.Concat(selfs,z3.StringVal('+'),tail(b)), z3.Concat(selfs,minus,b))
specs = z3.Concat(selfs, z3.If(bn, z3.StringVal('+'), minus), bb)
prove('mathstr.__sub__', [bwf], ress==specs)
