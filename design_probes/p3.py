import sys, random, itertools, traceback
from fractions import Fraction as F
from kingdon import Algebra
from kingdon.multivector import MultiVector as MV
import ref
random.seed(2)
def todict(mv): 
    d = {}
    for k, v in mv.items(): d[k] = d.get(k, 0) + v
    return d
def rnd_mv(alg, n=None, mx=4):
    N = 2 ** alg.d
    n = random.randint(1, min(N, mx)) if n is None else n
    keys = tuple(random.sample(range(N), n))
    vals = [F(random.randint(-5, 5), random.randint(1, 3)) for _ in keys]
    return MV.fromkeysvalues(alg, keys, vals)
bad = {}
def rec(name, *info): bad.setdefault(name, []).append(info)
sigs = [(0,0,0),(1,0,0),(0,1,0),(0,0,1),(2,0,0),(1,1,0),(2,0,1),(1,1,1),(3,0,0),(0,2,1),(3,0,1),(1,1,2),(2,2,0),(4,1,0),(3,1,1)]
import time
for (p,q,r) in sigs:
    t0=time.time()
    alg = Algebra(p,q,r)
    sig = [int(s) for s in alg.signature]
    one = {0: 1}
    for it in range(25 if alg.d<5 else 6):
        a = rnd_mv(alg, mx=3 if alg.d>=4 else 4); A = todict(a)
        try:
            ai = a.inv()
        except ZeroDivisionError:
            rec('inv:ZDE', (p,q,r), a.keys(), a.values()); continue
        except Exception as ex:
            rec('inv:EXC:'+type(ex).__name__, (p,q,r), a.keys(), a.values(), str(ex)[:200]); continue
        AI = todict(ai)
        l = ref.gp(A, AI, sig); rr = ref.gp(AI, A, sig)
        if not (ref.eq(l, one) and ref.eq(rr, one)):
            rec('inv:WRONG', (p,q,r), a.keys(), a.values(), AI, ref.nz(l), ref.nz(rr))
        b = rnd_mv(alg, mx=3); B = todict(b)
        try:
            d1 = todict(b / a); d2 = ref.gp(B, AI, sig)
            if not ref.eq(d1, d2): rec('div:WRONG', (p,q,r), b.keys(), a.keys(), ref.nz(d1), ref.nz(d2))
        except Exception as ex:
            rec('div:EXC:'+type(ex).__name__, (p,q,r), b.keys(), a.keys(), str(ex)[:200])
    print((p,q,r), 'done', round(time.time()-t0,1), flush=True)
for k, v in bad.items():
    print(k, len(v)); 
    for x in v[:3]: print('   ', x)
