import sys, random, itertools
from fractions import Fraction as F
from kingdon import Algebra
from kingdon.multivector import MultiVector as MV
import ref
from p5 import check_alg, perm_parity, bad, rec, todict
random.seed(5)
def rand_basis(d, si):
    gens=[format(si+j,'x') for j in range(d)]
    gorder=gens[:]; random.shuffle(gorder)
    basis=['e']+['e'+g for g in gorder]
    for k in range(2,d+1):
        bl=[]
        for comb in itertools.combinations(gens,k):
            c=list(comb); random.shuffle(c); bl.append('e'+''.join(c))
        random.shuffle(bl); basis+=bl
    return basis
for d in (3,4):
  for trial in range(25):
    si=random.choice([0,1,2])
    sigl=[random.choice([1,-1,0]) for _ in range(d)]
    basis=rand_basis(d,si)
    try:
        alg=Algebra(signature=sigl, basis=basis)
    except Exception as ex:
        rec('custom:EXC:'+type(ex).__name__, sigl, basis, str(ex)[:100]); continue
    met,orient=check_alg(alg, f'custom d={d} {sigl} {basis}')
    # blade by any spelling equals ordered product of generators
    for name,b in alg.canon2bin.items():
        if len(name)<3: continue
        for perm in itertools.permutations(name[1:]):
            sp='e'+''.join(perm)
            bl=alg.blades[sp]
            prod=None
            for c in perm:
                g=alg.blades['e'+c]
                prod = g if prod is None else prod*g
            if not ref.eq(todict(bl), todict(prod)): rec('spelling', sigl, basis, sp, todict(bl), todict(prod))
            # getattr on a multivector
            mv=MV.fromkeysvalues(alg,(b,),[F(7)])
            got=getattr(mv, sp); 
            # mv = 7 * e_name ; e_sp = par * e_name => coefficient wrt e_sp is 7*par
            par = -1 if perm_parity(list(perm), list(name[1:])) else 1
            if got != 7*par: rec('getattr', basis, name, sp, got, 7*par)
            # keyword constructor
            try:
                mv2=alg.multivector(**{sp: F(3), 'e': F(1)})
                if not ref.eq(todict(mv2), {0:1, b: 3*par}): rec('kwctor', basis, name, sp, todict(mv2), {b:3*par})
            except Exception as ex:
                rec('kwctor:EXC:'+type(ex).__name__, basis, name, sp, str(ex)[:80])
for k,v in bad.items():
    print(k,len(v)); print('   ',v[0])
print('done6')
