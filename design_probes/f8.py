import z3, time, sys
W=int(sys.argv[1]); TO=int(sys.argv[2])
exec(open('f1.py').read().split("I,J,K = BV")[0].replace("W = int(sys.argv[1]) if len(sys.argv)>1 else 16","").replace("def prove(name, claim, timeout=600):","def prove(name, claim, timeout=TO):"))
I,J=BV('I'),BV('J')
zI,nI = sign(I,J); zJ,nJ = sign(J,I)
pcI,pcJ,pcIJ = popcount(I),popcount(J),popcount(I&J)
# L-comm: sign(J,I) = (-1)^(gI*gJ - g(I&J)) sign(I,J)
par = z3.Extract(0,0, pcI*pcJ - pcIJ)
prove('L-comm', z3.And(zI==zJ, z3.Implies(z3.Not(zI), (nI^nJ)==par)))
# reverse sign: grade%4 in (2,3)  <=> bit1 of popcount
def rev(x): return z3.Extract(1,1,popcount(x))
def invl(x): return z3.Extract(0,0,popcount(x))
def conj(x): return z3.Extract(1,1,popcount(x)+1)   # g%4 in (1,2) <=> bit1 of g+1
prove('L-rev-anti', z3.Implies(z3.Not(zI), (rev(I^J)^nI) == (rev(I)^rev(J)^nJ)))
prove('L-conj-anti', z3.Implies(z3.Not(zI), (conj(I^J)^nI) == (conj(I)^conj(J)^nJ)))
prove('L-invol-auto', invl(I^J) == (invl(I)^invl(J)))
# hodge: complement disjoint => nonzero
full = BV('full')   # pss mask = 2^d-1 : any mask of form low ones
isfull = (full & (full+1)) == 0
comp = full - I
prove('L-hodge-nonzero', z3.Implies(z3.And(isfull, (I & ~full)==0), z3.And((comp & I)==0, (comp|I)==full, z3.Not(sign(I,comp)[0]))))
# L-rp filter: key_pss == kx+ky-k_out with k_out = pss-(kx^ky)  <=>  kx|ky == pss   (non-wrapping ints: extend)
E=lambda x: z3.ZeroExt(3,x)
kx,ky=I,J
kout = E(full)-E(kx^ky)
prove('L-rp-filter', z3.Implies(z3.And(isfull,(kx&~full)==0,(ky&~full)==0), (E(full)==E(kx)+E(ky)-kout) == ((kx|ky)==full)))
# L-cp: signs differ <=> anticommute
prove('L-cp-acp', z3.Implies(z3.Not(zI), (nI!=nJ) == (par==1)))
