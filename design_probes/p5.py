import sys, random, itertools
from fractions import Fraction as F
from kingdon import Algebra
from kingdon.multivector import MultiVector as MV
import ref
random.seed(4)
def todict(mv):
    d = {}
    for k, v in mv.items(): d[k] = d.get(k, 0) + v
    return d
bad={}
def rec(name,*info): bad.setdefault(name,[]).append(info)
def perm_parity(seq, target):
    # parity to reorder seq into target
    seq=list(seq); s=0
    for i,c in enumerate(target):
        j=seq.index(c); s+=j-i; seq.insert(i, seq.pop(j))
    return s%2
def check_alg(alg, tag):
    d=alg.d; N=2**d
    sig=[int(s) for s in alg.signature]
    # generator char -> (bit j, metric)
    if alg.basis:
        vecs=[b[1:] for b in alg.basis if len(b)==2]
    else:
        vecs=[alg.bin2canon[2**j][1:] for j in range(d)]
    vecbit={v:j for j,v in enumerate(vecs)}
    # metric per bit j: generator named char c has index int(c,16)-start_index into signature
    met=[sig[int(v,16)-alg.start_index] for v in vecs]
    # orientation of each named blade relative to ascending-bit order
    orient={}
    for name,b in alg.canon2bin.items():
        bits=[vecbit[c] for c in name[1:]]
        orient[b]= -1 if perm_parity(bits, sorted(bits)) else 1
    # expected signs: e_name(I) = orient(I) * E_I (E_I ascending-bit product, metric met)
    for I in range(N):
        for J in range(N):
            exp = orient[I]*orient[J]*orient[I^J]*ref.bsign(I,J,met)
            got = alg.signs[I,J]
            if exp!=got: rec(tag+':signs', I,J,got,exp, alg.bin2canon[I], alg.bin2canon[J])
    return met, orient
for (p,q,r) in [(2,0,0),(1,1,1),(2,0,1),(3,0,0),(3,0,1),(1,2,1),(0,0,3),(2,1,2)]:
    check_alg(Algebra(p,q,r), f'default{(p,q,r)}')
for sigl in itertools.product([1,-1,0], repeat=3):
    for si in (0,1,2,None):
        check_alg(Algebra(signature=list(sigl), start_index=si), f'sig{sigl},si={si}')
for nm in ['2DPGA','3DPGA','STAP']:
    check_alg(Algebra.fromname(nm), nm)
# custom bases exhaustive d=2 over start indexes, generator order, spelling
for (p,q,r) in [(2,0,0),(1,1,0),(1,0,1),(0,1,1),(0,0,2)]:
  for si in (0,1,2):
    gens=[str(si),str(si+1)]
    for gorder in itertools.permutations(gens):
      for biv in (''.join(gens), ''.join(reversed(gens))):
        basis=['e']+['e'+g for g in gorder]+['e'+biv]
        try:
            alg=Algebra(p,q,r,basis=basis)
            check_alg(alg, f'custom{(p,q,r)}{basis}')
        except Exception as ex:
            rec('custom:EXC:'+type(ex).__name__, (p,q,r), basis, str(ex)[:100])
for k,v in bad.items():
    print(k,len(v)); print('   ',v[0])
print('done')
