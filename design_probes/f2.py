import z3, time, sys, itertools
W = int(sys.argv[1]) if len(sys.argv)>1 else 6   # number of generators; chars are ints in [0,W)
CB = 5
def C(v): return z3.BitVecVal(v, CB)
class SList:
    """bounded symbolic list: cells[0..cap), symbolic length n (Python int expr as z3 Int? use BV)"""
    def __init__(self, cells, n): self.cells=list(cells); self.n=n
    cap = property(lambda s: len(s.cells))
def ite_list(c, a, b): return [z3.If(c,x,y) for x,y in zip(a,b)]
LB = 6
def L(v): return z3.BitVecVal(v, LB)
def contains(l, ch): return z3.Or([z3.And(z3.ULT(L(i), l.n), l.cells[i]==ch) for i in range(l.cap)])
def index(l, ch):
    idx = L(l.cap)
    for i in reversed(range(l.cap)):
        idx = z3.If(z3.And(z3.ULT(L(i), l.n), l.cells[i]==ch), L(i), idx)
    return idx
def append(l, ch):
    return SList([z3.If(l.n==L(i), ch, l.cells[i]) for i in range(l.cap)], l.n+1)
def remove_at(l, idx):
    cells=[z3.If(z3.UGE(L(i), idx), (l.cells[i+1] if i+1<l.cap else C(0)), l.cells[i]) for i in range(l.cap)]
    return SList(cells, l.n-1)
def move(l, idx, i):  # blade1.insert(i, blade1.pop(idx)) with i<=idx
    val = sel(l, idx)
    cells=[]
    for k in range(l.cap):
        kk=L(k)
        cells.append(z3.If(kk==i, val, z3.If(z3.And(z3.UGT(kk,i), z3.ULE(kk,idx)), l.cells[k-1] if k>0 else C(0), l.cells[k])))
    return SList(cells, l.n)
def sel(l, idx):
    v = C(0)
    for i in range(l.cap): v = z3.If(idx==L(i), l.cells[i], v)
    return v
def sym_list(name, cap):
    return SList([z3.BitVec(f'{name}_{i}', CB) for i in range(cap)], z3.BitVec(f'{name}_n', LB))
def wf(l, maxn):
    cs=[z3.ULE(l.n, L(maxn))]
    for i in range(l.cap):
        cs.append(z3.Implies(z3.ULT(L(i),l.n), z3.ULT(l.cells[i], C(W))))
        for j in range(i+1,l.cap):
            cs.append(z3.Implies(z3.ULT(L(j),l.n), l.cells[i]!=l.cells[j]))
    return z3.And(cs)
def inv_par(l):
    p = z3.BoolVal(False)
    for i in range(l.cap):
        for j in range(i+1,l.cap):
            p = z3.Xor(p, z3.And(z3.ULT(L(j),l.n), z3.UGT(l.cells[i], l.cells[j])))
    return p
def mask(l):
    return [z3.Or([z3.And(z3.ULT(L(i),l.n), l.cells[i]==C(g)) for i in range(l.cap)]) for g in range(W)]
b1 = sym_list('b1', W); b2 = sym_list('b2', W); tg = sym_list('tg', W)
pre = [wf(b1,W), wf(b2,W), wf(tg,W)]
m1, m2, mt = mask(b1), mask(b2), mask(tg)
has_target = z3.Bool('has_target')
pre.append(z3.Implies(has_target, z3.And([mt[g]==z3.Xor(m1[g],m2[g]) for g in range(W)])))
# ---- symbolic execution of the real algorithm (hand-unrolled here) ----
cur = SList(b1.cells + [C(0)]*0, b1.n)
swaps_par = z3.BoolVal(False)
elim = [z3.BoolVal(False)]*W
for t in range(W):
    active = z3.ULT(L(t), b2.n)
    ch = b2.cells[t]
    isin = contains(cur, ch)
    idx = index(cur, ch)
    # branch not in: append
    app = append(cur, ch)
    rem = remove_at(cur, idx)
    dsw = (cur.n - idx - 1)
    new_par = z3.Xor(swaps_par, z3.Extract(0,0,dsw)==1)
    ncells = ite_list(z3.And(active, isin), rem.cells, ite_list(active, app.cells, cur.cells))
    nn = z3.If(z3.And(active,isin), rem.n, z3.If(active, app.n, cur.n))
    swaps_par = z3.If(z3.And(active,isin), new_par, swaps_par)
    elim = [z3.Or(e, z3.And(active, isin, ch==C(g))) for g,e in enumerate(elim)]
    cur = SList(ncells, nn)
for i in range(W):
    active = z3.And(has_target, z3.ULT(L(i), tg.n))
    ch = tg.cells[i]
    idx = index(cur, ch)
    mv = move(cur, idx, L(i))
    swaps_par = z3.If(active, z3.Xor(swaps_par, z3.Extract(0,0,idx - L(i))==1), swaps_par)
    cur = SList(ite_list(active, mv.cells, cur.cells), cur.n)
# ---- spec ----
def reorder_par(m1,m2):
    p = z3.BoolVal(False)
    for i in range(W):
        for j in range(i):
            p = z3.Xor(p, z3.And(m1[i], m2[j]))
    return p
final_inv = inv_par(cur)
spec_par = z3.Xor(z3.Xor(inv_par(b1), inv_par(b2)), z3.Xor(final_inv, reorder_par(m1,m2)))
post = z3.And(swaps_par == spec_par,
              z3.And([elim[g]==z3.And(m1[g],m2[g]) for g in range(W)]),
              z3.And([mask(cur)[g]==z3.Xor(m1[g],m2[g]) for g in range(W)]),
              z3.Implies(has_target, z3.And(cur.n==tg.n, z3.And([z3.Implies(z3.ULT(L(i),tg.n), cur.cells[i]==tg.cells[i]) for i in range(W)]))))
s = z3.Solver(); s.set('timeout', 1200*1000)
s.add(pre); s.add(z3.Not(post))
t=time.time(); r=s.check(); print('W',W,r,round(time.time()-t,1),'s')
if r==z3.sat:
    m=s.model(); 
    def show(l): 
        n=m.eval(l.n,model_completion=True).as_long(); return [m.eval(c,model_completion=True).as_long() for c in l.cells[:n]]
    print(show(b1),show(b2),show(tg),m.eval(has_target))
