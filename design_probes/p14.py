import random, itertools, sympy, warnings
warnings.simplefilter('ignore')
from fractions import Fraction as F
import numpy as np
from kingdon import Algebra
from kingdon.multivector import MultiVector as MV
from kingdon.operator_dict import AlgebraError
import ref
from p5 import todict, perm_parity
# --- C14 rejection clause
A=Algebra(signature=[1,-1]); B=Algebra(signature=[-1,1]); C=Algebra(1,1)
x=A.vector([1,2]); y=B.vector([3,4])
for nm,(u,v) in {'sig[1,-1] x sig[-1,1]':(x,y), 'Algebra(2) x Algebra(2,start_index=0)':(Algebra(2).vector([1,2]),Algebra(2,start_index=0).vector([3,4])),
                 'Algebra(2) x Algebra(1,1)':(Algebra(2).vector([1,2]),Algebra(1,1).vector([3,4])),
                 '3DPGA x Algebra(3,0,1)':(Algebra.fromname('3DPGA').vector([1,2,3,4]),Algebra(3,0,1).vector([1,2,3,4])),
                 'Algebra(2) x Algebra(2,cse=False)':(Algebra(2).vector([1,2]),Algebra(2,cse=False).vector([3,4])),
                 'basis perm':(Algebra(2,basis=['e','e1','e2','e12']).vector([1,2]),Algebra(2,basis=['e','e2','e1','e12']).vector([3,4]))}.items():
    try: print(nm,'->',u*v, '| reversed', v*u)
    except AlgebraError as ex: print(nm,'-> AlgebraError')
    except Exception as ex: print(nm,'->',type(ex).__name__,ex)
# --- C14 hodge with odd pss spelling
cust=Algebra(3,basis=['e','e1','e2','e3','e12','e13','e23','e132'])
dflt=Algebra(3)
xc=cust.multivector(e1=1,e2=2,e3=3,e12=4,e13=5,e23=6,e=7,e132=8)
# relabel: named blade -> ordered product in default
def relabel(mv, src, dst):
    out={}
    for k,v in mv.items():
        name=src.bin2canon[k]
        prod=dst.blades['e']
        for c in name[1:]: prod=prod*dst.blades['e'+c]
        for kk,vv in prod.items(): out[kk]=out.get(kk,0)+vv*v
    return out
for nm,f in {'hodge':lambda m:m.hodge(),'polarity':lambda m:m.polarity(),'gp':lambda m:m*m,'rp':lambda m:m&m,'dual':lambda m:m.dual(),'inv':lambda m:m.inv(), 'rev':lambda m:~m}.items():
    lhs=relabel(f(xc),cust,dflt)
    xd=MV.fromkeysvalues(dflt,*zip(*relabel(xc,cust,dflt).items())); xd=MV.fromkeysvalues(dflt,tuple(xd.keys()),list(xd.values()))
    rhs=todict(f(xd))
    ok=all(abs(float(lhs.get(k,0))-float(rhs.get(k,0)))<1e-9 for k in set(lhs)|set(rhs))
    print('C14 odd-pss',nm,'commutes' if ok else f'DIFFERS {lhs} vs {rhs}')
