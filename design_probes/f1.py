import z3, time, sys
W = int(sys.argv[1]) if len(sys.argv)>1 else 16
BV = lambda n: z3.BitVec(n, W)
def popcount(x):
    # returns BV(W) count
    s = z3.BitVecVal(0, W)
    for i in range(W): s = s + z3.ZeroExt(W-1, z3.Extract(i,i,x))
    return s
def parity(x):
    p = z3.Extract(0,0,x)
    for i in range(1,W): p = p ^ z3.Extract(i,i,x)
    return p  # 1-bit
def reorder_par(a,b):
    # parity of #{(i,j): i in a, j in b, i>j}
    p = z3.BitVecVal(0,1)
    for i in range(1,W):
        bit = z3.Extract(i,i,a)
        low = b & z3.BitVecVal((1<<i)-1, W)
        p = p ^ (bit & parity(low))
    return p
# signature: two masks neg (bit set => -1) and zero (bit set => 0)
neg, zero = BV('neg'), BV('zero')
def sign(a,b):
    # returns (iszero: Bool, negative: 1-bit)
    m = a & b
    isz = (m & zero) != 0
    ng = reorder_par(a,b) ^ parity(m & neg)
    return isz, ng
def prove(name, claim, timeout=600):
    s = z3.Solver(); s.set('timeout', timeout*1000); s.add(z3.Not(claim))
    t=time.time(); r = s.check(); print(name, 'W=',W, r, round(time.time()-t,2),'s', flush=True)
    if r==z3.sat: print(s.model())
I,J,K = BV('I'),BV('J'),BV('K')
# associativity: sign(I,J)*sign(I^J,K) == sign(J,K)*sign(I,J^K)
z1,n1 = sign(I,J); z2,n2 = sign(I^J,K); z3_,n3 = sign(J,K); z4,n4 = sign(I,J^K)
lhs_zero = z3.Or(z1,z2); rhs_zero = z3.Or(z3_,z4)
prove('assoc', z3.And(lhs_zero==rhs_zero, z3.Implies(z3.Not(lhs_zero), (n1^n2)==(n3^n4))))
# filter lemmas
kx,ky = BV('kx'),BV('ky')
X = z3.ZeroExt(2,kx); Y = z3.ZeroExt(2,ky)
prove('op filter', ((kx^ky) == kx+ky) == ((kx&ky)==0))  # note: python ints unbounded; handle carry separately
prove('op filter nooverflow', (z3.ZeroExt(2,kx^ky) == X+Y) == ((kx&ky)==0))
prove('op grade', ((kx&ky)==0) == (popcount(kx^ky) == popcount(kx)+popcount(ky)))
sub = lambda a,b: (a&b)==a
absdiff = z3.If(z3.UGE(kx,ky), kx-ky, ky-kx)
prove('ip filter', ((kx^ky)==absdiff) == z3.Or(sub(kx,ky), sub(ky,kx)))
pcx,pcy,pcz = popcount(kx),popcount(ky),popcount(kx^ky)
prove('ip grade', z3.Or(sub(kx,ky),sub(ky,kx)) == (pcz == z3.If(z3.UGE(pcx,pcy),pcx-pcy,pcy-pcx)))
