import random, traceback
from fractions import Fraction as F
from kingdon import Algebra
from kingdon.multivector import MultiVector as MV
import ref
from p5 import todict
random.seed(7)
alg=Algebra(3,0,1)
def rnd(alg,mx=4):
    N=2**alg.d; n=random.randint(1,mx); keys=tuple(random.sample(range(N),n))
    return MV.fromkeysvalues(alg,keys,[F(random.randint(-4,4) or 1,random.randint(1,3)) for _ in keys])
fs = {
 'gp': lambda a,b: a*b, 'ip': lambda a,b: a|b, 'op': lambda a,b: a^b, 'rp': lambda a,b: a&b, 'sw': lambda a,b: a>>b,
 'proj': lambda a,b: a@b, 'cp': lambda a,b: a.cp(b), 'acp': lambda a,b: a.acp(b), 'add': lambda a,b: a+b, 'sub': lambda a,b: a-b,
 'div': lambda a,b: a/b, 'sp': lambda a,b: a.sp(b), 'lc': lambda a,b: a.lc(b), 'rc': lambda a,b: a.rc(b),
 'inv': lambda a,b: a.inv(), 'rev': lambda a,b: ~a, 'involute': lambda a,b: a.involute(), 'conj': lambda a,b: a.conjugate(),
 'normsq': lambda a,b: a.normsq(), 'dual': lambda a,b: a.dual(), 'undual': lambda a,b: a.undual(), 'neg': lambda a,b: -a,
 'grade': lambda a,b: a.grade(1,2), 'grade0': lambda a,b: a.grade(0), 'numL': lambda a,b: 2*a, 'numR': lambda a,b: a*2, 'num+': lambda a,b: a+2,
 '+num': lambda a,b: 2+a, 'num-': lambda a,b: a-2, '-num': lambda a,b: 2-a, 'divnum': lambda a,b: a/2, 'numdiv': lambda a,b: 2/a,
 'pow2': lambda a,b: a**2, 'pow3': lambda a,b: a**3, 'pow0': lambda a,b: a**0, 'pow-1': lambda a,b: a**-1, 'pow-2': lambda a,b: a**-2,
 'coef': lambda a,b: a.e1 * b, 'coef2': lambda a,b: a.e12 + b, 'coefmiss': lambda a,b: b*a.e0123,
 'num^': lambda a,b: 2^a, 'num|': lambda a,b: 2|a, 'num&': lambda a,b: 2&a, 'num>>': lambda a,b: 2>>a, 'num@': lambda a,b: 2@a,
 'norm': lambda a,b: a.norm(), 'normalized': lambda a,b: a.normalized(), 'sqrt': lambda a,b: (a*a).grade(0).sqrt(),
 'nest': lambda a,b: (a*b + b*a)/2 - a.acp(b), 'hodge':lambda a,b: a.hodge(), 'unhodge':lambda a,b: a.unhodge(),
 'outerexp': lambda a,b: a.grade(2).outerexp(), 'pow0.5': lambda a,b: (a.grade(0)+3)**0.5,
}
res={}
for name,f in fs.items():
    def mk(f,name):
        def g(a,b): return f(a,b)
        g.__name__='f_'+''.join(c if c.isalnum() else '_' for c in name)
        return g
    for sym in (False, True):
        random.seed(hash(name)%1000)
        out=[]
        for it in range(6):
            a,b=rnd(alg),rnd(alg)
            try: exp=f(a,b); E=todict(exp)
            except Exception as ex: exp=None; E='EXC:'+type(ex).__name__
            try:
                rf=alg.register(mk(f,name), symbolic=sym) if sym else alg.register(mk(f,name))
                got=rf(a,b); G=todict(got)
            except Exception as ex: G='EXC:'+type(ex).__name__+':'+str(ex)[:60]
            if isinstance(E,dict) and isinstance(G,dict):
                try:
                    same = all(abs(float(ref.nz(E).get(k,0))-float(ref.nz(G).get(k,0)))<1e-9 for k in set(E)|set(G))
                except Exception as ex: same='cmpEXC'
                out.append('ok' if same else f'DIFF {a.keys()} {b.keys()} exp={E} got={G}')
            elif isinstance(E,str) and isinstance(G,str): out.append('both-exc')
            elif isinstance(G,str): out.append('reg-raises '+G)
            else: out.append(f'plain-raises({E}) but reg returns {G}')
        from collections import Counter
        c=Counter(o if o in('ok','both-exc') else o[:150] for o in out)
        print(name, 'sym' if sym else 'num', dict(c))
