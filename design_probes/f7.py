import z3, time
# Same per-(n,p) step VCs, but parity expressions are kept in XOR-normal form (set of atoms, symmetric difference)
# so that identical comparator atoms cancel syntactically before anything reaches the solver.
CB=5; G=16
def C(v): return z3.BitVecVal(v,CB)
class X:
    def __init__(s, atoms=(), const=False): s.atoms=frozenset(atoms); s.const=const
    def __xor__(a,b):
        if isinstance(b,bool): return X(a.atoms, a.const ^ b)
        return X(a.atoms ^ b.atoms, a.const ^ b.const)
    def term(s, table):
        t=z3.BoolVal(s.const)
        for a in sorted(s.atoms): t=z3.Xor(t, table[a])
        return t
table={}
def gt(a_name,a,b_name,b):
    key=('gt',a_name,b_name); table[key]=z3.UGT(a,b); return X([key])
def P(cells):
    r=X()
    for i in range(len(cells)):
        for j in range(i+1,len(cells)): r=r^gt(cells[i][0],cells[i][1],cells[j][0],cells[j][1])
    return r
def cntgt(cells,c):
    r=X()
    for x in cells:
        if x[0]!=c[0]: r=r^gt(x[0],x[1],c[0],c[1])
    return r
def wf(cells):
    cs=[z3.ULT(x[1],C(G)) for x in cells]
    if len(cells)>1: cs.append(z3.Distinct(*[x[1] for x in cells]))
    return cs
nq=0; worst=0; t_all=time.time(); resid=0
for n in range(0,17):
    cur=[(f'c{i}',z3.BitVec(f'c{i}',CB)) for i in range(n)]
    ch=('ch',z3.BitVec('ch',CB))
    # path A: append (ch distinct from all)
    lhs = P(cur) ^ P(cur+[ch])            # change of P
    rhs = cntgt(cur,ch)                   # ghost change
    d = lhs ^ rhs
    resid=max(resid,len(d.atoms))
    s=z3.Solver(); s.set('timeout',10000); s.add(wf(cur+[ch])); s.add(d.term(table))   # must be unsat: d == False
    t=time.time(); r=s.check(); worst=max(worst,time.time()-t); nq+=1; assert r==z3.unsat,('A',n,r)
    for p in range(n):
        c=cur[p]                           # ch substituted by cur[p] (path condition)
        cur3=cur[:p]+cur[p+1:]
        d = P(cur) ^ P(cur3) ^ cntgt(cur,c) ^ ((n-p-1)%2==1)
        resid=max(resid,len(d.atoms))
        s=z3.Solver(); s.set('timeout',10000); s.add(wf(cur)); s.add(d.term(table))
        t=time.time(); r=s.check(); worst=max(worst,time.time()-t); nq+=1; assert r==z3.unsat,('B',n,p,r)
print('loop0 queries',nq,'worst',round(worst,3),'max residual atoms',resid,'wall',round(time.time()-t_all,1),flush=True)
nq=0; worst=0; t_all=time.time()
for n in range(1,17):
    cur=[(f'c{i}',z3.BitVec(f'c{i}',CB)) for i in range(n)]
    for i in range(n):
        for idx in range(i,n):
            new=cur[:i]+[cur[idx]]+cur[i:idx]+cur[idx+1:]
            d=P(cur)^P(new)^((idx-i)%2==1)
            s=z3.Solver(); s.set('timeout',10000); s.add(wf(cur)); s.add(d.term(table))
            t=time.time(); r=s.check(); worst=max(worst,time.time()-t); nq+=1; assert r==z3.unsat,(n,i,idx,r)
print('loop1 queries',nq,'worst',round(worst,3),'wall',round(time.time()-t_all,1),flush=True)
# mutant off-by-one in loop 0
n=6;p=2;cur=[(f'c{i}',z3.BitVec(f'c{i}',CB)) for i in range(n)];c=cur[p];cur3=cur[:p]+cur[p+1:]
d=P(cur)^P(cur3)^cntgt(cur,c)^((n-p)%2==1); s=z3.Solver(); s.add(wf(cur)); s.add(d.term(table)); print('mutant',s.check())
