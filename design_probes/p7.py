import sys, random, itertools
from fractions import Fraction as F
from kingdon import Algebra
from kingdon.multivector import MultiVector as MV
import ref
from p5 import check_alg, perm_parity, todict
from p6 import rand_basis
bad={}
def rec(name,*info): bad.setdefault(name,[]).append(info)
random.seed(6)
def rnd_mv(alg, mx=4):
    N = 2 ** alg.d
    n = random.randint(0, min(N, mx))
    keys = tuple(random.sample(range(N), n))
    vals = [F(random.randint(-5, 5), random.randint(1, 3)) for _ in keys]
    return MV.fromkeysvalues(alg, keys, vals)
def sub(a,b): return ref.add(a,b,-1)
algs=[]
for (p,q,r) in [(1,0,0),(2,0,0),(1,1,0),(0,0,1),(2,0,1),(1,1,1),(3,0,0),(3,0,1),(0,0,2),(1,0,2),(2,1,0),(4,0,0),(2,2,0),(1,3,0),(4,1,0)]:
    algs.append((f'{(p,q,r)}', Algebra(p,q,r)))
for nm in ['2DPGA','3DPGA','STAP']: algs.append((nm, Algebra.fromname(nm)))
for d in (2,3,4):
    for t in range(6):
        sigl=[random.choice([1,-1,0]) for _ in range(d)]
        b=rand_basis(d, random.choice([0,1,2]))
        algs.append((f'custom{sigl}{b}', Algebra(signature=sigl,basis=b)))
for tag,alg in algs:
    N=2**alg.d; pssk=N-1
    PSS=todict(alg.pss)
    # E ^ hodge(E) = pss
    for name,b in alg.canon2bin.items():
        E=alg.blades[name]
        try:
            w = E ^ E.hodge()
            if not ref.eq(todict(w), PSS): rec('E^hodge(E)', tag, name, todict(w), PSS)
        except Exception as ex: rec('hodge:EXC', tag, name, repr(ex)[:100])
    for it in range(20):
        x=rnd_mv(alg); y=rnd_mv(alg); X=todict(x)
        for f,g,nm in [(lambda m:m.hodge(),lambda m:m.unhodge(),'hodge'),(lambda m:m.polarity(),lambda m:m.unpolarity(),'polarity')]:
            try:
                if not ref.eq(todict(g(f(x))),X): rec(nm+':un(dual)', tag, x.keys(), todict(g(f(x))), X)
                if not ref.eq(todict(f(g(x))),X): rec(nm+':dual(un)', tag, x.keys(), todict(f(g(x))), X)
            except ZeroDivisionError:
                if nm=='polarity' and alg.r>0: pass
                else: rec(nm+':ZDE', tag, x.keys())
            except Exception as ex: rec(nm+':EXC:'+type(ex).__name__, tag, x.keys(), repr(ex)[:100])
        if alg.r==0:
            try:
                pol=todict(x.polarity()); exp=todict(x*MV.fromkeysvalues(alg,(N-1,),[F(1)]).inv())
                if not ref.eq(pol,exp): rec('polarity!=x*pss^-1', tag, x.keys(), pol, exp)
            except Exception as ex: rec('pol2:EXC:'+type(ex).__name__, tag, x.keys(), repr(ex)[:100])
        else:
            try: x.polarity(); 
            except ZeroDivisionError: pass
            else:
                if x.keys(): rec('polarity no ZDE on degenerate', tag, x.keys())
        try:
            rp=todict(x & y); exp=todict((x.hodge() ^ y.hodge()).unhodge())
            if not ref.eq(rp,exp): rec('rp', tag, x.keys(), y.keys(), rp, exp)
            idl=todict(alg.pss & x); idr=todict(x & alg.pss)
            if not ref.eq(idl,X) or not ref.eq(idr,X): rec('rp identity', tag, x.keys(), idl, idr, X)
        except Exception as ex: rec('rp:EXC:'+type(ex).__name__, tag, x.keys(), repr(ex)[:100])
for k,v in bad.items():
    print(k,len(v)); print('   ',v[0])
print('done7')
