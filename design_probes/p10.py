from fractions import Fraction as F
from kingdon import Algebra
from kingdon.multivector import MultiVector as MV
from p5 import todict
alg=Algebra(3)
e1,e2,e3=alg.blades.e1,alg.blades.e2,alg.blades.e3
print('[e1]^e2 =', [str(v) for v in ([e1]^e2)], ' expected e12')
print('(lambda:e1)^e2 =', (lambda:e1)^e2)
print('e2^[e1] =', [str(v) for v in (e2^[e1])])
print('[e1]*e2 =', [str(v) for v in ([e1]*e2)])
print('[e1]|e12 =', [str(v) for v in ([e1]|alg.blades.e12)], 'exp', e1|alg.blades.e12)
print('[e1]&e12 =', [str(v) for v in ([alg.blades.e13]&alg.blades.e12)], 'exp', alg.blades.e13&alg.blades.e12)
print('[e1]>>e12 =', [str(v) for v in ([e1]>>alg.blades.e12)], 'exp', e1>>alg.blades.e12)
print('[e1]-e2 =', [str(v) for v in ([e1]-e2)])
print('[e12]@e1 =', [str(v) for v in ([alg.blades.e12+e1]@e1)], (alg.blades.e12+e1)@e1)
