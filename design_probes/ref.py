"""Independent reference: Clifford algebra over bitmasks (generator j <-> bit j, metric sig[j])."""
from fractions import Fraction
import itertools, random
def pc(x): return bin(x).count('1')
def reorder_sign(a, b):
    s = 0; a >>= 1
    while a:
        s += pc(a & b); a >>= 1
    return -1 if s & 1 else 1
def bsign(a, b, sig):
    s = reorder_sign(a, b)
    m = a & b; j = 0
    while m:
        if m & 1: s *= sig[j]
        m >>= 1; j += 1
    return s
def gp(A, B, sig, filt=None):
    R = {}
    for ka, va in A.items():
        for kb, vb in B.items():
            s = bsign(ka, kb, sig)
            k = ka ^ kb
            if filt and not filt(ka, kb, k): continue
            if s == 0: continue
            R[k] = R.get(k, 0) + s * va * vb
    return R
def add(A, B, c=1):
    R = dict(A)
    for k, v in B.items(): R[k] = R.get(k, 0) + c * v
    return R
def scale(A, c): return {k: c * v for k, v in A.items()}
def grade_sel(f): return lambda ka, kb, k: f(pc(ka), pc(kb), pc(k))
op = lambda A, B, sig: gp(A, B, sig, grade_sel(lambda r, s, t: t == r + s))
ip = lambda A, B, sig: gp(A, B, sig, grade_sel(lambda r, s, t: t == abs(r - s)))
lc = lambda A, B, sig: gp(A, B, sig, grade_sel(lambda r, s, t: t == s - r))
rc = lambda A, B, sig: gp(A, B, sig, grade_sel(lambda r, s, t: t == r - s))
sp = lambda A, B, sig: gp(A, B, sig, grade_sel(lambda r, s, t: t == 0))
def cp(A, B, sig): return scale(add(gp(A, B, sig), gp(B, A, sig), -1), Fraction(1, 2))
def acp(A, B, sig): return scale(add(gp(A, B, sig), gp(B, A, sig), 1), Fraction(1, 2))
def rev(A): return {k: (-v if pc(k) % 4 in (2, 3) else v) for k, v in A.items()}
def inv_(A): return {k: (-v if pc(k) % 2 else v) for k, v in A.items()}
def conj(A): return {k: (-v if pc(k) % 4 in (1, 2) else v) for k, v in A.items()}
def nz(A): return {k: v for k, v in A.items() if v != 0}
def eq(A, B): return nz(A) == nz(B)
