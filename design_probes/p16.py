import random, itertools, sympy, warnings, math, cmath
warnings.simplefilter('ignore')
from fractions import Fraction as F
import numpy as np
from kingdon import Algebra
from kingdon.multivector import MultiVector as MV
import ref
from p5 import todict
random.seed(12)
def close(a,b,tol=1e-8):
    ks=set(a)|set(b)
    return all(abs(complex(a.get(k,0))-complex(b.get(k,0)))<tol for k in ks)
# ---- C19 exp vs power series
def series_exp(x, n=40):
    alg=x.algebra; term=alg.scalar([1.0]); tot=alg.scalar([1.0])
    for k in range(1,n):
        term=term*x*(1.0/k); tot=tot+term
    return tot
for (p,q,r) in [(2,0,0),(1,1,0),(2,0,1),(3,0,0),(1,1,1),(3,1,0)]:
    alg=Algebra(p,q,r)
    for name,k in alg.canon2bin.items():
        if k==0: continue
        for val in (0.7,-1.3, 2):
            x=MV.fromkeysvalues(alg,(k,),[val])
            try:
                e=todict(x.exp()); s=todict(series_exp(MV.fromkeysvalues(alg,(k,),[float(val)])))
                if not close(e,s): print('C19 exp DIFF',(p,q,r),name,val,e,s)
            except Exception as ex: print('C19 exp EXC',(p,q,r),name,val,type(ex).__name__,str(ex)[:80])
    # vectors (simple): random vector
    v=alg.vector([random.uniform(-1,1) for _ in range(alg.d)])
    try:
        e=todict(v.exp()); s=todict(series_exp(v))
        if not close(e,s): print('C19 exp vec DIFF',(p,q,r),e,s)
    except Exception as ex: print('C19 exp vec EXC',(p,q,r),type(ex).__name__,str(ex)[:80])
    # numpy array valued
    try:
        va=alg.vector(np.random.uniform(-1,1,(alg.d,3)))
        ea=va.exp()
        for i in range(3):
            if not close(todict(ea[i]) , todict(series_exp(va[i]))): print('C19 exp array DIFF',(p,q,r),i, todict(ea[i]), todict(series_exp(va[i])))
    except Exception as ex: print('C19 exp arr EXC',(p,q,r),type(ex).__name__,str(ex)[:80])
# sqrt of study numbers
for (p,q,r) in [(2,0,0),(1,1,0),(2,0,1),(3,0,0),(3,0,1)]:
    alg=Algebra(p,q,r)
    for name,k in alg.canon2bin.items():
        if k==0: continue
        x=MV.fromkeysvalues(alg,(0,k),[2.5,0.8])
        try:
            s=x.sqrt(); 
            if not close(todict(s*s),todict(x)): print('C19 sqrt DIFF',(p,q,r),name,todict(s*s),todict(x))
            h=x**0.5
            if not close(todict(h),todict(s)): print('C19 pow.5 DIFF')
        except Exception as ex: print('C19 sqrt EXC',(p,q,r),name,type(ex).__name__,str(ex)[:80])
    # keys in other order
    x=MV.fromkeysvalues(alg,(3,0),[0.8,2.5])
    try:
        s=x.sqrt()
        if not close(todict(s*s),todict(x)): print('C19 sqrt permuted DIFF',(p,q,r),todict(s*s),todict(x))
    except Exception as ex: print('C19 sqrt perm EXC',(p,q,r),type(ex).__name__,str(ex)[:80])
# outerexp
alg=Algebra(4,0,1)
B=alg.bivector([F(random.randint(-3,3)) for _ in range(10)])
oe=B.outerexp(); exp_=alg.scalar([F(1)])+B+(B^B)*F(1,2)
print('outerexp ok', ref.eq(todict(oe),todict(exp_)))
print('outersin', ref.eq(todict(B.outersin()),todict(B)), 'outercos', ref.eq(todict(B.outercos()),todict(alg.scalar([F(1)])+(B^B)*F(1,2))))
ot=B.outertan(); print('outertan', ref.eq(todict(ot), todict(B.outersin()*B.outercos().inv())), ref.eq(todict(ot), todict(B.outersin()/B.outercos())))
# pow
x=alg.multivector(e1=F(1),e12=F(2),e=F(3))
print('pow3', ref.eq(todict(x**3),todict(x*x*x)), 'pow-2', ref.eq(todict(x**-2), todict(x.inv()*x.inv())), 'pow0', todict(x**0))
n=x.normalized(); print('normalized normsq', todict(n.normsq()))
print('C19 done')
