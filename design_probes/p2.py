import sys, random, itertools, traceback
from fractions import Fraction as F
from kingdon import Algebra
from kingdon.multivector import MultiVector as MV
import ref
random.seed(1)
def todict(mv): 
    d = {}
    for k, v in mv.items(): d[k] = d.get(k, 0) + v
    return d
def rnd_mv(alg, n=None):
    N = 2 ** alg.d
    n = random.randint(0, min(N, 5)) if n is None else n
    keys = tuple(random.sample(range(N), n))
    vals = [F(random.randint(-5, 5), random.randint(1, 3)) for _ in keys]
    return MV.fromkeysvalues(alg, keys, vals)
bad = {}
sigs = [(2,0,0),(1,1,0),(2,0,1),(1,1,1),(3,0,0),(0,2,1),(3,0,1),(1,1,2),(2,2,0)]
for (p,q,r) in sigs:
    alg = Algebra(p,q,r)
    sig = [int(s) for s in alg.signature]
    for it in range(150):
        a, b = rnd_mv(alg), rnd_mv(alg)
        A, B = todict(a), todict(b)
        tests = {
          'gp': (lambda: a*b, lambda: ref.gp(A,B,sig)),
          'op': (lambda: a^b, lambda: ref.op(A,B,sig)),
          'ip': (lambda: a|b, lambda: ref.ip(A,B,sig)),
          'lc': (lambda: a.lc(b), lambda: ref.lc(A,B,sig)),
          'rc': (lambda: a.rc(b), lambda: ref.rc(A,B,sig)),
          'sp': (lambda: a.sp(b), lambda: ref.sp(A,B,sig)),
          'cp': (lambda: a.cp(b), lambda: ref.cp(A,B,sig)),
          'acp': (lambda: a.acp(b), lambda: ref.acp(A,B,sig)),
          'add': (lambda: a+b, lambda: ref.add(A,B)),
          'sub': (lambda: a-b, lambda: ref.add(A,B,-1)),
          'neg': (lambda: -a, lambda: ref.scale(A,-1)),
          'rev': (lambda: ~a, lambda: ref.rev(A)),
          'inv': (lambda: a.involute(), lambda: ref.inv_(A)),
          'conj': (lambda: a.conjugate(), lambda: ref.conj(A)),
          'sw': (lambda: a>>b, lambda: ref.gp(ref.gp(A,B,sig),ref.rev(A),sig)),
          'proj': (lambda: a@b, lambda: ref.gp(ref.ip(A,B,sig),ref.rev(B),sig)),
          'normsq': (lambda: a.normsq(), lambda: ref.gp(A,ref.rev(A),sig)),
        }
        for name,(got,exp) in tests.items():
            try:
                g = todict(got()); e = exp()
                if not ref.eq(g, e):
                    bad.setdefault(name, []).append(((p,q,r), a.keys(), a.values(), b.keys(), b.values(), g, e))
            except Exception as ex:
                bad.setdefault(name+':EXC:'+type(ex).__name__, []).append(((p,q,r), a.keys(), b.keys(), str(ex)[:100]))
for k, v in bad.items():
    print(k, len(v)); print('   ', v[0])
print('done')
