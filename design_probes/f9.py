import z3, time, sys
W=16; TO=60
exec(open('f1.py').read().split("I,J,K = BV")[0].replace("W = int(sys.argv[1]) if len(sys.argv)>1 else 16","").replace("def prove(name, claim, timeout=600):","def prove(name, claim, timeout=TO):"))
I,J=BV('I'),BV('J')
zI,nI = sign(I,J); zJ,nJ = sign(J,I)
pcI,pcJ,pcIJ = popcount(I),popcount(J),popcount(I&J)
par = z3.Extract(0,0, pcI*pcJ - pcIJ)
prove('canary L-comm with wrong parity (must be sat)', z3.Implies(z3.Not(zI), (nI^nJ)==(par^1)))
prove('canary L-comm dropping -pcIJ (must be sat)', z3.Implies(z3.Not(zI), (nI^nJ)==z3.Extract(0,0,pcI*pcJ)))
