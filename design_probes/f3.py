import z3, time
# Feasibility: loop-step VC of _swap_blades main loop over z3 sequences with an abstract word-product wp and lemma instances.
I = z3.IntSort(); S = z3.SeqSort(I)
A = z3.DeclareSort('Alg')
wp = z3.Function('wp', S, A)
smul = z3.Function('smul', I, A, A)       # scalar in {-1,0,1} times element
sig = z3.Function('sig', I, I)
def unit(c): return z3.Unit(c)
def cat(*xs): 
    xs=[x for x in xs]
    return z3.Concat(*xs) if len(xs)>1 else xs[0]
def distinct(s):
    i,j = z3.Ints('di dj')
    return z3.ForAll([i,j], z3.Implies(z3.And(0<=i, i<j, j<z3.Length(s)), s[i]!=s[j]))
def notin(c, s):
    k = z3.Int('nk')
    return z3.ForAll([k], z3.Implies(z3.And(0<=k, k<z3.Length(s)), s[k]!=c))
pm1 = lambda n: z3.If(n%2==0, 1, -1)
def check(name, hyps, goal, timeout=60):
    s=z3.Solver(); s.set('timeout',timeout*1000); s.add(hyps); s.add(z3.Not(goal))
    t=time.time(); r=s.check(); print(name, r, round(time.time()-t,2),'s', flush=True)
    if r==z3.sat: print(s.model())
b1, rest, W0 = z3.Consts('b1 rest W0', S)
c, swaps, coef = z3.Ints('c swaps coef')   # coef = (-1)^swaps * prod sig(elim)
# invariant: smul(coef, wp(b1 ++ [c] ++ rest)) == wp(W0); head of remaining blade2 is c
inv = smul(coef, wp(cat(b1, unit(c), rest))) == wp(W0)
smul_axioms = []
a_, s_, t_ = z3.Const('a_',A), z3.Int('s_'), z3.Int('t_')
smul_axioms.append(z3.ForAll([s_,t_,a_], smul(s_, smul(t_, a_)) == smul(s_*t_, a_)))
# ---- case: c in b1
idx = z3.IndexOf(b1, unit(c), 0)
n = z3.Length(b1)
u = z3.Extract(b1, 0, idx); v = z3.Extract(b1, idx+1, n-idx-1)
b1p = cat(u, v)                      # list.remove(c)
swapsp = swaps + n - idx - 1
# Lemma L instance (move c left across v and cancel):  wp(u++[c]++v++[c]++rest) = smul(pm1(|v|)*sig(c), wp(u++v++rest))  if c notin v
L_inst = z3.Implies(notin(c, v), wp(cat(u, unit(c), v, unit(c), rest)) == smul(pm1(z3.Length(v))*sig(c), wp(cat(u, v, rest))))
coefp = coef * pm1(n-idx-1) * sig(c)
goal = smul(coefp, wp(cat(b1p, rest))) == wp(W0)
# sig(c)^2 is not 1 in general (0!) -> the invariant in this form fails for sig=0: coef*... Let us restate: invariant  smul(coef, wp(cur)) == wp(W0) can't be preserved multiplicatively when sig=0.
# Proper form: wp(W0) == smul(coef, wp(cur)) with coef' = coef * pm * sig(c):  wp(W0) = smul(coef, wp(u c v c rest)) = smul(coef, smul(pm*sig, wp(u v rest))) = smul(coef*pm*sig, ...). fine, that's the same direction.
check('main-loop step (c in blade1)', [distinct(b1), z3.Contains(b1, unit(c)), inv, L_inst]+smul_axioms, goal)
# ---- case: c not in b1: append
goal2 = smul(coef, wp(cat(cat(b1, unit(c)), rest))) == wp(W0)
check('main-loop step (c not in blade1)', [inv], goal2)
# distinctness preserved
check('distinct preserved (remove)', [distinct(b1), z3.Contains(b1, unit(c))], distinct(b1p))
check('distinct preserved (append)', [distinct(b1), z3.Not(z3.Contains(b1, unit(c)))], distinct(cat(b1, unit(c))))
# ---- target loop step: i-th char of target; blade1 = p ++ w ++ [ch] ++ z with |p| = i ; insert(i, pop(idx))
i = z3.Int('i'); ch = z3.Int('ch')
idx2 = z3.IndexOf(b1, unit(ch), 0)
p = z3.Extract(b1, 0, i); w = z3.Extract(b1, i, idx2-i); z = z3.Extract(b1, idx2+1, n-idx2-1)
b1q = cat(p, unit(ch), w, z)
M_inst = z3.Implies(notin(ch, w), wp(cat(p, w, unit(ch), z)) == smul(pm1(z3.Length(w)), wp(cat(p, unit(ch), w, z))))
inv2 = smul(coef, wp(b1)) == wp(W0)
goal3 = smul(coef*pm1(idx2-i), wp(b1q)) == wp(W0)
pm_sq = []  # need pm1(k)*pm1(k) = 1
check('target-loop step', [distinct(b1), z3.Contains(b1, unit(ch)), 0<=i, i<=idx2, inv2, M_inst]+smul_axioms, goal3)
