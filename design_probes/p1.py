from kingdon import Algebra
from kingdon.multivector import MultiVector as MV
alg = Algebra(2)
@alg.register
def f(a, b): return a * b
x = MV.fromkeysvalues(alg, (1,2), [2,3])
y = MV.fromkeysvalues(alg, (1,2), [5,7])
print('f before', f(x,y), '| direct', x*y)
x2 = MV.fromkeysvalues(alg, (2,1), [3,2])
print('perm direct', x2*y)
print('f after', f(x,y), '| direct', x*y)
print(list(alg.numspace.keys()))
alg = Algebra(2, wrapper=lambda fn: fn)
x = MV.fromkeysvalues(alg, (1,2), [2,3]); y = MV.fromkeysvalues(alg, (1,2), [5,7]); x2 = MV.fromkeysvalues(alg, (2,1), [3,2])
print('w first', x*y); print('w perm', x2*y); print('w again', x*y)
