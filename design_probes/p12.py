import random, itertools, sympy, time, warnings
warnings.simplefilter('ignore')
from fractions import Fraction as F
from kingdon import Algebra
from kingdon.multivector import MultiVector as MV
import ref
from p5 import todict
random.seed(10)
def gradeblock(alg, grades, vals=None):
    keys=alg.indices_for_grades[tuple(grades)]
    return keys,[F(random.randint(-4,4) or 1, random.randint(1,3)) for _ in keys]
binops={'gp':lambda a,b:a*b,'op':lambda a,b:a^b,'ip':lambda a,b:a|b,'rp':lambda a,b:a&b,'sw':lambda a,b:a>>b,'proj':lambda a,b:a@b,
        'cp':lambda a,b:a.cp(b),'acp':lambda a,b:a.acp(b),'add':lambda a,b:a+b,'sub':lambda a,b:a-b,'div':lambda a,b:a/b,
        'lc':lambda a,b:a.lc(b),'rc':lambda a,b:a.rc(b),'sp':lambda a,b:a.sp(b)}
unops={'inv':lambda a:a.inv(),'rev':lambda a:~a,'neg':lambda a:-a,'involute':lambda a:a.involute(),'conj':lambda a:a.conjugate(),
       'normsq':lambda a:a.normsq(),'hodge':lambda a:a.hodge(),'unhodge':lambda a:a.unhodge(),'polarity':lambda a:a.polarity(),
       'outerexp':lambda a:a.outerexp(),'outersin':lambda a:a.outersin(),'outercos':lambda a:a.outercos(),'outertan':lambda a:a.outertan(),
       'sqrt':lambda a:a.sqrt(), 'dual':lambda a:a.dual(), 'norm':lambda a:a.norm(), 'normalized':lambda a:a.normalized()}
optsets=[dict(),dict(cse=False),dict(graded=True),dict(codegen_symbolcls=sympy.Symbol),dict(wrapper=lambda f:f),dict(cse=False,graded=True),
         dict(cse=False,codegen_symbolcls=sympy.Symbol), dict(graded=True, wrapper=lambda f:f, codegen_symbolcls=sympy.Symbol)]
issues={}
for (p,q,r) in [(2,0,0),(1,1,0),(2,0,1),(3,0,0)]:
    algs=[Algebra(p,q,r,**o) for o in optsets]
    d=p+q+r
    gsets=[g for k in range(1,3) for g in itertools.combinations(range(d+1),k)]
    for ga in gsets:
      ka,va=gradeblock(algs[0],ga)
      for name,f in unops.items():
        outs=[]
        for alg,o in zip(algs,optsets):
            try: outs.append(ref.nz({k:(float(v) if not isinstance(v,(int,F)) else v) for k,v in todict(f(MV.fromkeysvalues(alg,ka,list(va)))).items()}))
            except Exception as ex: outs.append('EXC:'+type(ex).__name__+':'+str(ex)[:50])
        base=outs[0]
        for o,out in zip(optsets[1:],outs[1:]):
            same = (out==base) if isinstance(out,str) or isinstance(base,str) else (set(out)==set(base) and all(abs(complex(out[k])-complex(base[k]))<1e-9 for k in out))
            if not same: issues.setdefault((name,str({k:(v if not callable(v) else 'fn') for k,v in o.items()})),[]).append(((p,q,r),ga,base,out))
      for gb in gsets[:6]:
        kb,vb=gradeblock(algs[0],gb)
        for name,f in binops.items():
            outs=[]
            for alg,o in zip(algs,optsets):
                try: outs.append(ref.nz({k:(float(v) if not isinstance(v,(int,F)) else v) for k,v in todict(f(MV.fromkeysvalues(alg,ka,list(va)),MV.fromkeysvalues(alg,kb,list(vb)))).items()}))
                except Exception as ex: outs.append('EXC:'+type(ex).__name__+':'+str(ex)[:50])
            base=outs[0]
            for o,out in zip(optsets[1:],outs[1:]):
                same = (out==base) if isinstance(out,str) or isinstance(base,str) else (set(out)==set(base) and all(abs(complex(out[k])-complex(base[k]))<1e-9 for k in out))
                if not same: issues.setdefault((name,str({k:(v if not callable(v) else 'fn') for k,v in o.items()})),[]).append(((p,q,r),ga,gb,base,out))
    print((p,q,r),'done',flush=True)
for k,v in issues.items():
    print(k,len(v)); print('    ',v[0])
