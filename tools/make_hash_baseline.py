#!/usr/bin/env python3
"""Records, for the tree the contracts were written against (/repo at the time of running this tool), the hash of the source
segment of every function / method / nested function of kingdon/*.py.  Used by the vacuity guard: a contract run that produces no
obligation is a *checker fault* only when the function it ran on is unchanged; on changed code it means the contract no longer
applies (undecided)."""
import ast, glob, hashlib, json, os, sys
repo = os.environ.get('KVC_REPO', '/repo')
out = {}
for path in sorted(glob.glob(os.path.join(repo, 'kingdon', '*.py'))):
    rel = os.path.relpath(path, repo)
    src = open(path, encoding='utf-8').read()
    tree = ast.parse(src)
    d = {}

    def visit(node, prefix):
        for ch in ast.iter_child_nodes(node):
            if isinstance(ch, (ast.FunctionDef, ast.AsyncFunctionDef, ast.ClassDef)):
                q = prefix + ch.name
                if not isinstance(ch, ast.ClassDef):
                    seg = ast.get_source_segment(src, ch) or ''
                    d.setdefault(q, []).append(hashlib.sha256(seg.encode()).hexdigest())
                visit(ch, q + '.')
            else:
                visit(ch, prefix)
    visit(tree, '')
    out[rel] = d
here = os.path.dirname(os.path.dirname(os.path.abspath(__file__)))
json.dump({'comment': 'sha256 of the source segment of every function of the tree the contracts were written against', 'functions': out},
          open(os.path.join(here, 'contracts', 'baseline_hashes.json'), 'w'), indent=0, sort_keys=True)
print(sum(len(v) for v in out.values()), 'functions')
