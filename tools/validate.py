"""Validate MANIFEST.json and evidence/*.json against the given schemas; check level / tier consistency.  Run with python3-vt."""
import json, sys, glob, jsonschema
ms = json.load(open('/root/.vp/MANIFEST.schema.json')); es = json.load(open('/root/.vp/EVIDENCE.schema.json'))
m = json.load(open('/verif/MANIFEST.json'))
jsonschema.validate(m, ms)
levels = {c['property_id']: c['level_claimed']['category'] for c in m['checks']}
bad = 0
for f in sorted(glob.glob('/verif/evidence/C*.json')):
    e = json.load(open(f))
    jsonschema.validate(e, es)
    pid = e['property_id']
    c = e['coverage']
    if e['level'] != levels.get(pid):
        print('level mismatch', pid, e['level'], levels.get(pid)); bad += 1
    if e['level'] == 'proof' and c['obligations'] != c['discharged']:
        print('proof with undischarged obligations', pid); bad += 1
    if e.get('violations'):
        print('violations recorded', pid); bad += 1
    print(pid, e['tier'], e['level'], c['obligations'], c['discharged'])
print('checks in manifest:', len(m['checks']), 'not_applicable:', m.get('not_applicable'), 'hooks:', m.get('hooks'))
sys.exit(1 if bad else 0)
