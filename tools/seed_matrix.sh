#!/bin/bash
# for every seeded change: apply to /repo, run its checks (quick), revert; prints the detection matrix
cd /verif
for d in seeded/*/; do n=$(basename $d); props=$(python3 -c "import json;print(' '.join(json.load(open('$d/meta.json'))['checks_to_run']))")
  git -C /repo apply /verif/$d/patch.diff || { echo "$n: patch does not apply"; continue; }
  line="$n:"
  for p in $props; do ./check $p --tier quick > /tmp/seedm_$p.log 2>&1; rc=$?; o=$(grep -c "VIOLATION" /tmp/seedm_$p.log); ref=$(tail -1 /tmp/seedm_$p.log | grep -o "refuted=[0-9]*"); sf=$(tail -1 /tmp/seedm_$p.log | grep -o "standin_failures=[0-9]*"); oos=$(tail -1 /tmp/seedm_$p.log | grep -o "out_of_subset=[0-9]*"); nf=$(grep -c "no-failing-input-found" /tmp/seedm_$p.log); line="$line $p(exit=$rc,$ref,$sf,$oos,nofail=$nf)"; done
  git -C /repo checkout -- .
  echo "$line"
done
