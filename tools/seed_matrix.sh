#!/bin/bash
# for every seeded change: apply to a scratch copy of /repo/kingdon (KVC_REPO; /repo untouched, evidence redirected), run the
# checks named in its meta.json (quick tier); prints the detection matrix.  usage: seed_matrix.sh [parallel seeds, default 4]
cd /verif
export SCRB=/var/tmp/kvcscratch/matrix${VERIF_SEED:-}; rm -rf $SCRB; mkdir -p $SCRB
one() {
  n=$1; d=seeded/$n; [ -f $d/meta.json ] || { echo "$n: no meta.json"; return; }
  props=$(python3 -c "import json;print(' '.join(json.load(open('$d/meta.json'))['checks_to_run']))")
  SCR=$SCRB/$n; mkdir -p $SCR/repo $SCR/out; cp -r /repo/kingdon $SCR/repo/kingdon
  (cd $SCR/repo && patch -s -p1 < /verif/$d/patch.diff) || { echo "$n: patch does not apply"; rm -rf $SCR; return; }
  line="$n:"
  for p in $props; do KVC_REPO=$SCR/repo KVC_OUT=$SCR/out ./check $p --tier quick > $SCR/out/$n.$p.log 2>&1; rc=$?; t=$(tail -1 $SCR/out/$n.$p.log); line="$line $p(exit=$rc,$(echo $t | grep -o 'refuted=[0-9]*'),$(echo $t | grep -o 'standin_failures=[0-9]*'),$(echo $t | grep -o 'out_of_subset=[0-9]*'),nofail=$(grep -c no-failing-input-found $SCR/out/$n.$p.log))"; done
  echo "$line"
  rm -rf $SCR
}
export -f one
ls seeded | xargs -P ${1:-4} -I{} bash -c 'one {}'
rm -rf $SCRB
