#!/usr/bin/env python3
"""prints, per property, the figures quoted in DESIGN.md section 12 from the evidence files of the last run"""
import json, glob, os
root = os.path.dirname(os.path.dirname(os.path.abspath(__file__)))
for f in sorted(glob.glob(os.path.join(root, 'evidence', 'C*.json'))):
    e = json.load(open(f)); c = e['coverage']
    print(e['property_id'], e['level'], 'obligations', c['obligations'], 'backends', c.get('per_backend'), 'functions', len(c.get('functions_under_contract', [])),
          'standin_evals', c.get('evaluations'), 'oos', len(c.get('out_of_subset', [])), 'known', c.get('known_findings_reported'))
