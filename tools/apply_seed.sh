#!/bin/bash
# usage: apply_seed.sh <seed-name> <prop> [check args]  -- runs one check against a scratch copy of /repo with the stored patch applied, full output
NAME=$1; P=$2; shift 2
SCR=/var/tmp/kvcscratch/ap_$NAME; rm -rf $SCR; mkdir -p $SCR/repo $SCR/out; cp -r /repo/kingdon $SCR/repo/kingdon
(cd $SCR/repo && patch -s -p1 < /verif/seeded/$NAME/patch.diff) || { echo "PATCH DOES NOT APPLY"; rm -rf $SCR; exit 3; }
cd /verif; KVC_REPO=$SCR/repo KVC_OUT=$SCR/out ./check $P --tier quick "$@"; echo "exit=$?"
[ -n "${KEEP:-}" ] || rm -rf $SCR
