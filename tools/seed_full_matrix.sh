#!/bin/bash
# Every seeded change x every registered check, on scratch copies of /repo (KVC_REPO), evidence redirected (KVC_OUT).
# Purpose: (1) detection by the targeted checks, (2) audit of alarms raised by checks of *other* properties (each has to be
# justified as a real violation of that property or corrected as a false alarm).  usage: tools/seed_full_matrix.sh [seed-name ...]
cd /verif
SCR=/var/tmp/kvcscratch/fullmatrix; rm -rf $SCR; mkdir -p $SCR/out
seeds="$@"; [ -z "$seeds" ] && seeds=$(ls seeded)
props=$(ls props | grep -o '^C[0-9][0-9]' | sort -u | tr '\n' ' ')
for n in $seeds; do
  rm -rf $SCR/repo; mkdir -p $SCR/repo; cp -r /repo/kingdon $SCR/repo/kingdon
  (cd $SCR/repo && patch -s -p1 < /verif/seeded/$n/patch.diff) || { echo "$n: patch does not apply"; continue; }
  line="$n:"
  for p in $props; do
    KVC_REPO=$SCR/repo KVC_OUT=$SCR/out ./check $p --tier quick > $SCR/out/$n.$p.log 2>&1; rc=$?
    t=$(tail -1 $SCR/out/$n.$p.log)
    if [ $rc -ne 0 ] || echo "$t" | grep -q "out_of_subset=[1-9]"; then
      line="$line $p(exit=$rc,$(echo $t | grep -o 'refuted=[0-9]*'),$(echo $t | grep -o 'standin_failures=[0-9]*'),$(echo $t | grep -o 'out_of_subset=[0-9]*'))"
    fi
  done
  echo "$line"
done
rm -rf $SCR/repo
