#!/bin/bash
# every stored behaviour-preserving patch (refactorings/*/patch.diff) x every check, on scratch copies: expected exit 0 everywhere
# usage: refactor_matrix.sh [parallel patches, default 4]
cd /verif
one() {
  n=$1
  SCR=/var/tmp/kvcscratch/refm_$n; rm -rf $SCR; mkdir -p $SCR/repo $SCR/out; cp -r /repo/kingdon $SCR/repo/kingdon
  (cd $SCR/repo && patch -s -p1 < /verif/refactorings/$n/patch.diff) || { echo "$n: patch does not apply"; rm -rf $SCR; return; }
  line="$n:"; bad=0; oos=0; obl=0
  for p in $(ls props | grep -o '^C[0-9][0-9]' | sort -u); do
    KVC_REPO=$SCR/repo KVC_OUT=$SCR/out ./check $p --tier quick > $SCR/out/$p.log 2>&1; rc=$?
    t=$(tail -1 $SCR/out/$p.log)
    o=$(echo $t | grep -o 'out_of_subset=[0-9]*' | cut -d= -f2); oos=$((oos + ${o:-0}))
    b=$(echo $t | grep -o 'discharged=[0-9]*' | cut -d= -f2); obl=$((obl + ${b:-0}))
    if [ $rc -ne 0 ] || grep -q VIOLATION $SCR/out/$p.log; then bad=$((bad+1)); line="$line $p(exit=$rc)"; fi
  done
  echo "$line alarms=$bad discharged=$obl out_of_subset=$oos"
  rm -rf $SCR
}
export -f one
ls refactorings | xargs -P ${1:-4} -I{} bash -c 'one {}'
