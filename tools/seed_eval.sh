#!/bin/bash
# usage: seed_eval.sh <seed-name> <worktree> <property-id> [more property ids to run]
# 1. confirms in the scratch worktree: suite passes with the change, demo fails with / passes without
# 2. stores patch.diff + demo.py under /verif/seeded/<seed-name>/
# 3. applies the patch to a scratch copy of /repo/kingdon and runs the given checks against it (KVC_REPO)
set -u
NAME=$1; WT=$2; shift 2; PROPS="$@"
OUT=/verif/seeded/$NAME; mkdir -p $OUT
cd $WT || exit 2
git add -N kingdon; git diff -- kingdon > $OUT/patch.diff
[ -s $OUT/patch.diff ] || { [ -f $WT/patch.diff ] && cp $WT/patch.diff $OUT/patch.diff && git apply $OUT/patch.diff; }
cp $WT/demo.py $OUT/demo.py 2>/dev/null
cp $WT/notes.md $OUT/notes.md 2>/dev/null
echo "== demo with change"; PYTHONPATH=$WT timeout 900 /venv/bin/python $OUT/demo.py > $OUT/demo_with.log 2>&1; DW=$?; echo "exit $DW"
echo "== suite with change"; PYTHONPATH=$WT timeout 1800 /venv/bin/python -m pytest -q -p no:cacheprovider -n 6 --timeout=900 2>&1 | tail -1 | tee $OUT/suite_with.log
git apply -R $OUT/patch.diff || { echo 'cannot revert patch'; exit 4; }
echo "== demo without change"; PYTHONPATH=$WT timeout 900 /venv/bin/python $OUT/demo.py > $OUT/demo_without.log 2>&1; DO=$?; echo "exit $DO"
git apply $OUT/patch.diff
echo "== checks on a scratch copy of /repo with the patch applied (KVC_REPO; evidence redirected with KVC_OUT; /repo untouched)"
SCR=/var/tmp/kvcscratch/eval_$NAME; rm -rf $SCR; mkdir -p $SCR/repo $SCR/out; cp -r /repo/kingdon $SCR/repo/kingdon
(cd $SCR/repo && patch -s -p1 < $OUT/patch.diff) || { echo "PATCH DOES NOT APPLY TO /repo"; rm -rf $SCR; exit 3; }
cd /verif
# a seed counts as detected only if the same check passes on the unchanged tree (same seed): run that first
for p in $PROPS; do KVC_OUT=$SCR/out ./check $p --tier quick > $SCR/out/pristine_$p.log 2>&1; echo "pristine $p exit=$?"; done
for p in $PROPS; do KVC_REPO=$SCR/repo KVC_OUT=$SCR/out ./check $p --tier quick > $OUT/check_$p.log 2>&1; echo "$p exit=$? $(grep -c VIOLATION $OUT/check_$p.log) violation line(s): $(grep -E 'VIOLATION' $OUT/check_$p.log | head -2 | cut -c1-160) | $(tail -1 $OUT/check_$p.log | cut -c1-200)"; done
rm -rf $SCR
echo "demo_with=$DW demo_without=$DO"
