#!/bin/bash
# usage: refactor_eval.sh <name> <worktree>
# A behaviour-preserving refactoring written by an independent sub-agent (suite passes, its own differential check against the
# pristine code is exact): every registered check is run against a scratch copy with the patch.  Expected: exit 0 everywhere
# (undecided / out-of-subset is fine); a VIOLATION is a false alarm of the machinery.
set -u
NAME=$1; WT=$2
OUT=/verif/refactorings/$NAME; mkdir -p $OUT
(cd $WT && git add -N kingdon && git diff -- kingdon > $OUT/patch.diff); [ -s $OUT/patch.diff ] || cp $WT/patch.diff $OUT/patch.diff
cp $WT/notes.md $OUT/notes.md 2>/dev/null
echo "== suite with the refactoring"; (cd $WT && PYTHONPATH=$WT timeout 1800 /venv/bin/python -m pytest -q -p no:cacheprovider -n 6 --timeout=900 2>&1 | tail -1 | tee $OUT/suite.log)
SCR=/var/tmp/kvcscratch/ref_$NAME; rm -rf $SCR; mkdir -p $SCR/repo $SCR/out; cp -r /repo/kingdon $SCR/repo/kingdon
(cd $SCR/repo && patch -s -p1 < $OUT/patch.diff) || { echo "PATCH DOES NOT APPLY"; exit 3; }
cd /verif
: > $OUT/checks.log
for p in $(ls props | grep -o '^C[0-9][0-9]' | sort -u); do
  KVC_REPO=$SCR/repo KVC_OUT=$SCR/out ./check $p --tier quick > $SCR/out/$p.log 2>&1; rc=$?
  t=$(tail -1 $SCR/out/$p.log | cut -c1-200)
  echo "$p exit=$rc violations=$(grep -c VIOLATION $SCR/out/$p.log) | $t" | tee -a $OUT/checks.log
  if [ $rc -ne 0 ]; then grep -E "VIOLATION|CHECKER-FAULT" $SCR/out/$p.log | head -3 | tee -a $OUT/checks.log; fi
done
rm -rf $SCR
