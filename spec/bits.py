"""Spec functions over blade bitmasks, independent of kingdon.  Each exists in two forms:
a z3 term builder (`z_*`) and a concrete Python function (`c_*`, the replay oracle).  Bit j of a
mask is generator j; `neg`/`zero` masks give the generators squaring to -1 / 0.

reorder_par(I,J) = parity of #{(i,j): i in I, j in J, i > j}
sign_spec(I,J)   = 0 if I&J&zero else (-1)^(reorder_par(I,J) + |I&J&neg|)
This is the coordinate form of the Clifford product e_I e_J = sign_spec(I,J) e_{I^J} for the
basis e_I = ascending product of generators (textbook; lemmas L-assoc/L-square/L-anti in
lemmas/table.py prove it is a unital associative algebra satisfying the defining relations).
"""
import z3


def bit(x, i):
    return z3.Extract(i, i, x)


def z_parity(x, nb):
    """1-bit parity of the low nb bits."""
    p = bit(x, 0)
    for i in range(1, nb):
        p = p ^ bit(x, i)
    return p


def z_popcount(x, nb):
    w = x.size()
    s = z3.ZeroExt(w - 1, bit(x, 0))
    for i in range(1, nb):
        s = s + z3.ZeroExt(w - 1, bit(x, i))
    return s


def z_reorder_par(a, b, nb):
    w = a.size()
    p = z3.BitVecVal(0, 1)
    for i in range(1, nb):
        low = b & z3.BitVecVal((1 << i) - 1, w)
        p = p ^ (bit(a, i) & z_parity(low, i))
    return p


def z_sign_spec(a, b, neg, zero, nb):
    """(is_zero: Bool, negative: Bool)"""
    m = a & b
    isz = (m & zero) != 0
    ng = z_reorder_par(a, b, nb) ^ z_parity(m & neg, nb)
    return isz, ng == 1


# -- involution signs (from the C04 statement): exponent parity as Bool
def z_rev_neg(k, nb):      # (-1)^(g(g-1)/2): negative iff g % 4 in (2,3)  <=> bit 1 of g
    return bit(z_popcount(k, nb), 1) == 1


def z_inv_neg(k, nb):      # (-1)^g
    return bit(z_popcount(k, nb), 0) == 1


def z_conj_neg(k, nb):     # (-1)^(g(g+1)/2): negative iff g % 4 in (1,2) <=> bit 1 of g+1
    return bit(z_popcount(k, nb) + 1, 1) == 1


# ------------------------------------------------------------------ concrete forms
def c_popcount(x):
    return bin(x).count('1')


def c_reorder_par(a, b):
    s = 0
    i = 0
    while (a >> i):
        if (a >> i) & 1:
            s += c_popcount(b & ((1 << i) - 1))
        i += 1
    return s & 1


def c_sign_spec(a, b, neg, zero):
    m = a & b
    if m & zero:
        return 0
    return -1 if (c_reorder_par(a, b) + c_popcount(m & neg)) & 1 else 1


def c_rev_neg(k):
    g = c_popcount(k)
    return (g * (g - 1) // 2) % 2 == 1


def c_inv_neg(k):
    return c_popcount(k) % 2 == 1


def c_conj_neg(k):
    g = c_popcount(k)
    return (g * (g + 1) // 2) % 2 == 1


def selftest(rng, n=300, nb=16):
    """Agreement of the two forms on random arguments (an obligation of every run)."""
    bad = []
    w = nb
    for _ in range(n):
        a, b, ng, ze = (rng.randrange(1 << nb) for _ in range(4))
        A, B, NG, ZE = (z3.BitVecVal(v, w) for v in (a, b, ng, ze))
        isz, neg = z_sign_spec(A, B, NG, ZE, nb)
        isz, neg = z3.is_true(z3.simplify(isz)), z3.is_true(z3.simplify(neg))
        zs = 0 if isz else (-1 if neg else 1)
        if zs != c_sign_spec(a, b, ng, ze):
            bad.append(('sign_spec', a, b, ng, ze))
        if z3.simplify(z_popcount(A, nb)).as_long() != c_popcount(a):
            bad.append(('popcount', a))
        for zf, cf, nm in ((z_rev_neg, c_rev_neg, 'rev'), (z_inv_neg, c_inv_neg, 'inv'), (z_conj_neg, c_conj_neg, 'conj')):
            if z3.is_true(z3.simplify(zf(A, nb))) != cf(a):
                bad.append((nm, a))
    return bad
