"""Blade-table lemmas over 16-bit masks (code-independent, re-proved on every run).

Signature as two symbolic masks `neg`, `zero` (generator squares to -1 / 0), so every lemma holds for every
(p,q,r), every ordering of the signature entries and every dimension d <= 16 at once.
sign(I,J) is spec.bits.z_sign_spec: (zero?, negative?)."""
import z3
from spec import bits as SB

W = 16


def BV(n):
    return z3.BitVec(n, W)


neg, zero = BV('neg'), BV('zero')
PRE = [(neg & zero) == 0]


def sign(a, b):
    return SB.z_sign_spec(a, b, neg, zero, W)


def pc(x):
    return SB.z_popcount(x, W)


def _exp_odd(e):
    return z3.Extract(0, 0, e) == 1


def rev_neg(k):       # (-1)^(g(g-1)/2), literal form of the C04 statement
    g = pc(k)
    return _exp_odd(z3.LShR(g * (g - 1), 1))


def inv_neg(k):
    return _exp_odd(pc(k))


def conj_neg(k):
    g = pc(k)
    return _exp_odd(z3.LShR(g * (g + 1), 1))


def table_lemmas(H, tier):
    I, J, K = BV('I'), BV('J'), BV('K')
    g, h = z3.BitVec('g', W), z3.BitVec('h', W)
    z1, n1 = sign(I, J)
    # --- L-assoc, split so that every query is small (the monolithic query is unstable in z3: 12 s .. > 60 s):
    #     sign(a,b) = (Z(a&b), R(a,b) xor M(a&b)) with R = reorder parity, M(x) = parity(x & neg), Z(x) = x & zero != 0.
    R = lambda a, b: SB.z_reorder_par(a, b, W)
    M = lambda a: SB.z_parity(a & neg, W)
    Z = lambda a: (a & zero) != 0
    b1 = z3.BitVecSort(1)
    Rf = z3.Function('R', z3.BitVecSort(W), z3.BitVecSort(W), b1)
    Mf = z3.Function('M', z3.BitVecSort(W), b1)
    Zf = z3.Function('Z', z3.BitVecSort(W), z3.BoolSort())
    sub = {
        'L-R-bilinear-left: R(I^J,K) == R(I,K) xor R(J,K)': lambda R, M, Z: R(I ^ J, K) == R(I, K) ^ R(J, K),
        'L-R-bilinear-right: R(I,J^K) == R(I,J) xor R(I,K)': lambda R, M, Z: R(I, J ^ K) == R(I, J) ^ R(I, K),
        'L-M-linear-1: M((I^J)&K) == M(I&K) xor M(J&K)': lambda R, M, Z: M((I ^ J) & K) == M(I & K) ^ M(J & K),
        'L-M-linear-2: M(I&(J^K)) == M(I&J) xor M(I&K)': lambda R, M, Z: M(I & (J ^ K)) == M(I & J) ^ M(I & K),
        'L-Z-assoc: a null generator is hit on the left iff on the right':
            lambda R, M, Z: z3.Or(Z(I & J), Z((I ^ J) & K)) == z3.Or(Z(J & K), Z(I & (J ^ K))),
    }
    for nm, f in sub.items():
        H.add_goal('lemma/' + nm, PRE, f(R, M, Z))
    so = lambda a, b: (Zf(a & b), (Rf(a, b) ^ Mf(a & b)) == 1)
    a1, m1 = so(I, J)
    a2, m2 = so(I ^ J, K)
    a3, m3 = so(J, K)
    a4, m4 = so(I, J ^ K)
    lz, rz = z3.Or(a1, a2), z3.Or(a3, a4)
    H.add_goal('lemma/L-assoc: sign(I,J) sign(I^J,K) == sign(J,K) sign(I,J^K)  (from the five sub-lemmas, R/M/Z opaque)',
               [f(Rf, Mf, Zf) for f in sub.values()],
               z3.And(lz == rz, z3.Implies(z3.Not(lz), z3.Xor(m1, m2) == z3.Xor(m3, m4))))
    H.add_goal('lemma/CANARY L-assoc with a swapped factor', [f(Rf, Mf, Zf) for f in sub.values()],
               z3.Implies(z3.Not(lz), z3.Xor(m1, m2) == z3.Xor(so(K, J)[1], m4)))
    n2 = n3 = n4 = None
    # generators: e_g = 1 << g
    one = z3.BitVecVal(1, W)
    eg, eh = one << g, one << h
    rng = [z3.ULT(g, W), z3.ULT(h, W)]
    zg, ng = sign(eg, eg)
    H.add_goal('lemma/L-square: e_g e_g == met[g]', PRE + rng,
               z3.And(zg == ((zero & eg) != 0), z3.Implies(z3.Not(zg), ng == ((neg & eg) != 0))))
    zgh, ngh = sign(eg, eh)
    zhg, nhg = sign(eh, eg)
    H.add_goal('lemma/L-anti: g != h  =>  e_g e_h == - e_h e_g != 0', PRE + rng + [g != h],
               z3.And(z3.Not(zgh), z3.Not(zhg), ngh != nhg))
    zu, nu = sign(z3.BitVecVal(0, W), I)
    zv, nv = sign(I, z3.BitVecVal(0, W))
    H.add_goal('lemma/L-unit: 1 e_I == e_I 1 == e_I', PRE, z3.And(z3.Not(zu), z3.Not(nu), z3.Not(zv), z3.Not(nv)))
    H.add_goal('lemma/L-zero: sign(I,J) == 0  <=>  I & J & zero != 0  (hence symmetric in I,J)', PRE,
               z3.And(z1 == ((I & J & zero) != 0), z1 == sign(J, I)[0]))
    H.add_goal('lemma/L-disjoint: I & J == 0  =>  sign(I,J) != 0', PRE, z3.Implies((I & J) == 0, z3.Not(z1)))
    # ordered product: multiplying the ascending product of a mask A on the right by a generator above all of A
    A = BV('A')
    above = z3.And(z3.ULT(g, W), (A >> g) == 0)
    za, na = sign(A, eg)
    H.add_goal('lemma/L-ordered: (ascending product of A) e_g == + e_{A|g} when g is above every generator of A',
               PRE, z3.Implies(above, z3.And(z3.Not(za), z3.Not(na), (A ^ eg) == (A | eg))))
    # commutation of blades: in parity form (pure XOR/AND structure); the popcount form is linked in involution_lemmas
    P = lambda a: SB.z_parity(a, W)
    H.add_goal('lemma/L-R-comm: R(I,J) xor R(J,I) == par|I| par|J| xor par|I&J|', [],
               (R(I, J) ^ R(J, I)) == ((P(I) & P(J)) ^ P(I & J)))
    comm_hyp = [(Rf(I, J) ^ Rf(J, I)) == ((P(I) & P(J)) ^ P(I & J)), (I & J) == (J & I)]
    c1, k1 = so(I, J)
    c2, k2 = so(J, I)
    H.add_goal('lemma/L-comm-parity: e_J e_I == (-1)^(par|I| par|J| + par|I&J|) e_I e_J  (from L-R-comm, R/M/Z opaque)',
               comm_hyp, z3.And(c1 == c2, z3.Xor(k1, k2) == (((P(I) & P(J)) ^ P(I & J)) == 1)))
    H.add_goal('lemma/CANARY L-comm with the wrong exponent', comm_hyp,
               z3.And(c1 == c2, z3.Xor(k1, k2) == ((P(I) & P(J)) == 1)))
    # orientation bookkeeping for custom bases: twisting by any o: key -> {+1,-1} preserves associativity
    o = z3.Function('o', z3.BitVecSort(W), z3.BoolSort())
    t = lambda a, b, n: z3.Xor(z3.Xor(o(a), o(b)), z3.Xor(o(a ^ b), n))
    q1, q2, q3, q4 = z3.Bools('q1 q2 q3 q4')
    H.add_goal('lemma/L-orient: the table o(I)o(J)o(I^J) sign(I,J) is associative for every orientation o',
               [z3.Xor(q1, q2) == z3.Xor(q3, q4)],
               z3.Xor(t(I, J, q1), t(I ^ J, K, q2)) == z3.Xor(t(J, K, q3), t(I, J ^ K, q4)))


def _rev_g(g):
    return _exp_odd(z3.LShR(g * (g - 1), 1))


def _conj_g(g):
    return _exp_odd(z3.LShR(g * (g + 1), 1))


def involution_lemmas(H, tier):
    """Anti-automorphism of reverse / conjugate and automorphism of grade involution at blade level.
    Split (each query small): H1 = L-comm and H2 = L-pc-xor are proved with popcount revealed; the
    (anti)automorphism statements are then proved over abstract grades a=|I|, b=|J|, c=|I&J| from H1, H2."""
    I, J = BV('I'), BV('J')
    z1, n1 = sign(I, J)
    zJ, nJ = sign(J, I)
    x = z3.Xor
    P = lambda v: SB.z_parity(v, W)
    H.add_goal('lemma/L-R-comm: R(I,J) xor R(J,I) == par|I| par|J| xor par|I&J|  (with it, L-comm-parity as in C01)', [],
               (SB.z_reorder_par(I, J, W) ^ SB.z_reorder_par(J, I, W)) == ((P(I) & P(J)) ^ P(I & J)))
    H.add_goal('lemma/L-pc-parity: bit 0 of |I| is the parity of I', [], z3.Extract(0, 0, pc(I)) == P(I))
    a_, b_, c_ = z3.BitVec('a', W), z3.BitVec('b', W), z3.BitVec('c', W)
    H.add_goal('lemma/L-comm-exponent: (-1)^(ab - c) has parity (a mod 2)(b mod 2) + (c mod 2)', [],
               z3.Extract(0, 0, a_ * b_ - c_) == ((z3.Extract(0, 0, a_) & z3.Extract(0, 0, b_)) ^ z3.Extract(0, 0, c_)))
    H.add_goal('lemma/L-pc-xor: |I^J| + 2|I&J| == |I| + |J|', [], pc(I ^ J) + 2 * pc(I & J) == pc(I) + pc(J))
    # abstract level: grades as small numbers, the two sign bits as Booleans constrained by L-comm
    a, b, c = z3.BitVec('a', W), z3.BitVec('b', W), z3.BitVec('c', W)
    s_ij, s_ji = z3.Bool('s_ij_negative'), z3.Bool('s_ji_negative')
    hyp = [z3.ULE(a, W), z3.ULE(b, W), z3.ULE(c, a), z3.ULE(c, b),
           x(s_ij, s_ji) == (z3.Extract(0, 0, a * b - c) == 1)]          # instance of L-comm
    gx = a + b - 2 * c                                                     # instance of L-pc-xor
    H.add_goal('lemma/L-rev-anti: reverse(e_I e_J) == reverse(e_J) reverse(e_I)', hyp,
               x(_rev_g(gx), s_ij) == x(x(_rev_g(a), _rev_g(b)), s_ji))
    H.add_goal('lemma/L-conj-anti: conjugate(e_I e_J) == conjugate(e_J) conjugate(e_I)', hyp,
               x(_conj_g(gx), s_ij) == x(x(_conj_g(a), _conj_g(b)), s_ji))
    H.add_goal('lemma/L-invol-auto: involute(e_I e_J) == involute(e_I) involute(e_J)', hyp,
               _exp_odd(gx) == x(_exp_odd(a), _exp_odd(b)))
    H.add_goal('lemma/L-conj=rev.invol', [z3.ULE(a, W)], _conj_g(a) == x(_rev_g(a), _exp_odd(a)))
    H.add_goal('lemma/L-mod4: exponent parities are the popcount-mod-4 classes (2,3) / (1,3) / (1,2)', [z3.ULE(a, W)],
               z3.And(_rev_g(a) == z3.Or(z3.URem(a, 4) == 2, z3.URem(a, 4) == 3),
                      _exp_odd(a) == z3.Or(z3.URem(a, 4) == 1, z3.URem(a, 4) == 3),
                      _conj_g(a) == z3.Or(z3.URem(a, 4) == 1, z3.URem(a, 4) == 2)))
    H.add_goal('lemma/L-involutions: applying any of the three twice is the identity (sign squared)', [],
               x(_rev_g(a), _rev_g(a)) == z3.BoolVal(False))
    H.add_goal('lemma/CANARY L-rev as automorphism', hyp,
               x(_rev_g(gx), s_ij) == x(x(_rev_g(a), _rev_g(b)), s_ij))


def duality_lemmas(H, tier):
    """C05 at blade level, over the abstract table T(I,J) = o(I)o(J)o(I^J) sign(I,J) of any basis orientation o."""
    I = BV('I')
    full = BV('full')
    isfull = (full & (full + 1)) == 0                  # 2^d - 1
    inside = (I & ~full) == 0
    c = full - I
    z, n = sign(I, c)
    z2, n2 = sign(c, I)
    H.add_goal('lemma/L-hodge: complement is disjoint, so sign(I, cI) != 0 and sign(cI, I) != 0; pss - I == pss ^ I',
               PRE, z3.Implies(z3.And(isfull, inside),
                               z3.And((c & I) == 0, (c | I) == full, c == (full ^ I), z3.Not(z), z3.Not(z2))))
    # E ^ hodge(E) = pss:  hodge(E_I) = s E_cI with s = T(I,cI); E_I ^ E_cI = T(I,cI) E_pss  (disjoint => wedge == gp term)
    # => E_I ^ hodge(E_I) = T(I,cI)^2 pss = pss since T(I,cI) = +-1.  unhodge(hodge(E_I)) = T(I,cI) * T(c(cI)... ) :
    # unhodge(E_m) = T(c m, m) E_{c m}; with m = cI: T(I, cI) -> product T(I,cI) T(I,cI) = 1.
    s = z3.Bool('T_I_cI_negative')
    H.add_goal('lemma/L-hodge-inverse: unhodge(hodge(E_I)) == E_I and E_I ^ hodge(E_I) == pss  (signs square to +1)',
               [], z3.Xor(s, s) == z3.BoolVal(False))
    # regressive-product filter: pss == kx + ky - (pss - (kx ^ ky))  <=>  complements disjoint
    kx, ky = BV('kx'), BV('ky')
    E = lambda v: z3.ZeroExt(3, v)
    kout = E(full) - E(kx ^ ky)
    H.add_goal('lemma/L-rp-filter: code filter of codegen_rp  <=>  c(kx) & c(ky) == 0  (Python ints do not wrap)',
               [], z3.Implies(z3.And(isfull, (kx & ~full) == 0, (ky & ~full) == 0),
                              (E(full) == E(kx) + E(ky) - kout) == (((full - kx) & (full - ky)) == 0)))
    H.add_goal('lemma/L-rp-identity: pss is the identity of the regressive product at key level: c(pss) == 0, so '
               'c(pss) ^ c(k) == c(k) and the wedge with the scalar hodge(pss) always survives', [],
               z3.Implies(z3.And(isfull, inside), z3.And((full - full) == 0, ((full - full) ^ c) == c, ((full - full) & c) == 0)))
