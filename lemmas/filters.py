"""Filter lemmas: the "arithmetic tricks on bitmasks" of C03/C05 against grades.

Grade is kept *opaque* (an uninterpreted function `Grade: key -> Int`) in the function VCs and in the
lemmas of level A below; it is *revealed* as popcount only in the three base lemmas of level B
(`L-pc-add`, `L-pc-zero`, `L-pc-bound`).  This keeps every query small (guidance: hide definitions
the proof does not need) -- the monolithic form of `L-ip` took 90 s at W=16 in the design round,
the split form is discharged in well under a second.

All statements are over keys 0 <= k < 2**W encoded in WB-bit vectors, the same encoding the function
VCs use, so an instance assumed in a function VC is literally an instance of the proved lemma.
"""
import z3
from kvc.values import WB
from kvc.models import W
from spec import bits as SB

BV = z3.BitVecSort(WB)
Grade = z3.Function('Grade', BV, BV)          # opaque grade (values 0..W, so WB-bit arithmetic on it never wraps)
MASK = z3.BitVecVal((1 << W) - 1, WB)


def valid(k):
    return z3.ULE(k, MASK)


def revealed(k):
    """Grade(k) == popcount(k): the definition of grade (number of generators in the blade)."""
    return Grade(k) == SB.z_popcount(k, W)


# ---------------------------------------------------------------- level B (revealed)
def pc_add(u, v):
    return z3.Implies((u & v) == 0, Grade(u | v) == Grade(u) + Grade(v))


def pc_zero(u):
    return (Grade(u) == 0) == (u == 0)


def pc_bound(u):
    return z3.ULE(Grade(u), z3.BitVecVal(W, WB))


def level_B():
    u, v = z3.BitVec('u', WB), z3.BitVec('v', WB)
    pre = [valid(u), valid(v)]
    yield ('L-pc-add', pre + [revealed(u), revealed(v), revealed(u | v)], pc_add(u, v))
    yield ('L-pc-zero', pre + [revealed(u)], pc_zero(u))
    yield ('L-pc-bound', pre + [revealed(u)], pc_bound(u))


def _parts(x, y):
    a, b, c = x & ~y & MASK, y & ~x & MASK, x & y
    inst = [pc_add(a, c), pc_add(b, c), pc_add(a, b), pc_zero(a), pc_zero(b), pc_zero(c),
            pc_bound(a), pc_bound(b), pc_bound(c)]
    return a, b, c, inst


# ---------------------------------------------------------------- level A (opaque): mask condition <=> grade condition
def sub(a, b):
    return (a & b) == a


def absdiff(p, q):
    return z3.If(z3.UGE(p, q), p - q, q - p)


def L_op(x, y):
    return ((x & y) == 0) == (Grade(x ^ y) == Grade(x) + Grade(y))


def L_ip(x, y):
    return z3.Or(sub(x, y), sub(y, x)) == (Grade(x ^ y) == absdiff(Grade(x), Grade(y)))


def L_lc(x, y):
    return sub(x, y) == (Grade(x ^ y) == Grade(y) - Grade(x))


def L_rc(x, y):
    return sub(y, x) == (Grade(x ^ y) == Grade(x) - Grade(y))


def L_sp(x, y):
    return (x == y) == (Grade(x ^ y) == 0)


LEVEL_A = {'L-op': L_op, 'L-ip': L_ip, 'L-lc': L_lc, 'L-rc': L_rc, 'L-sp': L_sp}


def level_A():
    x, y = z3.BitVec('x', WB), z3.BitVec('y', WB)
    a, b, c, inst = _parts(x, y)
    pre = [valid(x), valid(y)] + inst
    for name, f in LEVEL_A.items():
        yield (name, pre, f(x, y))
    # canaries: deliberately wrong variants must be refuted (non-vacuity of the hypotheses)
    yield ('CANARY L-lc-swapped', pre, sub(y, x) == (Grade(x ^ y) == Grade(y) - Grade(x)))


# ---------------------------------------------------------------- arithmetic side (code filters <=> mask condition)
def ZE(k):
    return k        # keys already live in WB bits with head-room; Python ints do not wrap


def A_op(x, y):      # k_out == kx + ky
    return ((x ^ y) == x + y) == ((x & y) == 0)


def A_ip(x, y):      # k_out == abs(kx - ky)
    d = x - y
    return ((x ^ y) == z3.If(d < 0, -d, d)) == z3.Or(sub(x, y), sub(y, x))


def A_lc(x, y):      # k_out == -(kx - ky)
    return ((x ^ y) == -(x - y)) == sub(x, y)


def A_rc(x, y):      # k_out == kx - ky
    return ((x ^ y) == (x - y)) == sub(y, x)


def A_sp(x, y):      # k_out == 0
    return ((x ^ y) == 0) == (x == y)


ARITH = {'A-op': A_op, 'A-ip': A_ip, 'A-lc': A_lc, 'A-rc': A_rc, 'A-sp': A_sp}


def arith():
    x, y = z3.BitVec('x', WB), z3.BitVec('y', WB)
    for name, f in ARITH.items():
        yield (name, [valid(x), valid(y)], f(x, y))


def all_lemmas():
    yield from level_B()
    yield from level_A()
    yield from arith()


def instances(x, y):
    """Hypotheses a function VC may assume for a pair of valid keys (each is an instance of a lemma above)."""
    return [L_op(x, y), L_ip(x, y), L_lc(x, y), L_rc(x, y), L_sp(x, y),
            pc_bound(x), pc_bound(y), pc_bound(x ^ y)]
