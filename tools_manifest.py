"""Regenerates MANIFEST.json from the property modules (run: python3-vt tools_manifest.py)."""
import json, importlib, os, sys
HERE = os.path.dirname(os.path.abspath(__file__))
sys.path.insert(0, HERE)
props = [json.loads(l) for l in open(os.path.join(HERE, 'properties.jsonl'))]
NA = json.load(open(os.path.join(HERE, 'not_applicable.json'))) if os.path.exists(os.path.join(HERE, 'not_applicable.json')) else {}
checks, na = [], []
for p in props:
    pid = p['id']
    path = os.path.join(HERE, 'props', pid + '.py')
    if not os.path.exists(path) or pid in NA:
        na.append({'property_id': pid, 'reason': NA.get(pid, 'check not built yet (work in progress, see DESIGN.md section 10)')})
        continue
    m = importlib.import_module('props.' + pid)
    checks.append({
        'property_id': pid,
        'quick_cmd': f'./check {pid} --tier quick',
        'thorough_cmd': f'./check {pid} --tier thorough',
        'evidence_file': f'/verif/evidence/{pid}.json',
        'replay_cmd_template': './check --replay {path}',
        'engine': 'kvc',
        'level_claimed': {'category': m.LEVEL, 'text': getattr(m, 'LEVEL_TEXT', m.EXPLANATION), 'design_ref': f'DESIGN.md section 5 ({pid})'},
        'level_note': '; '.join(getattr(m, 'ASSUMPTIONS', []))[:3000],
        'technique': getattr(m, 'TECHNIQUE', 'contract-based deductive verification: VCs generated from the real AST (kvc) + lemma library, discharged by z3/cvc5; bounded stand-ins labelled as such'),
    })
manifest = {
    'version': 1,
    'setup_cmd': 'true',
    'hooks': {'guard': 'KINGDON_VERIF', 'enable': 'no source hooks: checks parse /repo/kingdon/*.py with ast on every run and run the unmodified package in /venv/bin/python subprocesses',
              'baseline_off_cmd': 'cd /repo && /venv/bin/python -m pytest -q -p no:cacheprovider --timeout=900',
              'source_commits': [], 'add_only': True},
    'engines': [{'name': 'kvc', 'path': '/verif/kvc', 'serves_properties': [c['property_id'] for c in checks],
                 'kind_free_text': 'own AST->SMT verification-condition generator for a Python subset (symbolic interpreter, loop contracts, ghost state), z3 5.1 / cvc5 back ends; native replay in /venv/bin/python'}],
    'checks': checks,
    'notes': ('See DESIGN.md. ./check --selftest runs the mutation self-test of the engine on a scratch copy.  Repairs of genuine defects committed in /repo '
              '(unguarded, message starts with "fix:"; eleven commits on top of the pinned snapshot, the last two 57762e2 (F16, C01) and 07e6cb4 (F18, C11)): recorded as fixed in known_findings.json, which also lists the '
              'known findings (reported as KNOWN-FINDING lines, exit 0).  tools/validate.py validates MANIFEST.json and evidence/*.json against the schemas.'),
    'not_applicable': na,
}
json.dump(manifest, open(os.path.join(HERE, 'MANIFEST.json'), 'w'), indent=1)
print('checks:', [c['property_id'] for c in checks], 'n/a:', [x['property_id'] for x in na])
