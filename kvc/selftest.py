"""Mutation self-test of the VC generator (`./check --selftest`).

Copies /repo/kingdon to a scratch directory under /var/tmp, applies one deliberately broken body at a time, regenerates the
obligations of the contract that covers it (KVC_REPO points the extractor at the scratch copy) and requires that the
obligation named next to the mutant is refuted (or, where stated, that the function becomes out-of-subset).  The pristine
copy must discharge everything.  Equivalent mutants found while building the framework are listed with `expect: 'pass'`
so that a regression towards false alarms is noticed as well."""
import json
import os
import shutil
import subprocess
import sys
import tempfile

HERE = os.path.dirname(os.path.dirname(os.path.abspath(__file__)))

# (file, old, new, contract group, expected: substring of a refuted obligation | 'pass' | 'oos')
MUTANTS = [
    ('codegen.py', "diff_func=lambda x: -x", "diff_func=lambda x: x", 'codegen', 'codegen_lc/lc: pair selected'),
    ('codegen.py', "else (- vx * vy)", "else (vx * vy)", 'codegen', 'codegen_product'),
    ('codegen.py', "res[key_out] += termstr", "res[key_out] = termstr", 'codegen', 'stored text denotes the sum'),
    ('codegen.py', "sign > 0", "sign >= 0", 'codegen', 'pass'),                       # equivalent: sign != 0 on that path
    ('codegen.py', "k_out == kx + ky", "k_out == kx | ky", 'codegen', 'pass'),          # equivalent: both say kx & ky == 0
    ('codegen.py', "algebra.signs[kx, ky] - algebra.signs[ky, kx]", "algebra.signs[kx, ky] + algebra.signs[ky, kx]", 'codegen', 'codegen_cp/cp: pair selected'),
    ('codegen.py', "return self.__class__(f'-{self}*{other[1:]}')", "return self.__class__(f'{self}*{other[1:]}')", 'codegen', 'mathstr.__mul__/post'),
    ('codegen.py', "return self.__class__(f'{self}+{other[1:]}')", "return self.__class__(f'{self}-{other[1:]}')", 'codegen', 'mathstr.__sub__/post'),
    ('codegen.py', "algebra.signs[key_pss - pair[0], key_pss - pair[1]] *", "", 'codegen', 'codegen_rp/rp: sign'),
    ('codegen.py', "key_pss == kx + ky - k_out", "key_pss == kx + ky + k_out", 'codegen', 'codegen_rp/rp: pair selected'),
    ('codegen.py', "vals[k] = vals[k] - v", "vals[k] = vals[k] + v", 'unary', 'codegen_sub/inv-step'),
    ('codegen.py', "vals[k] = -v", "vals[k] = v", 'unary', 'codegen_sub/inv-step'),
    ('codegen.py', "invert_grades=(1, 3)", "invert_grades=(1, 2)", 'unary', 'codegen_involute/involute: coefficient sign'),
    ('codegen.py', "% 4 in invert_grades", "% 2 in invert_grades", 'unary', 'codegen_reverse/reverse: coefficient sign'),
    ('codegen.py', "x.algebra.signs[eI, key_dual] < 0", "x.algebra.signs[key_dual, eI] < 0", 'unary', 'codegen_hodge/hodge: coefficient sign'),
    ('codegen.py', "return {k: -v for k, v in x.items()}", "return {k: v for k, v in x.items()}", 'unary', 'codegen_neg/neg: coefficient sign'),
    ('codegen.py', "        return - x * x.algebra.pss", "        return x * x.algebra.pss", 'unary', 'codegen_polarity/post: pss*pss == -1'),
    ('codegen.py', "for canon, bin in algebra.canon2bin.items() if bin in res.keys()}", "for canon, bin in algebra.canon2bin.items()}", 'glue', 'do_codegen/dict result'),
    ('codegen.py', "zip(string.ascii_uppercase, mvs)}", "zip(string.ascii_uppercase, reversed(mvs))}", 'glue', 'lambdify args =='),
    ('codegen.py', "        for mv, arg in zip(mvs, args):", "        for mv, arg in zip(reversed(mvs), args):", 'glue', 'func_builder'),
    ('algebra.py', "swaps += len(blade1) - idx - 1", "swaps += len(blade1) - idx", 'swap', 'inv0-step: par(swaps)'),
    ('algebra.py', "swaps += idx - i", "swaps += idx", 'swap', 'inv1-step: par(swaps)'),
    ('algebra.py', "        blade1.remove(char)", "        pass", 'swap', 'inv0-step'),
    ('algebra.py', "sign = -1 if swaps % 2 else 1", "sign = -1 if swaps % 3 else 1", 'table', '_compute_sign'),
    ('algebra.py', "sign *= self.signature[int(key, base=16) - self.start_index]", "sign *= self.signature[int(key, base=16)]", 'table', '_compute_sign'),
    ('algebra.py', "hex(num + self.start_index - 1)[2:]", "hex(num + self.start_index)[2:]", 'table', 'default-basis naming'),
    ('algebra.py', "sign = '-' if sign == -1 else ''", "sign = '-' if sign == 1 else ''", 'table', "Algebra.cayley/inv-step: '-' prefix"),
    ('algebra.py', "signs[I, J] = _compute_sign((I, J), (eI, eJ))", "signs[I, J] = _compute_sign((J, I), (eI, eJ))", 'table', '_prepare_signs/inv-step'),
    ('algebra.py', "return self.blades[basis_blade] if swaps % 2 == 0 else - self.blades[basis_blade]", "return self.blades[basis_blade]", 'table', 'BladeDict.__getitem__'),
    ('algebra.py', "if self.d > 6:", "if self.d > 7:", 'table', 'pass'),                  # performance threshold, not a property
    ('operator_dict.py', "return type(mv2)(self._call_binary(mv1, mv) for mv in mv2)", "return type(mv2)(self._call_binary(mv, mv1) for mv in mv2)", 'dispatch', 'list as operand 2'),
    ('operator_dict.py', "values_out = func(mv1.values(), mv2.values())", "values_out = func(mv2.values(), mv1.values())", 'dispatch', 'values are passed as'),
    ('operator_dict.py', "keys_out, func = self[mv1.keys(), mv2.keys()]", "keys_out, func = self[mv2.keys(), mv1.keys()]", 'dispatch', 'the cache key is (mv1.keys(), mv2.keys())'),
    ('operator_dict.py', "mv2 = mv2 if isinstance(mv2, MultiVector) else MultiVector.fromkeysvalues(self.algebra, (0,), [mv2])",
     "mv2 = mv2 if isinstance(mv2, MultiVector) else MultiVector.fromkeysvalues(self.algebra, (1,), [mv2])", 'dispatch', 'a number as operand 2'),
    ('operator_dict.py', "if not (mv1.algebra is mv2.algebra or mv1.algebra == mv2.algebra):", "if False:", 'dispatch', 'operands whose algebras differ'),
    ('operator_dict.py', "keysvalues = tuple((k, simpv) for k, v in zip(keys_out, values_out) if (simpv := self.algebra.simp_func(v)))",
     "keysvalues = tuple((k, v) for k, v in zip(keys_out, [self.algebra.simp_func(v) for v in values_out if not (isinstance(v, (int, float)) and v == 0)]) if v)",
     'dispatch', 'a plain numeric zero is dropped and every surviving value keeps its own key'),
    ('operator_dict.py', "keys_in = tuple(mv.keys() for mv in mvs)", "keys_in = (mv.keys() for mv in mvs)", 'dispatch', 'the cache key compares equal on the next call'),
    ('operator_dict.py', "keys_in = tuple(mv.keys() for mv in mvs)", "keys_in = tuple(mv.keys() for mv in reversed(mvs))", 'dispatch', "operands' key tuples, in operand order"),
    ('operator_dict.py', "values_in = tuple(mv.values() for mv in mvs)", "values_in = tuple(mv.values() for mv in reversed(mvs))", 'dispatch', 'values are passed in operand order'),
    ('operator_dict.py', "keys_in = tuple(mv.keys() for mv in mvs)", "keys_in = tuple([mv.keys() for mv in mvs])", 'dispatch', 'pass'),      # harmless: same tuple
    ('multivector.py', "return self._values[idx] if swaps % 2 == 0 else - self._values[idx]", "return self._values[idx]", 'access', 'getattr: (-1)^parity'),
    ('multivector.py', "for k in self.algebra.indices_for_grades[grades] if k in self.keys()}", "for k in self.algebra.indices_for_grades[grades]}", 'access', 'grade: a candidate blade is kept'),
    ('multivector.py', "        return self.algebra.sub(other, self)", "        return self.algebra.sub(self, other)", 'delegation', '__rsub__'),
    ('multivector.py', "elif len(keys) != len(values):", "elif len(keys) > len(values):", 'new', 'length mismatch'),
    ('taperecorder.py', "expr = f'{func.__name__}({self.expr}, {other.expr})'", "expr = f'{func.__name__}({other.expr}, {self.expr})'", 'tape', 'emitted call passes the operand expressions'),
    ('taperecorder.py', "sign = '-' if swaps % 2 else ''", "sign = '-' if swaps else ''", 'tape', '(-1)^parity * value at the position of the blade'),
    ('taperecorder.py', "        if basis_blade not in self.algebra.canon2bin:\n            return self.__class__(", "        if self.algebra.canon2bin.get(basis_blade) is None:\n            return self.__class__(", 'tape', 'pass'),      # harmless: same test through .get
    ('taperecorder.py', "sw = __rshift__ = partialmethod(binary_operator, operator='sw')", "sw = __rshift__ = partialmethod(binary_operator, operator='proj')", 'tape', 'uses algebra.sw'),
    ('polynomial.py', "if diff < 0:", "if diff <= 0:", 'poly', 'Polynomial.__add__'),
    ('polynomial.py', "ea[0] += eb[0]", "ea[0] -= eb[0]", 'poly', 'Polynomial.__add__'),
    ('polynomial.py', "if ea[0] != 0:", "if True:", 'poly', 'appended coefficient is non-zero'),
    ('polynomial.py', "                ea = ea.copy()\n", "", 'poly', 'frame: the monomials of operand'),
    ('polynomial.py', "if other == 0 and (not self.args or self.args == [[0]]): return True", "if other == 0 and (not self.args or self.args == [[0]] or all(abs(m[0]) < 1e-14 for m in self.args)): return True", 'poly', '__eq__(0)'),
    ('polynomial.py', "            return bool(self.args[0][0])", "            return abs(self.args[0][0]) >= 1e-14", 'poly', '__bool__'),
    ('polynomial.py', "nn, nd = na * db + nb * da, da * db", "nn, nd = na * db + nb * da, da", 'poly', 'post __add__'),
    ('polynomial.py', "return la - lb", "return lb - la", 'poly', 'compare'),
    ('polynomial.py', "for i in range(1, l):", "for i in range(0, l):", 'poly', 'compare'),
    ('polynomial.py', "(ea is not None and ea < eb)", "(ea is not None and ea > eb)", 'poly', 'inner inv-step'),
    ('polynomial.py', "C = [A[0] * B[0]]", "C = [A[0] + B[0]]", 'poly', 'Polynomial.__mul__'),
    ('polynomial.py', "while i < len(A) or j < len(B):", "while i < len(A) and j < len(B):", 'poly', 'Polynomial.__mul__'),
    ('polynomial.py', "itertools.product(range(0, al), range(0, bl))", "itertools.product(range(1, al), range(0, bl))", 'poly', 'the loop runs over all pairs'),
    ('polynomial.py', "p1 += 1; p2 += 1; continue;", "p1 += 1; continue;", 'poly', 'common-factor inv-step'),
    ('polynomial.py', "return self.__class__([nnn], [nnd])", "return self.__class__([nnd], [nnn])", 'poly', 'post __mul__'),
    ('polynomial.py', "while p1 < len(fl1) or p2 < len(fl2):", "while p1 < len(fl1) and p2 < len(fl2):", 'poly', 'post __mul__'),
    ('polynomial.py', "if f2 is None or (f1 is not None and f1 < f2):", "if f2 is None or (f1 is not None and f1 > f2):", 'poly', 'pass'),   # misses common factors, same value
    ('polynomial.py', "(ea is not None and ea < eb)", "(ea is not None and ea <= eb)", 'poly', 'pass'),       # equivalent: ties may go either way
    ('multivector.py', "                cosh = np.cosh\n", "                cosh = np.cos\n", 'exp', 'exp, s > 0'),
    ('multivector.py', "sinhc = lambda x: np.sinc(x / np.pi)", "sinhc = lambda x: np.sinc(x)", 'exp', 'exp, s < 0'),
    ('multivector.py', "elif isinstance(ll, (float, int)) and ll > 0:", "elif isinstance(ll, (float, int)) and ll >= 0:", 'exp', 'exp, s == 0'),
    ('multivector.py', "        if ll.grades and ll.grades != (0,):", "        if False:", 'exp', 'raises NotImplementedError'),
    ('multivector.py', "        return self * sinhc(l) + cosh(l)", "        c = cosh(l)\n        return c + self * sinhc(l)", 'exp', 'pass'),
    ('multivector.py', "        for i in range(1, power):\n            res = res.gp(x)\n        return res",
     "        res, sq, n = None, x, power\n        while n:\n            if n & 1:\n                res = sq if res is None else res.gp(sq)\n            n >>= 1\n            if n:\n                sq = sq.gp(sq)\n        return res", 'pow', 'pass'),   # correct square-and-multiply
    ('multivector.py', "        for i in range(1, power):\n            res = res.gp(x)\n        return res",
     "        for i in range(2, power):\n            res = res.gp(x)\n        return res", 'pow', 'a product of exactly'),
    ('codegen.py', "num = xconj * (x_xconj - 2 * x_xconj.grade(3, 4))", "num = xconj * (x_xconj - 2 * x_xconj.grade(2, 3))", 'inverse', 'd=4,signature'),
    ('codegen.py', "num = xconj * ~(x * xconj)", "num = xconj * (x * xconj)", 'inverse', 'd=3,signature'),
    ('codegen.py', "    elif d == 2:\n        num = x.conjugate()", "    elif d == 2:\n        num = x.involute()", 'inverse', 'd=2,signature'),
    ('codegen.py', "    denom = (x.sp(num)).e", "    denom = (num.sp(x)).e", 'inverse', 'pass'),                        # <x num>_0 == <num x>_0
    ('codegen.py', "num = xconj * ~(x * xconj)", "num = ~(x * xconj) * xconj", 'inverse', 'pass'),                       # also a two-sided inverse
    ('codegen.py', "def codegen_normsq(x):\n    return x * ~x", "def codegen_normsq(x):\n    return x * x", 'composegen', 'codegen_normsq on generic operands'),
    ('codegen.py', "    return x * y * ~x\n", "    return ~x * y * x\n", 'composegen', 'codegen_sw on generic operands'),
    ('codegen.py', "    return x * y * ~x\n", "    return x * (y * ~x)\n", 'composegen', 'pass'),                 # associativity
    ('codegen.py', "cs.append(s if (s := xi.e) == 0 else n * s / i)", "cs.append(s if (s := xi.e) == 0 else n * s / (i + 1))", 'inverse', 'codegen_shirokov_inv'),
    ('codegen.py', "        adj = xs[-1] - cs[-1]", "        adj = xs[-1] + cs[-1]", 'inverse', 'codegen_shirokov_inv'),
    ('codegen.py', "powers[step] = operation(powers[chain[-2]], powers[step - chain[-2]])", "powers[step] = operation(powers[chain[-2]], powers[chain[-2]])", 'inverse', 'codegen_shirokov_inv'),
    ('codegen.py', "    num = num if x is None else x * num", "    num = num if x is None else num * x", 'inverse', 'the quotient is x * inverse(y)'),
    ('codegen.py', "        Wj._values = tuple(v / j for v in Wj._values)", "        Wj._values = tuple(v / (j + 1) for v in Wj._values)", 'outerexp', 'codegen_outerexp == sum'),
    ('codegen.py', "    k = alg.d\n", "    k = alg.d // 2\n", 'outerexp', 'codegen_outerexp == sum'),
    ('codegen.py', "    odd_Ws = codegen_outerexp(x, asterms=True)[1::2]", "    odd_Ws = codegen_outerexp(x, asterms=True)[0::2]", 'outerexp', 'codegen_outersin == sum'),
    ('codegen.py', "def codegen_rc(x, y):", "def codegen_rc(x, y):\n    if x.grades[-1] < y.grades[-1]:\n        return {}", 'prodgen', 'codegen_rc on generic operands'),
    ('codegen.py', "def codegen_rc(x, y):", "def codegen_rc(x, y):\n    if x.grades[-1] < y.grades[0]:\n        return {}", 'prodgen', 'pass'),       # a correct early exit
    # ---- harmless refactorings: must stay green (no VIOLATION); out-of-subset is acceptable (undecided), refutation is a false alarm
    ('codegen.py', "            termstr = vx * vy if sign > 0 else (- vx * vy)\n            if key_out in res:\n                res[key_out] += termstr\n            else:\n                res[key_out] = termstr",
     "            term = vx * vy if sign > 0 else (- vx * vy)\n            if key_out not in res:\n                res[key_out] = term\n            else:\n                res[key_out] = res[key_out] + term", 'codegen', 'pass'),
    ('codegen.py', "        if (sign := sign_func((kx, ky))):\n            key_out = keyout_func(kx, ky)\n            if filter_func and not filter_func(kx, ky, key_out): continue",
     "        sign = sign_func((kx, ky))\n        if sign:\n            key_out = keyout_func(kx, ky)\n            if filter_func is not None and not filter_func(kx, ky, key_out):\n                continue", 'codegen', 'pass'),
    ('codegen.py', "    return x * y * ~x\n", "    xy = x * y\n    return xy * ~x\n", 'compose', 'pass'),
    ('operator_dict.py', "            values_out = func(mv1.values(), mv2.values())\n        else:", "            vals1, vals2 = mv1.values(), mv2.values()\n            values_out = func(vals1, vals2)\n        else:", 'dispatch', 'pass'),
    ('operator_dict.py', "        keys_out, func = self[mv1.keys(), mv2.keys()]\n        issymbolic = (mv1.issymbolic or mv2.issymbolic)", "        issymbolic = (mv1.issymbolic or mv2.issymbolic)\n        keys_out, func = self[mv1.keys(), mv2.keys()]", 'dispatch', 'pass'),
    ('polynomial.py', "            i = 1\n            j = 1\n            while i < len(A) or j < len(B):", "            j = 1\n            i = 1\n            while i < len(A) or j < len(B):", 'poly', 'pass'),
    ('polynomial.py', "        al = len(self)\n        bl = len(other)\n        for ai, bi in itertools.product(range(0, al), range(0, bl)):", "        for ai, bi in itertools.product(range(len(self)), range(len(other))):", 'poly', 'pass'),
    ('multivector.py', "        return self.algebra.sub(other, self)", "        alg = self.algebra\n        return alg.sub(other, self)", 'delegation', 'pass'),
    # custom-basis branch of Algebra.__post_init__ (generic in the number of names, their lengths and characters)
    ('algebra.py', "vec2bin = {vec: 2 ** j for j, vec in enumerate(vecs)}", "vec2bin = {vec: 2 ** (j + 1) for j, vec in enumerate(vecs)}", 'custombasis', 'the j-th vector gets the key 2**j'),
    ('algebra.py', "for j, vec in enumerate(vecs)}", "for j, vec in enumerate(vecs, 1)}", 'custombasis', 'the j-th vector gets the key 2**j'),
    ('algebra.py', "self.start_index = int(min(vecs))", "self.start_index = int(vecs[0])", 'custombasis', 'P1: start_index'),
    ('algebra.py', "self.start_index = int(min(vecs))", "self.start_index = int(max(vecs))", 'custombasis', 'P1: start_index'),
    ('algebra.py', "vecs = [eJ[1:] for eJ in self.basis if len(eJ) == 2]", "vecs = [eJ[1:] for eJ in self.basis if len(eJ) <= 2]", 'custombasis', 'a name is selected'),
    ('algebra.py', "reduce(operator.xor, (vec2bin[v] for v in eJ[1:]), 0)", "reduce(operator.xor, (vec2bin[v] for v in eJ[1:]), 1)", 'custombasis', 'fold-init'),
    ('algebra.py', "reduce(operator.xor, (vec2bin[v] for v in eJ[1:]), 0)", "reduce(operator.and_, (vec2bin[v] for v in eJ[1:]), 0)", 'custombasis', 'fold-step'),
    ('algebra.py', "reduce(operator.xor, (vec2bin[v] for v in eJ[1:]), 0)", "reduce(operator.or_, (vec2bin[v] for v in eJ[1:]), 0)", 'custombasis', 'pass'),   # distinct characters: or == xor
    ('algebra.py', "sorted(self.canon2bin.items(), key=lambda x: x[1])}", "sorted(self.canon2bin.items(), key=lambda x: x[0])}", 'custombasis', 'sorted: the sort key'),
    ('algebra.py', "sorted(self.canon2bin.items(), key=lambda x: x[1])}", "sorted(self.canon2bin.items(), key=lambda x: x[1], reverse=True)}", 'custombasis', 'sorted: ascending'),
    ('algebra.py', "self.bin2canon = {J: eJ for eJ, J in sorted(", "self.bin2canon = {J: eJ for J, eJ in sorted(", 'custombasis', 'P3'),
    ('algebra.py', "            assert all(eJ[0] == 'e' for eJ in self.basis)\n", "", 'custombasis', 'pass'),                    # an assert only rejects inputs
    ('graph.py', "return walker(encode(self._get_pre_subjects(), root=True))", "return walker(encode(self.pre_subjects, root=True))", 'graph', 'get_subjects encodes the result of a new evaluation'),
    ('graph.py', "self.inplacereplace(self.pre_subjects, zip(self.draggable_points_idxs, change['new']))", "self.inplacereplace(self.pre_subjects, zip(self.draggable_points_idxs, change['old']))", 'graph', 'drag: the reported points are written'),
    ('graph.py', "        self.subjects = self.get_subjects().copy()", "        self.subjects = list(self.get_subjects())", 'graph', 'pass'),
    ('graph.py', "return {k: i for i, k in enumerate(self.algebra.canon2bin.values())}", "return {k: i for i, k in enumerate(self.algebra.canon2bin.values(), 1)}", 'graph', 'key2idx'),
    # power machinery: generic exponent (loop invariants over chains of unknown length)
    ('codegen.py', "value = left_summand + right_summand", "value = left_summand * right_summand", 'powers', 'INV holds for every key after the store'),
    ('codegen.py', "chains[value] = (*chain, value)", "chains[value] = (*chain, left_summand)", 'powers', 'stored under its own last element'),
    ('codegen.py', "if value <= self.limit and value not in chains:", "if value <= self.limit:", 'powers', 'never overwrites'),
    ('codegen.py', "                right_summand = chain[-1]", "                right_summand = chain[0]", 'powers', 'INV holds for every key after the store'),
    ('codegen.py', "if value <= self.limit and value not in chains:", "if not value > self.limit and not value in chains:", 'powers', 'pass'),
    ('codegen.py', "powers[step] = operation(powers[chain[-2]], powers[step - chain[-2]])", "powers[step] = operation(powers[chain[-1]], powers[step - chain[-2]])", 'powers', 'KeyError'),
    ('codegen.py', "powers[step] = operation(powers[chain[-2]], powers[step - chain[-2]])", "powers[step] = operation(powers[chain[-2]], powers[chain[-2]])", 'powers', 'holds x ** (that element)'),
    ('codegen.py', "powers[step] = operation(powers[chain[-2]], powers[step - chain[-2]])", "powers[step] = operation(powers[step - chain[-2]], powers[chain[-2]])", 'powers', 'pass'),
    ('codegen.py', "        yield powers[step]", "        yield powers[chain[0]] if step not in powers else powers[step]", 'powers', 'pass'),
    ('multivector.py', "        for i in range(1, power):\n            res = res.gp(x)", "        for i in range(0, power):\n            res = res.gp(x)", 'powers', 'MultiVector.__pow__/generic positive integer exponent/post'),
    ('taperecorder.py', "        for i in range(1, power):\n            res = res.gp(x)", "        for i in range(1, power):\n            res = res.gp(x).gp(x)", 'powers', 'TapeRecorder.__pow__/generic positive integer exponent/inv-step'),
    ('polynomial.py', "            *_, last = power_supply(self, -power)\n            return 1 / last", "            *_, last = power_supply(self, -power)\n            return last", 'powers', 'returns 1 / (self ** |n|)'),
    ('polynomial.py', "        *_, last = power_supply(self, power)\n        return last\n\n    def __truediv__", "        first, *_ = power_supply(self, power)\n        return first\n\n    def __truediv__", 'powers', 'Polynomial.__pow__/generic positive integer exponent/post'),
]


def build_group(H, group):
    from contracts import codegen_c as C, codegen_unary_c as U, algebra_c as A, dispatch_c as D, access_c as AC
    from contracts import multivector_c as M, taperecorder_c as T, polynomial_c as P, codegen_glue_c as G
    if group == 'codegen':
        C.vc_mathstr(H)
        C.vc_codegen_product(H)
        for op in ('gp', 'op', 'ip', 'lc', 'rc', 'sp', 'cp', 'acp', 'rp'):
            C.vc_product_operator(H, op)
    elif group == 'unary':
        U.vc_addsub(H, 'add'); U.vc_addsub(H, 'sub'); U.vc_neg(H)
        for w in ('reverse', 'involute', 'conjugate'):
            U.vc_involution(H, w)
        U.vc_hodge(H, 'hodge'); U.vc_hodge(H, 'unhodge'); U.vc_polarity(H)
    elif group == 'glue':
        G.vc_do_codegen(H); G.vc_func_builder(H)
    elif group == 'swap':
        A.vc_swap_blades(H, lengths=range(0, 6))
    elif group == 'table':
        A.vc_compute_sign(H); A.vc_default_naming(H); A.vc_cayley(H); A.vc_prepare_signs(H); A.vc_blade2canon(H); A.vc_bladedict_getitem(H)
    elif group == 'dispatch':
        D.vc_getitem(H, 'OperatorDict'); D.vc_call_binary(H); D.vc_unary_call(H); D.vc_filter(H); D.vc_call_nary(H)
    elif group == 'access':
        AC.vc_grade(H); AC.vc_getattr(H)
    elif group == 'delegation':
        M.vc_mv_delegations(H)
    elif group == 'new':
        AC.vc_new(H)
    elif group == 'tape':
        T.vc_tape_operators(H); T.vc_tape_getattr(H)
    elif group == 'prodgen':
        from contracts import inverse_c as IC
        IC.vc_products_generic(H, 'quick', only_ops=('lc', 'rc', 'rp'))
    elif group == 'outerexp':
        from contracts import inverse_c as IC
        IC.vc_outerexp_generic(H, 'quick')
    elif group == 'composegen':
        from contracts import inverse_c as IC
        IC.vc_compositions_generic(H, 'quick')
    elif group == 'inverse':
        from contracts import inverse_c as IC
        IC.vc_hitzer_inv(H, 'quick'); IC.vc_shirokov_small(H, 'quick'); IC.vc_div_generic(H, 'quick'); IC.vc_inv_patterns(H, 'quick')
    elif group == 'pow':
        from contracts import misc_c as MC
        MC.vc_pow(H); T.vc_tape_pow(H)
    elif group == 'exp':
        from contracts import misc_c as MC
        MC.vc_exp(H)
    elif group == 'compose':
        U.vc_compositions(H)
    elif group == 'custombasis':
        A.vc_custom_basis(H)
    elif group == 'powers':
        from contracts import powers_c as PW
        PW.vc_power_supply(H); PW.vc_power_supply_consecutive(H); PW.vc_minimal_chains(H); PW.vc_pow_generic(H); PW.vc_poly_pow(H)
    elif group == 'graph':
        from contracts import misc_c as MC
        MC.vc_graph_refresh(H); MC.vc_graph_derived(H); MC.vc_inplacereplace(H)
    elif group == 'poly':
        P.vc_compare(H); P.vc_poly_add(H); P.vc_rational(H); P.vc_zero_tests(H); P.vc_poly_mul(H)
    else:
        raise KeyError(group)


def run_group(group):
    """Executed in a subprocess with KVC_REPO set: prints a JSON summary."""
    sys.path.insert(0, HERE)
    from kvc.harness import Harness
    H = Harness()
    build_group(H, group)
    res, _ = H.discharge(30000)
    out = {'refuted': [r['name'] for r in res if r['verdict'] == 'sat'], 'undecided': [r['name'] for r in res if r['verdict'] == 'unknown'],
           'oos': [a + ': ' + b for a, b in H.out_of_subset], 'n': len(res), 'vacuous': H.vacuous}
    print('SELFTEST-JSON ' + json.dumps(out))


def main(argv):
    if argv and argv[0] == '--group':
        run_group(argv[1])
        return 0
    only = argv[0] if argv else None
    scratch = tempfile.mkdtemp(prefix='kvc-selftest-', dir='/var/tmp')
    repo = os.environ.get('KVC_REPO', '/repo')
    try:
        shutil.copytree(os.path.join(repo, 'kingdon'), os.path.join(scratch, 'kingdon'))
        env = dict(os.environ, KVC_REPO=scratch)

        def group_result(group):
            p = subprocess.run([sys.executable, os.path.join(HERE, 'check.py'), '--selftest', '--group', group], env=env, capture_output=True, text=True)
            for ln in p.stdout.splitlines():
                if ln.startswith('SELFTEST-JSON '):
                    return json.loads(ln[len('SELFTEST-JSON '):])
            return {'error': (p.stdout + p.stderr)[-600:]}
        bad = 0
        groups = sorted({m[3] for m in MUTANTS})
        base = {}
        for g in groups:
            if only and g != only:
                continue
            base[g] = group_result(g)
            ok = not base[g].get('error') and not base[g]['refuted'] and not base[g]['oos'] and not base[g]['vacuous']
            print(f'pristine {g}: {"ok" if ok else "FAIL"} ({base[g].get("n")} obligations)' + ('' if ok else ' ' + json.dumps(base[g])[:300]))
            bad += not ok
        for fn, old, new, g, expect in MUTANTS:
            if only and g != only:
                continue
            path = os.path.join(scratch, 'kingdon', fn)
            src = open(os.path.join(repo, 'kingdon', fn)).read()
            if src.count(old) < 1:
                print(f'SKIP (pattern not found, source changed): {fn}: {old[:50]}')
                continue
            open(path, 'w').write(src.replace(old, new, 1))
            r = group_result(g)
            open(path, 'w').write(src)
            if r.get('error'):
                verdict = False
                detail = 'crash: ' + r['error'][-200:]
            elif expect == 'pass':
                verdict = not r['refuted']
                detail = 'equivalent mutant stays green' if verdict else 'FALSE ALARM on an equivalent mutant: ' + r['refuted'][0]
            elif expect == 'oos':
                verdict = bool(r['oos'])
                detail = 'out-of-subset as expected'
            else:
                hit = [n for n in r['refuted'] if expect in n]
                verdict = bool(hit) or (bool(r['oos']) and False)
                detail = (hit[0][:110] if hit else 'NOT REFUTED; refuted=' + str(r['refuted'][:2]) + ' oos=' + str(r['oos'][:1]))
            print(f'{"ok  " if verdict else "FAIL"} {fn}: {old[:46]!r} -> {new[:30]!r}: {detail}')
            bad += not verdict
        print(f'selftest: {len(MUTANTS)} mutants, {bad} problem(s)')
        return 1 if bad else 0
    finally:
        shutil.rmtree(scratch, ignore_errors=True)
