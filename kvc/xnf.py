"""Parity terms in XOR-normal form: a frozenset of atoms plus a constant, closed under XOR by
symmetric difference.  Identical atoms cancel *syntactically* before anything reaches the solver
(CDCL cannot re-associate big XOR trees: measured > 50 min without this, 16 s with it)."""
import z3


class X:
    __slots__ = ('atoms', 'const')

    def __init__(self, atoms=(), const=False):
        self.atoms = frozenset(atoms)
        self.const = bool(const)

    def __xor__(self, o):
        if isinstance(o, (bool, int)):
            return X(self.atoms, self.const ^ bool(o))
        return X(self.atoms ^ o.atoms, self.const ^ o.const)

    __rxor__ = __xor__

    def term(self, table):
        t = z3.BoolVal(self.const)
        for a in sorted(self.atoms, key=repr):
            t = z3.Xor(t, table[a])
        return t

    def __repr__(self):
        return f'X({sorted(self.atoms, key=repr)}, {self.const})'


class Cells:
    """Named symbolic cells (SChar) and the comparator atoms between them."""

    def __init__(self):
        self.table = {}
        self.names = {}      # id(SChar) -> name

    def name(self, cell, nm=None):
        k = id(cell)
        if k not in self.names:
            self.names[k] = nm or f'c{len(self.names)}'
        return self.names[k]

    def gt(self, a, b):
        """atom [a > b] on cell codes"""
        na, nb = self.name(a), self.name(b)
        key = ('gt', na, nb)
        if key not in self.table:
            self.table[key] = z3.UGT(a.c, b.c)
        return X([key])

    def uf(self, fn, fname, a):
        key = ('uf', fname, self.name(a))
        if key not in self.table:
            self.table[key] = fn(a.c)
        return X([key])

    def inv(self, cells):
        """inversion parity of a list of cells"""
        r = X()
        for i in range(len(cells)):
            for j in range(i + 1, len(cells)):
                r = r ^ self.gt(cells[i], cells[j])
        return r
