"""Object models used by the sidecar contracts: sequences of unknown length, dict models,
abstract mathstr values, symbolic multivectors and algebras.

A model gives SMT meaning to the accessors the real bodies use.  All models are *views*: they never
contain a copy of kingdon logic -- the logic is the real AST being interpreted.
"""
import z3
from .values import (Sym, SBool, SKey, SInt, SSign, SRing, SChar, SStr, OutOfSubset, KvcInternal,
                     mkbool, tobool, merge, is_sym, WB, CB, current)

W = 16     # blade keys are < 2**W (generator names are single hex digits)


def sint(v):
    return v if isinstance(v, SInt) else SInt(z3.IntVal(v))


# ------------------------------------------------------------------ sequences of unknown length
class SymSeq:
    """Sequence with symbolic length; `get(i)` returns the element at a (symbolic) index."""
    kvc_symbolic_seq = True

    def __init__(self, interp, length, getter, kind='tuple'):
        self.interp, self.length, self.getter, self.kind = interp, length, getter, kind

    def kvc_len(self):
        return self.length

    def get(self, i):
        return self.getter(sint(i))

    def kvc_getitem(self, interp, idx):
        if isinstance(idx, (int, SInt)) and not isinstance(idx, bool):
            if isinstance(idx, int) and idx < 0:
                raise OutOfSubset('negative index into a sequence of unknown length')
            i = sint(idx)
            interp.ctx.safety('IndexError', z3.And(i.t >= 0, i.t < sint(self.length).t))
            return self.get(i)
        raise OutOfSubset('index form on a sequence of unknown length')

    def kvc_truth(self, interp):
        return mkbool(sint(self.length).t > 0)

    def kvc_eq(self, interp, other):
        # equality of two sequences of unknown length is not decidable from the models: both outcomes are explored
        if hasattr(other, 'kvc_symbolic_seq') or isinstance(other, (tuple, list)):
            if other is self:
                return True
            return SBool(z3.Bool(current().fresh('seq_equal')))
        return False

    def kvc_totuple(self, interp):
        return SymSeq(interp, self.length, self.getter, 'tuple')

    def kvc_tolist(self, interp):
        return SymSeq(interp, self.length, self.getter, 'list')

    def kvc_isinstance(self, interp, cls):
        classes = cls if isinstance(cls, tuple) else (cls,)
        return any(c.__name__ == self.kind for c in classes if isinstance(c, type))

    def kvc_todict(self, interp):
        raise OutOfSubset('dict() of a generic sequence (use a keyed view)')


class ZipSeq(SymSeq):
    def __init__(self, interp, its):
        lens = [sint(i.kvc_len() if hasattr(i, 'kvc_len') else len(i)) for i in its]
        ln = lens[0].t
        for l in lens[1:]:
            ln = z3.If(l.t < ln, l.t, ln)

        def get(i):
            return tuple(it.get(i) if hasattr(it, 'get') else interp.getitem(it, i) for it in its)
        super().__init__(interp, SInt(z3.simplify(ln)), get, 'zip')
        self.its = its


class EnumSeq(SymSeq):
    def __init__(self, interp, it, start=0):
        super().__init__(interp, it.kvc_len(), lambda i: (i + start, it.get(i)), 'enumerate')


class RangeSeq(SymSeq):
    def __init__(self, interp, *a):
        if len(a) == 1:
            lo, hi = 0, a[0]
        elif len(a) == 2:
            lo, hi = a
        else:
            raise OutOfSubset('range with step and symbolic bounds')
        self.lo, self.hi = lo, hi
        if isinstance(hi, SKey) or isinstance(lo, SKey):
            # elements are bit-vector ints: the element at a generic index is a fresh k with lo <= k < hi
            # (index <-> value is the identity shift, recorded as a BV2Int link)
            lo_k = lo if isinstance(lo, SKey) else SKey.const(lo)
            hi_k = hi if isinstance(hi, SKey) else SKey.const(hi)
            ctx = interp.ctx
            ln = z3.BV2Int(hi_k.t, True) - z3.BV2Int(lo_k.t, True)

            def get(i):
                k = SKey.fresh(ctx.fresh('rk'), lo_k.lo, max(hi_k.hi - 1, lo_k.lo))
                current().assume(z3.And(k.t >= lo_k.t, k.t < hi_k.t, z3.BV2Int(k.t, True) == sint(i).t + z3.BV2Int(lo_k.t, True)))
                return k
            super().__init__(interp, SInt(z3.If(ln > 0, ln, 0)), get, 'range')
            return
        ln = sint(hi) - sint(lo)
        super().__init__(interp, SInt(z3.If(ln.t > 0, ln.t, 0)), lambda i: i + lo, 'range')


class ProductSeq(SymSeq):
    """itertools.product(a, b): an enumeration m -> (a[I(m)], b[J(m)]) of all index pairs.
    Assumption (documented behaviour of itertools.product): every pair occurs exactly once."""

    def __init__(self, interp, a, b):
        ctx = interp.ctx
        self.a, self.b = a, b
        self.I = z3.Function(ctx.fresh('prodI'), z3.IntSort(), z3.IntSort())
        self.J = z3.Function(ctx.fresh('prodJ'), z3.IntSort(), z3.IntSort())
        L = z3.Int(ctx.fresh('prodL'))
        ctx.assume(L >= 0)

        def get(m):
            i, j = SInt(self.I(m.t)), SInt(self.J(m.t))
            ctx2 = current()
            ctx2.assume(z3.And(i.t >= 0, i.t < sint(a.kvc_len()).t, j.t >= 0, j.t < sint(b.kvc_len()).t))
            return (a.get(i), b.get(j))
        super().__init__(interp, SInt(L), get, 'product')


class CompSeq(SymSeq):
    """Result of a comprehension over one sequence of unknown length.  `at(i)` gives
    (filter condition, element) for source index i.  For kind == 'dict' the element is (key, value)."""

    def __init__(self, interp, src, at, kind):
        self.src, self.at, self.kind = src, at, kind
        self.interp = interp
        self.length = None

    def kvc_len(self):
        raise OutOfSubset('len() of a filtered comprehension of unknown length')

    def get(self, i):
        cond, el = self.at(sint(i))
        if cond is not True:
            raise OutOfSubset('indexing a filtered comprehension')
        return el

    def kvc_totuple(self, interp):
        return self

    def kvc_tolist(self, interp):
        return self

    def kvc_any(self, interp):
        """any(<comprehension of unknown length>): decidable here only when the element is literally True/False for a
        generic index; `any(True for selected elements)` is 'some element is selected' (a fresh Boolean per sequence)."""
        i = SInt(z3.Int(current().fresh('anyidx')))
        cond, el = self.at(i)
        if el is False or cond is False:
            return False
        if el is True:
            if not hasattr(self, '_nonempty'):
                self._nonempty = SBool(z3.Bool(current().fresh('nonempty')))
            root = getattr(self, 'base', self)
            if not hasattr(root, '_nonempty'):
                root._nonempty = self._nonempty
            return root._nonempty
        if isinstance(el, SBool) and isinstance(i.t, z3.ExprRef) and hasattr(self.src, 'kvc_len'):
            # exists an index in range whose (selected) element is true
            ln = sint(self.src.kvc_len()).t
            ct = cond.t if isinstance(cond, SBool) else z3.BoolVal(bool(cond))
            return SBool(z3.Exists([i.t], z3.And(i.t >= 0, i.t < ln, ct, el.t)))
        raise OutOfSubset('any() over a comprehension of unknown length with a symbolic element')

    def kvc_truth(self, interp):
        root = getattr(self, 'base', self)
        if not hasattr(root, '_nonempty'):
            root._nonempty = SBool(z3.Bool(current().fresh('nonempty')))
        return root._nonempty

    def items(self):
        if self.kind != 'dict':
            raise AttributeError('items')
        return self

    def keys(self):
        if self.kind != 'dict':
            raise AttributeError('keys')
        return CompPart(self, 'keys')

    def values(self):
        if self.kind != 'dict':
            raise AttributeError('values')
        return CompPart(self, 'values')

    def kvc_isinstance(self, interp, cls):
        classes = cls if isinstance(cls, tuple) else (cls,)
        want = {'dict': ('dict', 'Mapping'), 'list': ('list',), 'gen': (), 'set': ('set',)}[self.kind]
        return any(getattr(c, '__name__', '') in want for c in classes)


class CompPart(CompSeq):
    """keys() / values() of a dict comprehension of unknown length (aligned halves of one selection)."""

    def __init__(self, base, part):
        self.base, self.part = base, part
        self.interp, self.src, self.kind = base.interp, base.src, 'list'
        sel = 0 if part == 'keys' else 1
        self.at = lambda i: (lambda c_el: (c_el[0], c_el[1][sel]))(base.at(i))
        self.length = None


class AssocDict:
    """dict with a concrete number of entries whose keys may be symbolic (insertion-ordered list of pairs).
    Lookups fork over the matching entry.  Keys are required (obligation) to be pairwise distinct when built
    from a display/comprehension, mirroring dict semantics where a later equal key overwrites."""

    def __init__(self, interp, pairs):
        self.pairs = []
        for k, v in pairs:
            self._store(interp, k, v)

    def _store(self, interp, k, v):
        for i, (k2, _) in enumerate(self.pairs):
            if interp.truth(interp.eq(k2, k)):
                self.pairs[i] = (k2, v)
                return
        self.pairs.append((k, v))

    def kvc_contains(self, interp, k):
        r = False
        for k2, _ in self.pairs:
            r = interp.or_(r, interp.eq(k2, k))
        return r

    def kvc_getitem(self, interp, k):
        for k2, v in self.pairs:
            if interp.truth(interp.eq(k2, k)):
                return v
        raise KeyError(k)

    def kvc_setitem(self, interp, k, v):
        self._store(interp, k, v)

    def get(self, k, default=None):
        interp = self._interp()
        for k2, v in self.pairs:
            if interp.truth(interp.eq(k2, k)):
                return v
        return default

    def _interp(self):
        return _INTERP[0]

    def keys(self):
        return [k for k, _ in self.pairs]

    def values(self):
        return [v for _, v in self.pairs]

    def items(self):
        return list(self.pairs)

    def kvc_iter(self, interp):
        return iter(self.keys())

    def kvc_len(self):
        return len(self.pairs)

    def kvc_truth(self, interp):
        return len(self.pairs) > 0

    def kvc_isinstance(self, interp, cls):
        classes = cls if isinstance(cls, tuple) else (cls,)
        return any(getattr(c, '__name__', '') in ('dict', 'Mapping') for c in classes)

    def copy(self):
        d = AssocDict.__new__(AssocDict)
        d.pairs = list(self.pairs)
        return d


_INTERP = [None]


class FunDict:
    """dict modelled as two functions key -> present?, key -> value (functional updates).
    Used where the key set is unbounded (results of codegen loops)."""

    def __init__(self, present, val, keysort='key'):
        self.present, self.val = present, val

    def kvc_contains(self, interp, k):
        k = _askey(k)
        return mkbool(self.present(k.t))

    def kvc_getitem(self, interp, k):
        k = _askey(k)
        interp.ctx.safety('KeyError', self.present(k.t))
        return self.val(k.t)

    def kvc_setitem(self, interp, k, v):
        k = _askey(k)
        oldp, oldv, kt = self.present, self.val, k.t
        self.present = lambda q: z3.Or(q == kt, oldp(q))
        self.val = lambda q: _vmerge(q == kt, v, oldv(q))

    def kvc_isinstance(self, interp, cls):
        classes = cls if isinstance(cls, tuple) else (cls,)
        return any(getattr(c, '__name__', '') in ('dict', 'Mapping') for c in classes)

    def kvc_truth(self, interp):
        raise OutOfSubset('truth value of an unbounded dict model')

    def keys(self):
        return FunDictKeys(self)

    def items(self):
        raise OutOfSubset('items() of an unbounded dict model')


class FunDictKeys:
    def __init__(self, d):
        self.d = d

    def kvc_contains(self, interp, k):
        return self.d.kvc_contains(interp, k)


def _vmerge(cond, a, b):
    m = merge(cond, a, b)
    if m is None:
        raise OutOfSubset(f'cannot merge dict values {type(a).__name__}/{type(b).__name__}')
    return m


def _askey(k):
    if isinstance(k, SKey):
        return k
    if isinstance(k, int) and not isinstance(k, bool):
        return SKey.const(k)
    raise OutOfSubset(f'dict key {type(k).__name__} in a key-indexed dict model')


# ------------------------------------------------------------------ text
class Text:
    """Result of an f-string with parts that are neither native nor SMT strings (structured text)."""

    def __init__(self, parts):
        self.parts = parts

    def __repr__(self):
        return f'Text({self.parts!r})'


class HexStr:
    """hex(v) for a symbolic int; only `[2:]` of a single-digit value is modelled (a spelling character)."""

    def __init__(self, interp, v):
        self.v = v

    def kvc_getitem(self, interp, idx):
        if isinstance(idx, slice) and idx.start == 2 and idx.stop is None and idx.step is None:
            interp.ctx.safety('generator index is a single hex digit (0 <= v <= 15)',
                              z3.And(self.v.t >= 0, self.v.t <= 15))
            return SChar(z3.Extract(CB - 1, 0, self.v.t))
        raise OutOfSubset('hex() string use')


# ------------------------------------------------------------------ abstract mathstr values
class MathVal(Sym):
    """Abstract view of a `mathstr`: a non-empty list of signed monomials rendered as text.
    den    : denotation (z3 Real) of the text under the binding of its symbols
    single : z3 Bool, the text is a single signed monomial
    The four operators apply the *contracts* of mathstr.__add__/__sub__/__neg__/__mul__ (their
    preconditions become obligations at the call site); the methods themselves are verified against
    these contracts at string level in contracts/codegen_c.py."""
    __slots__ = ('den', 'single')

    def __init__(self, den, single):
        self.den = den
        self.single = z3.BoolVal(single) if isinstance(single, bool) else single

    def kvc_merge(self, cond, o):
        return MathVal(z3.If(cond, self.den, o.den), z3.If(cond, self.single, o.single))

    def kvc_binop(self, interp, op, other, reflected):
        if reflected or not isinstance(other, MathVal):
            raise OutOfSubset(f'mathstr {op} with {type(other).__name__}')
        ctx = interp.ctx
        if op == 'Mult':
            ctx.oblige('pre mathstr.__mul__: both operands are single signed monomials',
                       z3.And(self.single, other.single), 'pre')
            return MathVal(self.den * other.den, True)
        if op == 'Add':
            return MathVal(self.den + other.den, False)
        if op == 'Sub':
            ctx.oblige('pre mathstr.__sub__: right operand is a single signed monomial', other.single, 'pre')
            return MathVal(self.den - other.den, False)
        raise OutOfSubset(f'mathstr operator {op}')

    def kvc_neg(self, interp):
        interp.ctx.oblige('pre mathstr.__neg__: operand is a single signed monomial', self.single, 'pre')
        return MathVal(-self.den, True)

    def __bool__(self):
        return True     # a mathstr is never the empty string

    def kvc_isinstance(self, interp, cls):
        classes = cls if isinstance(cls, tuple) else (cls,)
        return any(c is str for c in classes)

    def __repr__(self):
        return f'MathVal({self.den}, single={self.single})'


# ------------------------------------------------------------------ algebra / multivector models
class SignsTable:
    """algebra.signs as two uninterpreted functions (zero?, negative?) over key pairs."""

    def __init__(self, name='signs'):
        bv = z3.BitVecSort(WB)
        self.zf = z3.Function(name + '_zero', bv, bv, z3.BoolSort())
        self.nf = z3.Function(name + '_neg', bv, bv, z3.BoolSort())

    def at(self, a, b):
        a, b = _askey(a), _askey(b)
        return SSign(self.zf(a.t, b.t), self.nf(a.t, b.t))

    def kvc_getitem(self, interp, idx):
        if not (isinstance(idx, tuple) and len(idx) == 2):
            raise OutOfSubset('signs[...] with a non-pair index')
        a, b = _askey(idx[0]), _askey(idx[1])
        N = interp.ctx.ghost.get('N')
        if N is not None:
            interp.ctx.safety('KeyError: signs[I, J] with I, J valid blade keys',
                              z3.And(a.t >= 0, a.t < N.t, b.t >= 0, b.t < N.t))
        return SSign(self.zf(a.t, b.t), self.nf(a.t, b.t))


    def kvc_getattr(self, interp, name):
        if name == 'get':
            # dict.get does not call __missing__: in algebras above six dimensions the table is filled lazily, so an entry that
            # was not read through signs[...] before is simply absent for .get (whether it is present is unknown here)
            table = self

            def get(pair, default=None):
                present = interp.ctx.decide(z3.Bool(interp.ctx.fresh('signs_entry_already_materialised')))
                return table.kvc_getitem(interp, pair) if present else default
            return get
        raise OutOfSubset(f'signs.{name} is not modelled')


class SymAlgebra:
    """Algebra as seen by the codegen functions: len(), signs, d.  N = len(algebra) = 2**d."""

    def __init__(self, ctx, name='alg'):
        self.N = SKey.fresh(name + '_N', 1, 1 << W)
        ctx.assume(self.N.range_constraint())
        ctx.assume(self.N.t & (self.N.t - 1) == 0)          # a power of two
        ctx.ghost['N'] = self.N
        self.signs = SignsTable()
        self.name = name

    def kvc_len(self):
        return self.N

    def kvc_getattr(self, interp, name):
        if name == 'signs':
            return self.signs
        raise OutOfSubset(f'algebra.{name} is not modelled in this contract')

    def valid_key(self, k):
        return z3.And(k.t >= 0, k.t < self.N.t)


class SymMV:
    """Fully symbolic multivector operand of a codegen function, in the indexed view
    (key(i), val(i)) for 0 <= i < n.  Values are fresh symbols, i.e. single positive monomials."""

    def __init__(self, ctx, name, algebra, valkind='mathstr'):
        self.name, self.algebra, self.valkind = name, algebra, valkind
        self.n = SInt(z3.Int(name + '_n'))
        ctx.assume(self.n.t >= 0)
        self.keyf = z3.Function(name + '_key', z3.IntSort(), z3.BitVecSort(WB))
        self.valf = z3.Function(name + '_val', z3.IntSort(), z3.RealSort())
        # keyed view: In(k) <=> blade k is stored, Coef(k) its coefficient (0 when absent: "a blade missing
        # from an operand counts as zero").  Linked to the indexed view at every index that is read
        # (consistent because the keys of a multivector are pairwise distinct -- precondition WF(mv)).
        self.inf = z3.Function(name + '_In', z3.BitVecSort(WB), z3.BoolSort())
        self.coef = z3.Function(name + '_Coef', z3.BitVecSort(WB), z3.RealSort())

    def key(self, i):
        i = sint(i)
        k = SKey(self.keyf(i.t), 0, (1 << W) - 1)
        current().assume(self.algebra.valid_key(k))       # precondition: keys are blade indices of the algebra
        current().assume(z3.And(self.inf(k.t), self.coef(k.t) == self.valf(i.t)))      # view link
        return k

    def absent_is_zero(self, kt):
        return z3.Implies(z3.Not(self.inf(kt)), self.coef(kt) == 0)

    def wrap(self, den):
        return MathVal(den, True) if self.valkind == 'mathstr' else SRing(den)

    def val(self, i):
        i = sint(i)
        if self.valkind == 'mathstr':
            return MathVal(self.valf(i.t), True)
        return SRing(self.valf(i.t))

    def items(self):
        return ItemsSeq(self)

    def keys(self):
        return SymSeq(None, self.n, self.key, 'tuple')

    def values(self):
        return SymSeq(None, self.n, self.val, 'list')

    def kvc_getattr(self, interp, name):
        if name == 'algebra':
            return self.algebra
        if name in ('items', 'keys', 'values'):
            return getattr(self, name)
        if name == 'type_number':
            # an int determined by the *set* of stored blades (which blades, not their order)
            return SInt(z3.Int(self.name + '_type_number'))
        raise OutOfSubset(f'multivector.{name} is not modelled in this contract')


class ItemsSeq(SymSeq):
    """mv.items(): zip(keys, values).  dict(mv.items()) is the keyed view of the multivector."""

    def __init__(self, mv):
        super().__init__(None, mv.n, lambda i: (mv.key(i), mv.val(i)), 'zip')
        self.mv = mv

    def kvc_todict(self, interp):
        mv = self.mv
        return FunDict(lambda q: mv.inf(q), lambda q: mv.wrap(mv.coef(q)))


class Spelling:
    """A blade spelling: a str-like sequence of a concrete number of characters, some of them symbolic (SChar)."""

    def __init__(self, chars):
        self.chars = list(chars)

    def __iter__(self):
        return iter(self.chars)

    def __len__(self):
        return len(self.chars)

    def __bool__(self):
        return len(self.chars) > 0

    def __getitem__(self, i):
        if isinstance(i, slice):
            return Spelling(self.chars[i])
        return self.chars[i]

    def kvc_isinstance(self, interp, cls):
        classes = cls if isinstance(cls, tuple) else (cls,)
        return any(c is str for c in classes)

    def __repr__(self):
        return f'Spelling({self.chars})'


def model_join(interp, sep, it):
    if hasattr(it, 'kvc_symbolic_seq'):
        return JoinText(sep, it)
    xs = list(interp.iterate(it))
    if all(isinstance(x, str) for x in xs):
        return sep.join(xs)
    if sep == '' and all(isinstance(x, (str, SChar)) for x in xs):
        return Spelling(xs)
    if all(isinstance(x, (str, SStr)) for x in xs):
        parts = []
        for i, x in enumerate(xs):
            if i:
                parts.append(sep)
            parts.append(x)
        from .engine import join_parts
        return join_parts(parts)
    return JoinText(sep, xs)


class JoinText:
    """sep.join(xs) with structured (non-string) parts."""

    def __init__(self, sep, xs):
        self.sep, self.xs = sep, xs

    def kvc_binop(self, interp, op, other, reflected):
        if op != 'Add':
            raise OutOfSubset('operator on structured text')
        return Text([other, self] if reflected else [self, other])


class NumText:
    """str() of a symbolic int inside structured text."""

    def __init__(self, v):
        self.v = v


class StarTuple:
    """(*a, x, *b, ..) where some starred operand has unknown length: kept as its parts [(starred?, value), ..]"""

    def __init__(self, parts):
        self.parts = parts

    def kvc_isinstance(self, interp, cls):
        classes = cls if isinstance(cls, tuple) else (cls,)
        return any(c is tuple for c in classes)

    def __repr__(self):
        return 'StarTuple(' + ', '.join(('*' if st else '') + repr(v) for st, v in self.parts) + ')'
