"""Opaque recording objects: used to verify *delegation* and *dispatch* code (which callee is called with which
arguments in which order, what is stored where), with callees abstracted by their contracts.

Rec('sym', name)            an opaque input
Rec('attr', base, name)     base.name
Rec('call', fn, args, kw)   result of fn(*args, **kw)  (also recorded as an event in the path context)
Rec('item', base, idx)      base[idx]
Two Recs are `same` iff they are structurally equal (inputs by identity of name)."""
from .values import OutOfSubset, current, Sym


class Rec:
    def __init__(self, kind, *parts, attrs=None, callable_result=None, isinstance_of=(), truth=None, iterable=None,
                 on_getitem=None, on_contains=None, on_eq=None):
        self.kind, self.parts = kind, parts
        self.attrs = dict(attrs or {})          # explicitly modelled attributes
        self.isinstance_of = tuple(isinstance_of)
        self.truth = truth
        self.callable_result = callable_result
        self.iterable = iterable
        self.stores = {}
        self.on_getitem, self.on_contains, self.on_eq = on_getitem, on_contains, on_eq

    # -- structure
    def key(self):
        def k(x):
            if isinstance(x, Rec):
                return x.key()
            if isinstance(x, (tuple, list)):
                return (type(x).__name__,) + tuple(k(y) for y in x)
            if isinstance(x, dict):
                return ('dict',) + tuple((kk, k(v)) for kk, v in sorted(x.items()))
            if isinstance(x, Sym):
                return ('sym-value', id(x))
            if isinstance(x, slice):
                return ('slice', k(x.start), k(x.stop), k(x.step))
            try:
                hash(x)
                return ('const', x)
            except TypeError:
                return ('obj', id(x))
        return (self.kind,) + tuple(k(p) for p in self.parts)

    def __repr__(self):
        if self.kind == 'sym':
            return f'<{self.parts[0]}>'
        if self.kind == 'attr':
            return f'{self.parts[0]!r}.{self.parts[1]}'
        if self.kind == 'call':
            a = ', '.join([repr(x) for x in self.parts[1]] + [f'{k}={v!r}' for k, v in self.parts[2].items()])
            return f'{self.parts[0]!r}({a})'
        if self.kind == 'item':
            return f'{self.parts[0]!r}[{self.parts[1]!r}]'
        return f'Rec{self.key()}'

    # -- engine protocol
    def kvc_getattr(self, interp, name):
        if name in self.attrs:
            return self.attrs[name]
        if name.startswith('kvc_') or name.startswith('__') and name not in ('__name__', '__class__', '__bool__'):
            raise AttributeError(name)
        res = getattr(self, 'method_resolver', None)
        if res is not None:
            m = res(interp, self, name)
            if m is not None:
                return m
        return Rec('attr', self, name)

    def kvc_hasattr(self, interp, name):
        return name in self.attrs

    def kvc_setattr(self, interp, name, v):
        interp.ctx.event('setattr', self, name, v)
        self.attrs[name] = v

    def kvc_call(self, interp, *args, **kw):
        interp.ctx.event('call', self, args, kw)
        if self.callable_result is not None:
            return self.callable_result(interp, self, args, kw)
        return Rec('call', self, tuple(args), dict(kw))

    def kvc_getitem(self, interp, idx):
        interp.ctx.event('getitem', self, idx)
        k = _k(idx)
        if k in self.stores:
            return self.stores[k]
        if self.on_getitem is not None:
            return self.on_getitem(interp, self, idx)
        return Rec('item', self, idx)

    def kvc_contains(self, interp, item):
        if self.on_contains is None:
            raise OutOfSubset(f'`in` on opaque {self!r}')
        return self.on_contains(interp, self, item)

    def kvc_instancecheck(self, interp, v):
        return isinstance(v, Rec) and self.parts[0] in v.isinstance_of

    def kvc_setitem(self, interp, idx, v):
        interp.ctx.event('setitem', self, idx, v)
        self.stores[_k(idx)] = v

    def kvc_isinstance(self, interp, cls):
        classes = cls if isinstance(cls, tuple) else (cls,)
        names = [c.parts[0] if isinstance(c, Rec) else getattr(c, '__name__', str(c)) for c in classes]
        return any(n in self.isinstance_of for n in names)

    def kvc_truth(self, interp):
        if self.truth is None:
            raise OutOfSubset(f'truth value of opaque {self!r}')
        return self.truth

    def kvc_iter(self, interp):
        if self.iterable is None:
            raise OutOfSubset(f'iteration over opaque {self!r}')
        return iter(self.iterable)

    def kvc_format(self, interp, spec):
        return repr(self)

    def kvc_str(self, interp):
        return repr(self)

    def kvc_binop(self, interp, op, other, reflected):
        l, r = (other, self) if reflected else (self, other)
        interp.ctx.event('binop', op, l, r)
        return Rec('binop', op, l, r)

    def kvc_neg(self, interp):
        interp.ctx.event('unop', 'USub', self)
        return Rec('unop', 'USub', self)

    def kvc_invert(self, interp):
        interp.ctx.event('unop', 'Invert', self)
        return Rec('unop', 'Invert', self)

    def kvc_eq(self, interp, other):
        if self.on_eq is not None:
            return self.on_eq(interp, self, other)
        if isinstance(other, Rec) and other.on_eq is not None:
            return other.on_eq(interp, other, self)
        if isinstance(other, Rec):
            return same(self, other)
        return False


def _k(idx):
    if isinstance(idx, Rec):
        return idx.key()
    if isinstance(idx, slice):
        return ('slice', _k(idx.start), _k(idx.stop), _k(idx.step))
    if isinstance(idx, tuple):
        return tuple(_k(x) for x in idx)
    return idx


def same(a, b):
    if isinstance(a, Rec) and isinstance(b, Rec):
        return a.key() == b.key()
    if isinstance(a, (tuple, list)) and isinstance(b, (tuple, list)):
        return type(a) is type(b) and len(a) == len(b) and all(same(x, y) for x, y in zip(a, b))
    if isinstance(a, Rec) or isinstance(b, Rec):
        return False
    if isinstance(a, slice) and isinstance(b, slice):
        return same(a.start, b.start) and same(a.stop, b.stop) and same(a.step, b.step)
    return a is b or (not isinstance(a, Sym) and not isinstance(b, Sym) and a == b)


def sym(name, **kw):
    return Rec('sym', name, **kw)
