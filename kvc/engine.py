"""kvc engine: path contexts, DFS path exploration by re-execution, and an interpreter for the
Python subset used by the kingdon functions under contract.

The interpreter walks the *real* AST (extracted from /repo on every run, see extract.py).
Expressions are evaluated with Python's own operators on the value classes of values.py, so a
concrete sub-expression is evaluated by CPython itself and a symbolic one becomes a z3 term.
Control flow on a symbolic condition forks the path (Ctx.decide); loops over sequences of
unknown length are cut at a loop contract (LoopSpec) supplied by the sidecar contract.
"""
import ast
import os
import operator
import itertools
import functools
import time
import z3

from .values import (Sym, SBool, SKey, SInt, SSign, SRing, SChar, SStr, OutOfSubset, KvcInternal,
                     set_current, current, mkbool, tobool, merge, is_sym)


# ---------------------------------------------------------------- engine control exceptions
class EngineSignal(BaseException):
    """Not catchable by `except Exception` in interpreted code."""


class PathEnd(EngineSignal):
    def __init__(self, why):
        self.why = why


class PathInfeasible(EngineSignal):
    pass


class _Return(EngineSignal):
    def __init__(self, value):
        self.value = value


class _Break(EngineSignal):
    pass


class _Continue(EngineSignal):
    pass


class Obligation:
    __slots__ = ('name', 'pc', 'goal', 'kind', 'meta', 'path')

    def __init__(self, name, pc, goal, kind, meta=None, path=None):
        self.name, self.pc, self.goal, self.kind, self.meta, self.path = name, pc, goal, kind, meta or {}, path

    def smt2(self):
        s = z3.Solver()
        for a in self.pc:
            s.add(a)
        s.add(z3.Not(self.goal))
        return s.to_smt2()


class Ctx:
    """One execution path."""
    FEAS_TIMEOUT_MS = 3000

    def __init__(self, decisions=()):
        self.decisions = list(decisions)
        self.choices = []          # every decision taken on this path (bool or int)
        self.alts = []             # (index, alternative) still to explore
        self.pc = []
        self.pcset = set()
        self.obligations = []
        self.counters = {}
        self.events = []           # ghost event trace (calls to abstracted functions, heap writes)
        self.ghost = {}
        self.solver_calls = 0
        self.notes = []

    # -- naming
    def fresh(self, base):
        n = self.counters.get(base, 0)
        self.counters[base] = n + 1
        return f'{base}!{n}'

    # -- path condition
    def assume(self, t):
        if isinstance(t, bool):
            if not t:
                raise PathInfeasible()
            return
        if isinstance(t, SBool):
            t = t.t
        t = z3.simplify(t)
        if z3.is_true(t):
            return
        if z3.is_false(t):
            raise PathInfeasible()
        self.pc.append(t)
        self.pcset.add(t.get_id())

    def truncate_pc(self, n):
        """Drop the path-condition entries added since position n (speculative evaluation).  The id set used by `decide` to
        recognise facts already on the path is rebuilt: ids of dropped (and possibly freed, hence reusable) terms must not stay."""
        del self.pc[n:]
        self.pcset = {t.get_id() for t in self.pc}

    def _check(self, extra):
        self.solver_calls += 1
        s = z3.Solver()
        s.set('timeout', self.FEAS_TIMEOUT_MS)
        s.add(*self.pc)
        s.add(extra)
        return s.check()

    def decide(self, t):
        t = z3.simplify(t)
        if z3.is_true(t):
            return True
        if z3.is_false(t):
            return False
        nt = z3.simplify(z3.Not(t))
        if t.get_id() in self.pcset:
            return True
        if nt.get_id() in self.pcset:
            return False
        i = len(self.choices)
        if i < len(self.decisions):
            c = self.decisions[i]
            self.choices.append(c)
            self.assume(t if c else nt)
            return c
        can_t = self._check(t) != z3.unsat
        can_f = self._check(nt) != z3.unsat
        if not can_t and not can_f:
            raise PathInfeasible()
        if can_t and can_f:
            self.alts.append((i, False))
            c = True
        else:
            c = can_t
        self.choices.append(c)
        self.assume(t if c else nt)
        return c

    def choose(self, n, label=''):
        """Non-deterministic n-way choice (used for loop cut points)."""
        i = len(self.choices)
        if i < len(self.decisions):
            c = self.decisions[i]
        else:
            c = 0
            for k in range(1, n):
                self.alts.append((i, k))
        self.choices.append(c)
        return c

    # -- obligations
    def oblige(self, name, goal, kind='post', meta=None):
        if isinstance(goal, SBool):
            goal = goal.t
        if isinstance(goal, bool):
            goal = z3.BoolVal(goal)
        self.obligations.append(Obligation(name, list(self.pc), goal, kind, meta, tuple(self.choices)))

    def safety(self, name, cond):
        """Implicit exception of the real code that the contract does not allow."""
        if isinstance(cond, SBool):
            cond = cond.t
        if isinstance(cond, bool):
            if cond:
                return
            cond = z3.BoolVal(False)
        cond = z3.simplify(cond)
        if z3.is_true(cond):
            return
        self.oblige('safety: ' + name, cond, 'safety')
        self.assume(cond)

    def event(self, *ev):
        self.events.append(ev)


class PathResult:
    def __init__(self, ctx, outcome, value):
        self.ctx, self.outcome, self.value = ctx, outcome, value


def explore(run, max_paths=20000, max_seconds=None):
    """Run `run(ctx)` once per feasible path.  `run` returns a value, raises a Python exception
    (exceptional exit of the real code) or an engine signal.  A budget on the wall clock of one exploration keeps a body the
    models cannot follow cheaply from stalling the whole check: beyond it the function is out-of-subset (undecided)."""
    import time as _time
    if max_seconds is None:
        max_seconds = float(os.environ.get('KVC_EXPLORE_SECONDS', '240'))
    t_begin = _time.time()
    stack = [[]]
    results = []
    while stack:
        if _time.time() - t_begin > max_seconds:
            raise OutOfSubset(f'path exploration exceeded {int(max_seconds)} s ({len(results)} paths so far)')
        dec = stack.pop()
        ctx = Ctx(dec)
        set_current(ctx)
        try:
            try:
                v = run(ctx)
                res = PathResult(ctx, 'return', v)
            except PathEnd as e:
                res = PathResult(ctx, 'cut', e.why)
            except PathInfeasible:
                res = PathResult(ctx, 'infeasible', None)
            except OutOfSubset as e:
                # this path leaves the modelled subset: it is undecided, the obligations it recorded before that point stay
                # (they are claims about the prefix), and the other paths are still explored
                res = PathResult(ctx, 'oos', e)
            except KvcInternal:
                raise
            except EngineSignal as e:
                raise KvcInternal(f'stray engine signal {e!r}')
            except Exception as e:          # exceptional exit of the interpreted code
                res = PathResult(ctx, 'raise', e)
        finally:
            set_current(None)
        for i, alt in ctx.alts:
            stack.append(ctx.choices[:i] + [alt])
        results.append(res)
        if len(results) > max_paths:
            raise OutOfSubset(f'more than {max_paths} paths')
    return results


# ---------------------------------------------------------------- interpreter values
class Env:
    __slots__ = ('vars', 'parent')

    def __init__(self, vars=None, parent=None):
        self.vars = {} if vars is None else vars
        self.parent = parent

    def lookup(self, name):
        e = self
        root = self
        while e is not None:
            if name in e.vars:
                return e.vars[name]
            root = e
            e = e.parent
        fb = root.vars.get('__fallback__')
        if fb is not None:
            v = fb(name, root)
            if v is not NotImplemented:
                root.vars[name] = v
                return v
        raise OutOfSubset(f'unmodelled global name {name!r}')

    def has(self, name):
        e = self
        while e is not None:
            if name in e.vars:
                return True
            e = e.parent
        return False


class GenList:
    """Eagerly evaluated generator (generator function call or generator expression).  Sound for the code under contract
    because its generator bodies have no side effects that interleave with their consumers (stated assumption)."""

    def __init__(self, items):
        self.items = list(items)
        self.pos = 0            # next(g) consumes from here; a plain `for` / list(g) sees the remaining items

    def __iter__(self):
        return self

    def __next__(self):
        if self.pos >= len(self.items):
            raise StopIteration
        self.pos += 1
        return self.items[self.pos - 1]

    def kvc_isinstance(self, interp, cls):
        import types
        classes = cls if isinstance(cls, tuple) else (cls,)
        return any(c is types.GeneratorType or getattr(c, '__name__', '') in ('GeneratorType', 'Iterable', 'Iterator') for c in classes)

    def __repr__(self):
        return f'GenList({self.items!r})'


def _has_yield(node):
    for n in ast.walk(node):
        if isinstance(n, (ast.Yield, ast.YieldFrom)):
            return True
    return False


class Closure:
    """A function (def or lambda) of the code under verification, closed over its environment."""

    def __init__(self, interp, node, env, qualname):
        self.interp, self.node, self.env, self.qualname = interp, node, env, qualname
        self.__name__ = getattr(node, 'name', '<lambda>')
        # Python's code object facts used by kingdon (`func.__code__.co_argcount`)
        a = node.args
        self.__code__ = type('Code', (), {'co_argcount': len(a.posonlyargs) + len(a.args)})()

    def __call__(self, *args, **kwargs):
        return self.interp.call_closure(self, args, kwargs)

    def __repr__(self):
        return f'<Closure {self.qualname}>'


class LoopSpec:
    """Loop contract.  Subclass / instantiate with callables.

    establish(interp, env, it)      -> None; records obligations that the invariant holds on entry
    havoc(interp, env, it, n, at_exit) -> replaces the loop-modified variables in env by fresh
                                       symbolic state assumed to satisfy the invariant after n
                                       iterations (n is an SInt; at exit n == len(it))
    preserve(interp, env, it, n)    -> records obligations that the invariant holds after n+1
    element(it, n)                  -> the n-th element (defaults to it.get(n))
    """

    def __init__(self, establish, havoc, preserve, element=None, header=None):
        self.establish, self.havoc, self.preserve = establish, havoc, preserve
        self._element = element
        self.header = header

    def element(self, it, n):
        if self._element:
            return self._element(it, n)
        return it.get(n)



_MUTATORS = {'append', 'remove', 'extend', 'pop', 'insert', 'add', 'update', 'clear', 'setdefault', 'sort', 'reverse', 'discard', 'popitem'}


def loop_signature(node):
    """Names a loop carries from one iteration to the next, and the names its header binds: what a loop contract is written over.
    carried = augmented-assignment targets, receivers of mutating calls (x.append ..), bases of subscript / attribute stores,
    and names that one iteration reads (guard included) before it assigns them, while it does assign them."""
    targets = sorted({n.id for n in ast.walk(node.target) if isinstance(n, ast.Name)}) if isinstance(node, ast.For) else []
    carried = set()
    events = []          # (name, 'load' | 'store') in evaluation order

    def ev(n):
        if isinstance(n, ast.Name):
            events.append((n.id, 'store' if isinstance(n.ctx, (ast.Store, ast.Del)) else 'load'))
            return
        if isinstance(n, ast.Lambda) or isinstance(n, (ast.FunctionDef, ast.AsyncFunctionDef)):
            for d in ast.walk(n):
                if isinstance(d, ast.Name) and isinstance(d.ctx, ast.Load):
                    events.append((d.id, 'load'))
            return
        if isinstance(n, (ast.Assign, ast.AnnAssign)):
            if n.value is not None:
                ev(n.value)
            for t in (n.targets if isinstance(n, ast.Assign) else [n.target]):
                ev(t)
            return
        if isinstance(n, ast.AugAssign):
            for t in ast.walk(n.target):
                if isinstance(t, ast.Name):
                    carried.add(t.id)
                    break
            ev(n.value)
            return
        if isinstance(n, ast.NamedExpr):
            ev(n.value)
            ev(n.target)
            return
        if isinstance(n, ast.Call) and isinstance(n.func, ast.Attribute) and n.func.attr in _MUTATORS and isinstance(n.func.value, ast.Name):
            carried.add(n.func.value.id)
        if isinstance(n, (ast.Subscript, ast.Attribute)) and isinstance(n.ctx, ast.Store):
            b = n.value
            while isinstance(b, (ast.Subscript, ast.Attribute)):
                b = b.value
            if isinstance(b, ast.Name):
                carried.add(b.id)
        if isinstance(n, ast.For):
            ev(n.iter)
            ev(n.target)
            for st in n.body + n.orelse:
                ev(st)
            return
        for ch in ast.iter_child_nodes(n):
            ev(ch)
    if isinstance(node, ast.While):
        ev(node.test)
    for st in node.body:
        ev(st)
    stored, seen_load_first = set(), set()
    for name, kind in events:
        if kind == 'load' and name not in stored:
            seen_load_first.add(name)
        elif kind == 'store':
            stored.add(name)
    carried |= {n for n in stored if n in seen_load_first}
    return {'targets': targets, 'carried': sorted(carried - set(targets))}


def _load_loop_baseline():
    import json
    import os
    try:
        return json.load(open(os.path.join(os.path.dirname(os.path.dirname(os.path.abspath(__file__))), 'contracts', 'baseline_loops.json')))['loops']
    except Exception:
        return {}


_LOOP_BASELINE = _load_loop_baseline()


_BINOPS = {
    ast.Add: operator.add, ast.Sub: operator.sub, ast.Mult: operator.mul, ast.Div: operator.truediv,
    ast.FloorDiv: operator.floordiv, ast.Mod: operator.mod, ast.Pow: operator.pow,
    ast.LShift: operator.lshift, ast.RShift: operator.rshift, ast.BitOr: operator.or_,
    ast.BitXor: operator.xor, ast.BitAnd: operator.and_, ast.MatMult: operator.matmul,
}
_CMPOPS = {
    ast.Eq: operator.eq, ast.NotEq: operator.ne, ast.Lt: operator.lt, ast.LtE: operator.le,
    ast.Gt: operator.gt, ast.GtE: operator.ge,
}


class Interp:
    def __init__(self, ctx, loop_specs=None, source_name='?', call_hook=None):
        self.ctx = ctx
        self.loop_specs = loop_specs or {}
        self.loop_counter = {}
        self.source_name = source_name
        self.call_hook = call_hook
        self.depth = 0
        self.modules = {}          # models of modules importable *inside* a function body (import numpy as np)

    # ------------------------------------------------------------ truthiness
    def truth(self, v):
        if isinstance(v, bool):
            return v
        if isinstance(v, SBool):
            return self.ctx.decide(v.t)
        if hasattr(v, 'kvc_truth'):
            return self.truth(v.kvc_truth(self))
        return bool(v)      # Sym classes decide through __bool__, natives natively

    def symtruth(self, v):
        """Truth value as Python bool or SBool without forking (None if that is impossible)."""
        if isinstance(v, (bool, SBool)):
            return v
        if isinstance(v, SKey):
            return mkbool(v.t != 0)
        if isinstance(v, SInt):
            return mkbool(v.t != 0)
        if isinstance(v, SSign):
            return mkbool(z3.Not(v.z))
        if isinstance(v, SRing):
            raise OutOfSubset('control flow depends on a coefficient value')
        if hasattr(v, 'kvc_truth'):
            return self.symtruth(v.kvc_truth(self))
        if isinstance(v, Sym):
            return None
        return bool(v)

    # ------------------------------------------------------------ functions
    def make_closure(self, node, env, qual):
        return Closure(self, node, env, qual)

    def call_closure(self, clo, args, kwargs):
        node = clo.node
        a = node.args
        env = Env(parent=clo.env)
        params = [p.arg for p in a.posonlyargs + a.args]
        args = list(args)
        kwargs = dict(kwargs)
        ndefaults = len(a.defaults)
        defaults_for = params[len(params) - ndefaults:] if ndefaults else []
        for i, p in enumerate(params):
            if i < len(args):
                env.vars[p] = args[i]
            elif p in kwargs:
                env.vars[p] = kwargs.pop(p)
            elif p in defaults_for:
                env.vars[p] = self.eval(a.defaults[defaults_for.index(p)], clo.env)
            else:
                raise TypeError(f'{clo.qualname}() missing argument {p!r}')
        if len(args) > len(params):
            if a.vararg:
                env.vars[a.vararg.arg] = tuple(args[len(params):])
            else:
                raise TypeError(f'{clo.qualname}() takes {len(params)} positional arguments')
        elif a.vararg:
            env.vars[a.vararg.arg] = ()
        for p, d in zip(a.kwonlyargs, a.kw_defaults):
            if p.arg in kwargs:
                env.vars[p.arg] = kwargs.pop(p.arg)
            elif d is not None:
                env.vars[p.arg] = self.eval(d, clo.env)
            else:
                raise TypeError(f'{clo.qualname}() missing keyword argument {p.arg!r}')
        if a.kwarg:
            env.vars[a.kwarg.arg] = kwargs
        elif kwargs:
            raise TypeError(f'{clo.qualname}() got unexpected keyword arguments {sorted(kwargs)}')
        self.depth += 1
        if self.depth > 60:
            raise OutOfSubset('call depth')
        try:
            if isinstance(node, ast.Lambda):
                return self.eval(node.body, env)
            is_gen = getattr(node, 'kvc_is_gen', None)
            if is_gen is None:
                is_gen = node.kvc_is_gen = any(_has_yield(st) for st in node.body if not isinstance(st, (ast.FunctionDef, ast.Lambda)))
            if is_gen:
                env.vars['__yields__'] = []
            try:
                self.exec_block(node.body, env, clo.qualname)
            except _Return as r:
                if is_gen:
                    return GenList(env.vars['__yields__'])
                return r.value
            if is_gen:
                return GenList(env.vars['__yields__'])
            return None
        finally:
            self.depth -= 1

    # ------------------------------------------------------------ statements
    def exec_block(self, stmts, env, qual):
        for s in stmts:
            self.exec_stmt(s, env, qual)

    def exec_stmt(self, s, env, qual):
        m = getattr(self, 'st_' + type(s).__name__, None)
        if m is None:
            raise OutOfSubset(f'{self.source_name}:{getattr(s, "lineno", "?")}: statement {type(s).__name__}')
        m(s, env, qual)

    def st_Expr(self, s, env, qual):
        if isinstance(s.value, ast.Constant) and isinstance(s.value.value, str):
            return      # docstring
        self.eval(s.value, env)

    def st_Pass(self, s, env, qual):
        pass

    def st_Import(self, s, env, qual):
        for a in s.names:
            if a.name not in self.modules:
                raise OutOfSubset(f'{self.source_name}:{s.lineno}: import {a.name} inside a function body (no model)')
            env.vars[a.asname or a.name.split('.')[0]] = self.modules[a.name]

    def st_ImportFrom(self, s, env, qual):
        if s.module not in self.modules:
            raise OutOfSubset(f'{self.source_name}:{s.lineno}: from {s.module} import .. inside a function body (no model)')
        for a in s.names:
            env.vars[a.asname or a.name] = self.getattr(self.modules[s.module], a.name)

    def st_Return(self, s, env, qual):
        raise _Return(self.eval(s.value, env) if s.value is not None else None)

    def st_FunctionDef(self, s, env, qual):
        if s.decorator_list:
            raise OutOfSubset(f'decorated nested function {s.name}')
        env.vars[s.name] = self.make_closure(s, env, f'{qual}.{s.name}')

    def st_Assign(self, s, env, qual):
        v = self.eval(s.value, env)
        for t in s.targets:
            self.assign(t, v, env)

    def st_AnnAssign(self, s, env, qual):
        if s.value is not None:
            self.assign(s.target, self.eval(s.value, env), env)

    def st_AugAssign(self, s, env, qual):
        op = _BINOPS[type(s.op)]
        t = s.target
        if isinstance(t, ast.Name):
            cur = env.lookup(t.id)
            self.assign(t, self.binop(s.op, cur, self.eval(s.value, env)), env)
        elif isinstance(t, ast.Subscript):
            obj = self.eval(t.value, env)
            idx = self.eval_index(t.slice, env)
            cur = self.getitem(obj, idx)
            new = self.binop(s.op, cur, self.eval(s.value, env))
            self.setitem(obj, idx, new)
        elif isinstance(t, ast.Attribute):
            obj = self.eval(t.value, env)
            cur = self.getattr(obj, t.attr)
            self.setattr(obj, t.attr, self.binop(s.op, cur, self.eval(s.value, env)))
        else:
            raise OutOfSubset('augmented assignment target')

    def st_If(self, s, env, qual):
        if self.truth(self.eval(s.test, env)):
            self.exec_block(s.body, env, qual)
        else:
            self.exec_block(s.orelse, env, qual)

    def st_Match(self, s, env, qual):
        """match statement with literal / wildcard / capture / or-patterns and guards (what if-elif chains on constants turn into)"""
        subj = self.eval(s.subject, env)

        def matches(pat):
            if isinstance(pat, ast.MatchValue):
                return self.cmp_eq(subj, self.eval(pat.value, env))
            if isinstance(pat, ast.MatchSingleton):
                return subj is pat.value
            if isinstance(pat, ast.MatchAs):
                if pat.pattern is not None:
                    r = matches(pat.pattern)
                    if self.truth(r) and pat.name:
                        env.vars[pat.name] = subj
                        return True
                    return r
                if pat.name:
                    env.vars[pat.name] = subj
                return True
            if isinstance(pat, ast.MatchOr):
                r = False
                for sub in pat.patterns:
                    r = self.or_(r, matches(sub))
                return r
            raise OutOfSubset(f'{self.source_name}:{s.lineno}: match pattern {type(pat).__name__}')
        for case in s.cases:
            if not self.truth(matches(case.pattern)):
                continue
            if case.guard is not None and not self.truth(self.eval(case.guard, env)):
                continue
            self.exec_block(case.body, env, qual)
            return

    def st_Raise(self, s, env, qual):
        if s.exc is None:
            raise OutOfSubset('bare raise')
        e = self.eval(s.exc, env)
        if isinstance(e, type) and issubclass(e, BaseException):
            e = e()
        if not isinstance(e, BaseException):
            raise OutOfSubset('raise of a non-exception value')
        raise e

    def st_Assert(self, s, env, qual):
        if not self.truth(self.eval(s.test, env)):
            raise AssertionError()

    def st_Continue(self, s, env, qual):
        raise _Continue()

    def st_Break(self, s, env, qual):
        raise _Break()

    def st_Try(self, s, env, qual):
        if s.finalbody:
            raise OutOfSubset('try/finally')
        try:
            self.exec_block(s.body, env, qual)
        except EngineSignal:
            raise
        except (OutOfSubset, KvcInternal):
            raise
        except Exception as e:
            for h in s.handlers:
                if h.type is None:
                    match = True
                else:
                    ty = self.eval(h.type, env)
                    match = isinstance(e, ty)
                if match:
                    if h.name:
                        env.vars[h.name] = e
                    self.exec_block(h.body, env, qual)
                    return
            raise
        else:
            self.exec_block(s.orelse, env, qual)

    def _loop_key(self, qual, kind):
        k = self.loop_counter.get(qual, 0)
        self.loop_counter[qual] = k + 1
        return (qual, k)

    def st_For(self, s, env, qual):
        if s.orelse:
            raise OutOfSubset('for/else')
        key = (qual, self._loop_ordinal(s))
        it = self.eval(s.iter, env)
        spec = self.loop_specs.get(key)
        if spec is None:
            if hasattr(it, 'kvc_symbolic_seq'):
                raise OutOfSubset(f'{self.source_name}:{s.lineno}: loop over a sequence of unknown length '
                                  f'has no loop contract ({key})')
            for v in self.iterate(it):
                self.assign(s.target, v, env)
                try:
                    self.exec_block(s.body, env, qual)
                except _Continue:
                    continue
                except _Break:
                    break
            return
        # --- cut-point treatment
        self._check_loop_shape(s, key)
        if spec.header is not None and spec.header != ast.unparse(s.target) + ' in ' + ast.unparse(s.iter):
            raise OutOfSubset(f'{self.source_name}:{s.lineno}: loop header changed; loop contract {key} '
                              f'was written for `{spec.header}`')
        spec.establish(self, env, it)
        mode = getattr(spec, 'mode', None)
        which = {'step': 0, 'exit': 1}[mode] if mode else self.ctx.choose(2, f'loop{key}')
        if which == 0:
            n = SInt(z3.Int(self.ctx.fresh('n')))
            ln = seq_len(it)
            self.ctx.assume(z3.And(n.t >= 0, (n < ln).t if isinstance(n < ln, SBool) else z3.BoolVal(bool(n < ln))))
            spec.havoc(self, env, it, n, False)
            self.assign(s.target, spec.element(it, n), env)
            try:
                self.exec_block(s.body, env, qual)
            except _Continue:
                pass
            except _Break:
                raise OutOfSubset('break inside a loop with a loop contract')
            spec.preserve(self, env, it, n)
            raise PathEnd(f'loop{key}: invariant preserved')
        else:
            ln = seq_len(it)
            n = ln if isinstance(ln, SInt) else SInt(z3.IntVal(ln))
            spec.havoc(self, env, it, n, True)

    def _check_loop_shape(self, node, key):
        """A loop contract is written over the variables the loop carries.  If the loop of the current source carries other
        variables than the loop the contract was written for (a renamed accumulator, an extra one), the contract does not apply:
        undecided, never a refutation."""
        base = _LOOP_BASELINE.get(self.source_name, {}).get(f'{key[0]}#{key[1]}')
        if not base:
            return
        sig = loop_signature(node)
        if not any(sig == b for b in base):
            raise OutOfSubset(f'{self.source_name}:{node.lineno}: loop {key} carries {sig["carried"]} (binds {sig["targets"]}); its contract was '
                              f'written for a loop carrying {base[0]["carried"]} (binding {base[0]["targets"]})')

    def _loop_ordinal(self, node):
        return getattr(node, 'kvc_ordinal', None)

    def st_While(self, s, env, qual):
        if s.orelse:
            raise OutOfSubset('while/else')
        key = (qual, self._loop_ordinal(s))
        spec = self.loop_specs.get(key)
        if spec is not None:
            # cut point: (establish) then either one arbitrary iteration from a havoced invariant state, or the exit state
            self._check_loop_shape(s, key)
            if spec.header is not None and spec.header != ast.unparse(s.test):
                raise OutOfSubset(f'{self.source_name}:{s.lineno}: loop guard changed; loop contract {key} was written for `{spec.header}`')
            spec.establish(self, env, None)
            mode = getattr(spec, 'mode', None)
            which = {'step': 0, 'exit': 1}[mode] if mode else self.ctx.choose(2, f'loop{key}')
            n = SInt(z3.Int(self.ctx.fresh('n')))
            self.ctx.assume(n.t >= 0)
            spec.havoc(self, env, None, n, which == 1)
            t = self.symtruth(self.eval(s.test, env))
            if t is None:
                raise OutOfSubset('while guard has no symbolic truth value')
            if which == 0:
                self.ctx.assume(t)
                try:
                    self.exec_block(s.body, env, qual)
                except _Continue:
                    pass
                except _Break:
                    raise OutOfSubset('break inside a while loop with a loop contract')
                spec.preserve(self, env, None, n)
                raise PathEnd(f'loop{key}: invariant preserved')
            self.ctx.assume(self.not_(t))
            return
        guard = 0
        symbolic_rounds = 0
        while True:
            tv = self.eval(s.test, env)
            st_ = self.symtruth(tv)
            if isinstance(st_, SBool) and not (z3.is_true(z3.simplify(st_.t)) or z3.is_false(z3.simplify(st_.t))):
                # a guard that depends on symbolic data forks on every round: without a loop contract this does not end
                symbolic_rounds += 1
                if symbolic_rounds > 6:
                    raise OutOfSubset(f'{self.source_name}:{s.lineno}: while loop with a data-dependent guard has no loop contract ({key})')
            if not self.truth(tv):
                break
            guard += 1
            if guard > 4096:
                raise OutOfSubset('while loop does not terminate concretely (needs a loop contract)')
            try:
                self.exec_block(s.body, env, qual)
            except _Continue:
                continue
            except _Break:
                break

    # ------------------------------------------------------------ assignment helpers
    def assign(self, target, v, env):
        if isinstance(target, ast.Name):
            env.vars[target.id] = v
        elif isinstance(target, (ast.Tuple, ast.List)):
            vals = list(self.iterate(v))
            star = [i for i, e in enumerate(target.elts) if isinstance(e, ast.Starred)]
            if star:
                i = star[0]
                after = len(target.elts) - i - 1
                if len(vals) < len(target.elts) - 1:
                    raise ValueError('not enough values to unpack')
                for e, x in zip(target.elts[:i], vals[:i]):
                    self.assign(e, x, env)
                self.assign(target.elts[i].value, vals[i:len(vals) - after], env)
                for e, x in zip(target.elts[i + 1:], vals[len(vals) - after:]):
                    self.assign(e, x, env)
            else:
                if len(vals) != len(target.elts):
                    raise ValueError('wrong number of values to unpack')
                for e, x in zip(target.elts, vals):
                    self.assign(e, x, env)
        elif isinstance(target, ast.Subscript):
            obj = self.eval(target.value, env)
            self.setitem(obj, self.eval_index(target.slice, env), v)
        elif isinstance(target, ast.Attribute):
            self.setattr(self.eval(target.value, env), target.attr, v)
        else:
            raise OutOfSubset(f'assignment target {type(target).__name__}')

    def iterate(self, it):
        if hasattr(it, 'kvc_symbolic_seq'):
            raise OutOfSubset('iteration over a sequence of unknown length outside a modelled construct')
        if hasattr(it, 'kvc_iter'):
            return it.kvc_iter(self)
        return iter(it)

    def getattr(self, obj, name):
        if hasattr(obj, 'kvc_getattr'):
            return obj.kvc_getattr(self, name)
        return getattr(obj, name)

    def setattr(self, obj, name, v):
        if hasattr(obj, 'kvc_setattr'):
            return obj.kvc_setattr(self, name, v)
        raise OutOfSubset(f'attribute store .{name} on {type(obj).__name__} (frame)')

    def getitem(self, obj, idx):
        if hasattr(obj, 'kvc_getitem'):
            return obj.kvc_getitem(self, idx)
        if isinstance(obj, (list, tuple, str)) and isinstance(idx, Sym):
            raise OutOfSubset('symbolic index into a native sequence')
        if isinstance(obj, dict) and is_sym(idx):
            return native_dict_get(self, obj, idx)
        if isinstance(obj, dict) and isinstance(idx, tuple) and any(is_sym(x) for x in idx):
            return native_dict_get(self, obj, idx)
        return obj[idx]

    def setitem(self, obj, idx, v):
        if hasattr(obj, 'kvc_setitem'):
            return obj.kvc_setitem(self, idx, v)
        if isinstance(obj, dict) and (is_sym(idx) or isinstance(idx, tuple) and any(is_sym(x) for x in idx)):
            raise OutOfSubset('symbolic key stored into a native dict (needs a dict model)')
        if isinstance(idx, Sym):
            raise OutOfSubset('symbolic index store into a native sequence')
        obj[idx] = v

    def contains(self, item, container):
        if hasattr(container, 'kvc_contains'):
            return container.kvc_contains(self, item)
        if isinstance(container, dict):
            if is_sym(item) or isinstance(item, tuple) and any(is_sym(x) for x in item):
                r = False
                for k in container:
                    r = self.or_(r, self.eq(k, item))
                return r
            return item in container
        if isinstance(container, (list, tuple, set, frozenset, range)) or hasattr(container, '__iter__') and not isinstance(container, str):
            if isinstance(container, (set, frozenset)) and is_sym(item):
                container = list(container)
            if is_sym(item) or any(is_sym(x) for x in (container if not isinstance(container, range) else ())):
                r = False
                for k in container:
                    r = self.or_(r, self.eq(k, item))
                return r
            return item in container
        if isinstance(container, str) and isinstance(item, str):
            return item in container
        raise OutOfSubset(f'`in` on {type(container).__name__}')

    def eq(self, a, b):
        if isinstance(a, tuple) and isinstance(b, tuple):
            if len(a) != len(b):
                return False
            r = True
            for x, y in zip(a, b):
                r = self.and_(r, self.eq(x, y))
            return r
        r = a == b
        if r is NotImplemented:
            return False
        return r

    def and_(self, a, b):
        if a is True:
            return b
        if b is True:
            return a
        if a is False or b is False:
            return False
        return mkbool(z3.And(tobool(a), tobool(b)))

    def or_(self, a, b):
        if a is False:
            return b
        if b is False:
            return a
        if a is True or b is True:
            return True
        return mkbool(z3.Or(tobool(a), tobool(b)))

    def not_(self, a):
        if isinstance(a, bool):
            return not a
        return mkbool(z3.Not(tobool(a)))

    def binop(self, op, l, r):
        f = _BINOPS[type(op)]
        if hasattr(l, 'kvc_binop'):
            res = l.kvc_binop(self, type(op).__name__, r, False)
            if res is not NotImplemented:
                return res
        if hasattr(r, 'kvc_binop'):
            res = r.kvc_binop(self, type(op).__name__, l, True)
            if res is not NotImplemented:
                return res
        return f(l, r)

    # ------------------------------------------------------------ expressions
    def eval(self, e, env):
        m = getattr(self, 'ex_' + type(e).__name__, None)
        if m is None:
            raise OutOfSubset(f'{self.source_name}:{getattr(e, "lineno", "?")}: expression {type(e).__name__}')
        return m(e, env)

    def ex_Constant(self, e, env):
        return e.value

    def _yield_target(self, env):
        en = env
        while en is not None:
            if '__yields__' in en.vars:
                return en.vars['__yields__']
            en = en.parent
        raise OutOfSubset('yield outside a generator function')

    def ex_Yield(self, e, env):
        self._yield_target(env).append(self.eval(e.value, env) if e.value is not None else None)
        return None

    def ex_YieldFrom(self, e, env):
        self._yield_target(env).extend(self.iterate(self.eval(e.value, env)))
        return None

    def ex_Name(self, e, env):
        return env.lookup(e.id)

    def ex_NamedExpr(self, e, env):
        v = self.eval(e.value, env)
        # PEP 572: binds in the enclosing function scope, also from inside a comprehension
        tgt = env
        while getattr(tgt, 'vars', None) is not None and tgt.vars.get('__comprehension__'):
            tgt = tgt.parent
        tgt.vars[e.target.id] = v
        return v

    def ex_Tuple(self, e, env):
        if any(isinstance(x, ast.Starred) for x in e.elts):
            # (*seq, a, b) with seq of unknown length: a structured value (models.StarTuple) the contract inspects
            vals = [(isinstance(x, ast.Starred), self.eval(x.value if isinstance(x, ast.Starred) else x, env)) for x in e.elts]
            if any(st and hasattr(v, 'kvc_symbolic_seq') for st, v in vals):
                from .models import StarTuple
                return StarTuple(vals)
            out = []
            for st, v in vals:
                if st:
                    out.extend(self.iterate(v))
                else:
                    out.append(v)
            return tuple(out)
        return tuple(self._elts(e.elts, env))

    def ex_List(self, e, env):
        return list(self._elts(e.elts, env))

    def ex_Set(self, e, env):
        vals = self._elts(e.elts, env)
        if any(is_sym(v) for v in vals):
            raise OutOfSubset('set display with symbolic elements')
        return set(vals)

    def _elts(self, elts, env):
        out = []
        for x in elts:
            if isinstance(x, ast.Starred):
                out.extend(self.iterate(self.eval(x.value, env)))
            else:
                out.append(self.eval(x, env))
        return out

    def ex_Dict(self, e, env):
        d = {}
        for k, v in zip(e.keys, e.values):
            if k is None:
                d.update(self.eval(v, env))
            else:
                kk = self.eval(k, env)
                if is_sym(kk):
                    raise OutOfSubset('dict display with symbolic key')
                d[kk] = self.eval(v, env)
        return d

    def ex_BinOp(self, e, env):
        return self.binop(e.op, self.eval(e.left, env), self.eval(e.right, env))

    def ex_UnaryOp(self, e, env):
        v = self.eval(e.operand, env)
        if isinstance(e.op, ast.Not):
            t = self.symtruth(v)
            if t is None:
                t = self.truth(v)
            return self.not_(t)
        if isinstance(e.op, ast.USub):
            if hasattr(v, 'kvc_neg'):
                return v.kvc_neg(self)
            return -v
        if isinstance(e.op, ast.UAdd):
            return +v
        if isinstance(e.op, ast.Invert):
            if hasattr(v, 'kvc_invert'):
                return v.kvc_invert(self)
            return ~v
        raise OutOfSubset('unary operator')

    def ex_BoolOp(self, e, env):
        is_and = isinstance(e.op, ast.And)
        v = self.eval(e.values[0], env)
        for nxt in e.values[1:]:
            t = self.truth(v)
            if is_and and not t:
                return v
            if not is_and and t:
                return v
            v = self.eval(nxt, env)
        return v

    def ex_Compare(self, e, env):
        left = self.eval(e.left, env)
        result = True
        for op, rn in zip(e.ops, e.comparators):
            right = self.eval(rn, env)
            if isinstance(op, ast.In):
                r = self.contains(left, right)
            elif isinstance(op, ast.NotIn):
                r = self.not_(self.contains(left, right))
            elif isinstance(op, ast.Is):
                r = left is right
            elif isinstance(op, ast.IsNot):
                r = left is not right
            elif isinstance(op, ast.Eq):
                r = self.cmp_eq(left, right)
            elif isinstance(op, ast.NotEq):
                r = self.not_bool(self.cmp_eq(left, right))
            else:
                if hasattr(left, 'kvc_cmp'):
                    r = left.kvc_cmp(self, type(op).__name__, right)
                else:
                    r = _CMPOPS[type(op)](left, right)
            if len(e.ops) == 1:
                return r
            if not isinstance(r, (bool, SBool)):
                raise OutOfSubset('chained comparison of non-boolean results')
            result = self.and_(result, r)
            if result is False:
                return False
            left = right
        return result

    def not_bool(self, r):
        if isinstance(r, (bool, SBool)):
            return self.not_(r)
        return not r

    def cmp_eq(self, a, b):
        if hasattr(a, 'kvc_eq'):
            return a.kvc_eq(self, b)
        if hasattr(b, 'kvc_eq'):
            return b.kvc_eq(self, a)
        if isinstance(a, tuple) and isinstance(b, tuple) or isinstance(a, list) and isinstance(b, list):
            if len(a) != len(b):
                return False
            r = True
            for x, y in zip(a, b):
                r = self.and_(r, self.cmp_eq(x, y))
            return r
        return self.eq(a, b)

    def ex_IfExp(self, e, env):
        c = self.eval(e.test, env)
        t = self.symtruth(c)
        if t is None:
            t = self.truth(c)
        if isinstance(t, bool):
            return self.eval(e.body if t else e.orelse, env)
        # symbolic condition: try to merge both arms into an ite, else fork
        ctx = self.ctx
        mark = (len(ctx.pc), len(ctx.obligations), len(ctx.choices), len(ctx.alts), len(ctx.events))
        ok = True
        vals = []
        for arm, cond in ((e.body, t.t), (e.orelse, z3.Not(t.t))):
            ctx.pc.append(cond)
            try:
                vals.append(self.eval(arm, env))
            except EngineSignal:
                raise
            except OutOfSubset:
                raise
            except Exception:
                ok = False
            finally:
                ctx.truncate_pc(mark[0])
            if len(ctx.choices) != mark[2] or len(ctx.events) != mark[4]:
                ok = False
            if not ok:
                break
        if ok:
            m = merge(t.t, vals[0], vals[1])
            if m is not None:
                return m
        # fall back to forking
        del ctx.obligations[mark[1]:]
        del ctx.choices[mark[2]:]
        del ctx.alts[mark[3]:]
        del ctx.events[mark[4]:]
        if ctx.decide(t.t):
            return self.eval(e.body, env)
        return self.eval(e.orelse, env)

    def ex_Attribute(self, e, env):
        return self.getattr(self.eval(e.value, env), e.attr)

    def eval_index(self, sl, env):
        if isinstance(sl, ast.Slice):
            return slice(self.eval(sl.lower, env) if sl.lower else None,
                         self.eval(sl.upper, env) if sl.upper else None,
                         self.eval(sl.step, env) if sl.step else None)
        return self.eval(sl, env)

    def ex_Subscript(self, e, env):
        return self.getitem(self.eval(e.value, env), self.eval_index(e.slice, env))

    def ex_Lambda(self, e, env):
        return self.make_closure(e, env, '<lambda>')

    def ex_JoinedStr(self, e, env):
        parts = []
        for p in e.values:
            if isinstance(p, ast.Constant):
                parts.append(p.value)
            else:
                parts.append(self.format_value(p, env))
        return join_parts(parts)

    def format_value(self, p, env):
        v = self.eval(p.value, env)
        spec = self.eval(p.format_spec, env) if p.format_spec is not None else ''
        if p.conversion == ord('r'):
            if is_sym(v):
                raise OutOfSubset('!r of a symbolic value')
            return format(repr(v), spec)
        if p.conversion == ord('s'):
            v = self.str_(v)
        if hasattr(v, 'kvc_format'):
            return v.kvc_format(self, spec)
        if isinstance(v, SStr):
            if spec:
                raise OutOfSubset('format spec on symbolic string')
            return SStr(v.t)
        if isinstance(v, (SKey, SInt)) and not spec:
            from .models import NumText
            return NumText(v)
        if is_sym(v):
            raise OutOfSubset(f'f-string of symbolic {type(v).__name__}')
        if not isinstance(v, (str, int, float, bool, type(None), tuple)):
            raise OutOfSubset(f'f-string of unmodelled {type(v).__name__}')
        return format(v, spec)

    def str_(self, v):
        if hasattr(v, 'kvc_str'):
            return v.kvc_str(self)
        if isinstance(v, SStr):
            return SStr(v.t)
        if is_sym(v):
            raise OutOfSubset(f'str() of symbolic {type(v).__name__}')
        return str(v)

    def ex_Call(self, e, env):
        f = self.eval(e.func, env)
        args = []
        for a in e.args:
            if isinstance(a, ast.Starred):
                args.extend(self.iterate(self.eval(a.value, env)))
            else:
                args.append(self.eval(a, env))
        kwargs = {}
        for k in e.keywords:
            if k.arg is None:
                kwargs.update(self.eval(k.value, env))
            else:
                kwargs[k.arg] = self.eval(k.value, env)
        return self.call(f, args, kwargs)

    def call(self, f, args, kwargs):
        if self.call_hook is not None:
            r = self.call_hook(self, f, args, kwargs)
            if r is not NotImplemented:
                return r
        if hasattr(f, 'kvc_call'):
            return f.kvc_call(self, *args, **kwargs)
        if isinstance(getattr(f, '__self__', None), str) and getattr(f, '__name__', '') == 'join':
            from .models import model_join
            return model_join(self, f.__self__, *args)
        mdl = NATIVE_MODELS.get(f) if _hashable(f) else None
        if mdl is not None:
            return mdl(self, *args, **kwargs)
        return f(*args, **kwargs)

    # -- comprehensions
    def _comp(self, e, env, emit):
        cenv = Env({'__comprehension__': True}, env)

        def rec(gi):
            if gi == len(e.generators):
                emit(cenv)
                return
            g = e.generators[gi]
            if g.is_async:
                raise OutOfSubset('async comprehension')
            it = self.eval(g.iter, cenv if gi else env)
            if hasattr(it, 'kvc_symbolic_seq'):
                raise _SymbolicComprehension(it, gi)
            for v in self.iterate(it):
                self.assign(g.target, v, cenv)
                if all(self.truth(self.eval(c, cenv)) for c in g.ifs):
                    rec(gi + 1)
        rec(0)

    def _sym_comp(self, e, env, it, kind):
        """Comprehension over one sequence of unknown length: evaluate the element expression for
        a generic index and return a lazily indexed sequence/dict (values.models.CompSeq)."""
        from .models import CompSeq
        if len(e.generators) != 1:
            raise OutOfSubset('nested comprehension over a sequence of unknown length')
        g = e.generators[0]
        interp = self
        # the element is evaluated lazily (for a generic index, at contract-check time): snapshot the enclosing scopes so
        # that later rebinding of a name (e.g. `res = {.. res[k] ..}`) does not change what the comprehension saw
        def snap(en):
            if en is None:
                return None
            if en.parent is None:
                return en               # module / builtin scope
            return Env(dict(en.vars), snap(en.parent))
        env = snap(env)

        def at(i):
            cenv = Env({'__comprehension__': True}, env)
            if hasattr(it, 'at') and hasattr(it, 'src'):
                # comprehension over a (filtered) comprehension: conditions compose
                cond, el0 = it.at(i)
                if getattr(it, 'kind', None) == 'dict' and not hasattr(it, 'part'):
                    el0 = el0[0]          # iterating a dict yields its keys
            else:
                cond, el0 = True, it.get(i)
            interp.assign(g.target, el0, cenv)
            for c in g.ifs:
                t = interp.symtruth(interp.eval(c, cenv))
                if t is None:
                    raise OutOfSubset('comprehension filter not expressible without forking')
                cond = interp.and_(cond, t)
            # the element expression is only evaluated for elements that pass the filter
            ctx = interp.ctx
            mark = len(ctx.pc)
            if isinstance(cond, SBool):
                ctx.pc.append(cond.t)
            elif cond is False:
                ctx.pc.append(z3.BoolVal(False))
            try:
                if kind == 'dict':
                    k = interp.eval(e.key, cenv)
                    v = interp.eval(e.value, cenv)
                    return cond, (k, v)
                return cond, interp.eval(e.elt, cenv)
            finally:
                ctx.truncate_pc(mark)
        return CompSeq(self, it, at, kind)

    def ex_ListComp(self, e, env):
        out = []
        try:
            self._comp(e, env, lambda ce: out.append(self.eval(e.elt, ce)))
        except _SymbolicComprehension as s:
            return self._sym_comp(e, env, s.it, 'list')
        return out

    def ex_GeneratorExp(self, e, env):
        # evaluated eagerly (assumption: element expressions of the modelled code have no side effects)
        out = []
        try:
            self._comp(e, env, lambda ce: out.append(self.eval(e.elt, ce)))
        except _SymbolicComprehension as s:
            return self._sym_comp(e, env, s.it, 'gen')
        return GenList(out)

    def ex_SetComp(self, e, env):
        out = []
        try:
            self._comp(e, env, lambda ce: out.append(self.eval(e.elt, ce)))
        except _SymbolicComprehension as s:
            return self._sym_comp(e, env, s.it, 'set')
        if any(is_sym(v) for v in out):
            return SymSetOfList(self, out)
        return set(out)

    def ex_DictComp(self, e, env):
        out = []
        try:
            self._comp(e, env, lambda ce: out.append((self.eval(e.key, ce), self.eval(e.value, ce))))
        except _SymbolicComprehension as s:
            return self._sym_comp(e, env, s.it, 'dict')
        if any(is_sym(k) for k, _ in out):
            from .models import AssocDict
            return AssocDict(self, out)
        return dict(out)


class _SymbolicComprehension(Exception):
    def __init__(self, it, gi):
        self.it, self.gi = it, gi
        if gi != 0:
            raise OutOfSubset('inner comprehension generator over a sequence of unknown length')


class SymSetOfList:
    """Set built from a concrete number of possibly symbolic elements (supports `in`, comparison by the contract)."""

    def __init__(self, interp, elems):
        self.elems = elems

    def kvc_contains(self, interp, item):
        r = False
        for k in self.elems:
            r = interp.or_(r, interp.eq(k, item))
        return r


def _hashable(f):
    try:
        hash(f)
        return True
    except TypeError:
        return False


def seq_len(it):
    if hasattr(it, 'kvc_len'):
        return it.kvc_len()
    return len(it)


def join_parts(parts):
    if all(isinstance(p, str) for p in parts):
        return ''.join(parts)
    if all(isinstance(p, (str, SStr)) for p in parts):
        ts = [z3.StringVal(p) if isinstance(p, str) else p.t for p in parts if not (isinstance(p, str) and p == '')]
        if not ts:
            return ''
        return SStr(z3.Concat(*ts) if len(ts) > 1 else ts[0])
    from .models import Text
    return Text(parts)


def native_dict_get(interp, d, idx):
    """d[idx] for a native dict with symbolic idx: forks over the matching key."""
    for k, v in d.items():
        if interp.truth(interp.eq(k, idx)):
            return v
    raise KeyError(idx)


# ---------------------------------------------------------------- models of builtins
def _m_len(interp, x):
    if hasattr(x, 'kvc_len'):
        return x.kvc_len()
    if isinstance(x, SStr):
        return x.length()
    return len(x)


def _m_isinstance(interp, v, cls):
    if hasattr(v, 'kvc_isinstance'):
        return v.kvc_isinstance(interp, cls)
    classes = cls if isinstance(cls, tuple) else (cls,)
    if isinstance(v, (SKey, SInt)):
        return any(c is int or c is object for c in classes)
    if isinstance(v, SBool):
        return any(c in (bool, int, object) for c in classes)
    if isinstance(v, SStr):
        return any(c is str or (isinstance(c, type) and issubclass(type(v), c)) for c in classes)
    if isinstance(v, SChar):
        return any(c is str for c in classes)
    from .values import SNum
    if isinstance(v, SNum):
        return any(c in (int, float, object) for c in classes)
    if isinstance(v, (SRing, SSign)):
        raise OutOfSubset('isinstance() of a coefficient value')
    real = tuple(c for c in classes if isinstance(c, type))
    other = [c for c in classes if not isinstance(c, type)]
    for c in other:
        if hasattr(c, 'kvc_instancecheck'):
            if c.kvc_instancecheck(interp, v):
                return True
        else:
            raise OutOfSubset(f'isinstance against {c!r}')
    return isinstance(v, real) if real else False


def _m_int(interp, x=0, base=10):
    if isinstance(x, SChar):
        if base != 16:
            raise OutOfSubset('int() of spelling char with base != 16')
        return SKey(z3.ZeroExt(SKey.const(0).t.size() - x.c.size(), x.c), 0, 15)
    if hasattr(x, 'kvc_int'):
        return x.kvc_int(interp, base)
    if isinstance(x, (SKey, SInt)):
        return x
    if isinstance(x, str):
        return int(x, base)
    if is_sym(x):
        raise OutOfSubset('int() of symbolic value')
    return int(x)


def _m_abs(interp, x):
    return abs(x)


def _m_str(interp, x=''):
    return interp.str_(x)


class BinStr:
    """bin(k) / format(k, 'b') of a symbolic non-negative int; only .count('1') is modelled."""

    def __init__(self, k):
        self.k = k

    def count(self, what):
        if what != '1':
            raise OutOfSubset("bin(k).count of something other than '1'")
        return self.k.popcount()


def _m_bin(interp, k):
    if isinstance(k, SKey):
        return BinStr(k)
    return bin(k)


def _m_format(interp, v, spec=''):
    if isinstance(v, SKey) and spec == 'b':
        return BinStr(v)
    if is_sym(v):
        raise OutOfSubset('format() of symbolic value')
    return format(v, spec)


def _m_hex(interp, v):
    if isinstance(v, SKey):
        from .models import HexStr
        return HexStr(interp, v)
    return hex(v)


def _m_tuple(interp, x=()):
    if hasattr(x, 'kvc_totuple'):
        return x.kvc_totuple(interp)
    return tuple(interp.iterate(x))


def _m_list(interp, x=()):
    if hasattr(x, 'kvc_tolist'):
        return x.kvc_tolist(interp)
    return list(interp.iterate(x))


def _m_dict(interp, x=(), **kw):
    if hasattr(x, 'kvc_todict'):
        if kw:
            raise OutOfSubset('dict(sym, **kw)')
        return x.kvc_todict(interp)
    if isinstance(x, dict):
        return dict(x, **kw)
    pairs = [tuple(interp.iterate(p)) for p in interp.iterate(x)]
    if any(is_sym(k) for k, _ in pairs):
        from .models import AssocDict
        return AssocDict(interp, pairs)
    return dict(pairs, **kw)


def _m_zip(interp, *its):
    if any(hasattr(i, 'kvc_symbolic_seq') for i in its):
        from .models import ZipSeq
        return ZipSeq(interp, its)
    return list(zip(*[interp.iterate(i) for i in its]))


def _m_enumerate(interp, it, start=0):
    if hasattr(it, 'kvc_symbolic_seq'):
        from .models import EnumSeq
        return EnumSeq(interp, it, start)
    return list(enumerate(interp.iterate(it), start))


def _m_product(interp, *its, repeat=1):
    its = list(its) * repeat
    if any(hasattr(i, 'kvc_symbolic_seq') for i in its):
        from .models import ProductSeq
        if len(its) != 2:
            raise OutOfSubset('product of != 2 symbolic sequences')
        return ProductSeq(interp, its[0], its[1])
    return list(itertools.product(*[list(interp.iterate(i)) for i in its]))


def _m_any(interp, it):
    if hasattr(it, 'kvc_any'):
        return it.kvc_any(interp)
    r = False
    for v in interp.iterate(it):
        t = interp.symtruth(v)
        if t is None:
            t = interp.truth(v)
        r = interp.or_(r, t)
        if r is True:
            return True
    return r


def _m_all(interp, it):
    if hasattr(it, 'kvc_all'):
        return it.kvc_all(interp)
    r = True
    for v in interp.iterate(it):
        t = interp.symtruth(v)
        if t is None:
            t = interp.truth(v)
        r = interp.and_(r, t)
        if r is False:
            return False
    return r


def _m_sorted(interp, it, key=None, reverse=False):
    xs = list(interp.iterate(it))
    ks = [key(x) for x in xs] if key else xs
    if any(is_sym(k) or isinstance(k, tuple) and any(is_sym(a) for a in k) for k in ks):
        raise OutOfSubset('sorted() on symbolic sort keys')
    return sorted(xs, key=key, reverse=reverse)


def _m_sum(interp, it, start=0):
    acc = start
    for v in interp.iterate(it):
        acc = interp.binop(ast.Add(), acc, v)
    return acc


def _opmodel(node):
    return lambda interp, a, b: interp.binop(node, a, b)


def _m_reduce(interp, f, it, *init):
    xs = list(interp.iterate(it))
    return functools.reduce(lambda a, b: interp.call(f, [a, b], {}), xs, *init)


def _m_min(interp, *a, **k):
    if len(a) == 1:
        a = list(interp.iterate(a[0]))
    if any(is_sym(x) for x in a):
        if not k and all(isinstance(x, (int, SInt)) and not isinstance(x, bool) for x in a):
            r = a[0] if isinstance(a[0], SInt) else SInt(z3.IntVal(a[0]))
            for x in a[1:]:
                xt = x.t if isinstance(x, SInt) else z3.IntVal(x)
                r = SInt(z3.If(xt < r.t, xt, r.t))
            return r
        raise OutOfSubset('min() of symbolic values')
    return min(a, **k)


def _m_max(interp, *a, **k):
    if len(a) == 1:
        a = list(interp.iterate(a[0]))
    if any(is_sym(x) for x in a):
        raise OutOfSubset('max() of symbolic values')
    return max(a, **k)


def _m_range(interp, *a):
    if any(is_sym(x) for x in a):
        from .models import RangeSeq
        return RangeSeq(interp, *a)
    return range(*a)


def _m_reversed(interp, it):
    if hasattr(it, 'kvc_symbolic_seq'):
        raise OutOfSubset('reversed() of a sequence of unknown length')
    return list(reversed(list(interp.iterate(it))))


def _m_hasattr(interp, o, name):
    if hasattr(o, 'kvc_hasattr'):
        return o.kvc_hasattr(interp, name)
    if is_sym(o):
        raise OutOfSubset('hasattr() of symbolic value')
    return hasattr(o, name)


def _m_getattr(interp, o, name, *default):
    try:
        return interp.getattr(o, name)
    except AttributeError:
        if default:
            return default[0]
        raise


def _m_set(interp, it=()):
    xs = list(interp.iterate(it))
    if any(is_sym(x) for x in xs):
        return SymSetOfList(interp, xs)
    return set(xs)


def _m_callable(interp, o):
    return callable(o)


NATIVE_MODELS = {
    len: _m_len, isinstance: _m_isinstance, int: _m_int, abs: _m_abs, str: _m_str, bin: _m_bin,
    format: _m_format, hex: _m_hex, tuple: _m_tuple, list: _m_list, dict: _m_dict, zip: _m_zip,
    enumerate: _m_enumerate, itertools.product: _m_product, any: _m_any, all: _m_all,
    sorted: _m_sorted, sum: _m_sum, functools.reduce: _m_reduce, min: _m_min, max: _m_max,
    range: _m_range, reversed: _m_reversed, hasattr: _m_hasattr, getattr: _m_getattr, set: _m_set,
    callable: _m_callable,
    operator.add: _opmodel(ast.Add()), operator.sub: _opmodel(ast.Sub()), operator.mul: _opmodel(ast.Mult()),
    operator.truediv: _opmodel(ast.Div()), operator.xor: _opmodel(ast.BitXor()), operator.or_: _opmodel(ast.BitOr()),
    operator.and_: _opmodel(ast.BitAnd()),
}

BUILTIN_ENV = {
    'len': len, 'isinstance': isinstance, 'int': int, 'abs': abs, 'str': str, 'bin': bin,
    'format': format, 'hex': hex, 'tuple': tuple, 'list': list, 'dict': dict, 'zip': zip,
    'enumerate': enumerate, 'any': any, 'all': all, 'sorted': sorted, 'sum': sum, 'min': min,
    'max': max, 'range': range, 'reversed': reversed, 'hasattr': hasattr, 'getattr': getattr,
    'set': set, 'callable': callable, 'bool': bool, 'float': float, 'object': object, 'type': type,
    'True': True, 'False': False, 'None': None, 'next': next,
    'ValueError': ValueError, 'TypeError': TypeError, 'KeyError': KeyError, 'IndexError': IndexError,
    'AttributeError': AttributeError, 'ZeroDivisionError': ZeroDivisionError,
    'NotImplementedError': NotImplementedError, 'Exception': Exception, 'AssertionError': AssertionError,
    'RuntimeWarning': RuntimeWarning,
    'product': itertools.product, 'reduce': functools.reduce, 'operator': operator,
    'itertools': itertools,
}


def number_loops(fnode):
    """Attach to every For/While node of a function its ordinal in source order (contracts key loops by it)."""
    k = 0
    for n in ast.walk(fnode):
        pass
    class V(ast.NodeVisitor):
        def __init__(self):
            self.k = 0
        def visit_For(self, n):
            n.kvc_ordinal = self.k
            self.k += 1
            self.generic_visit(n)
        def visit_While(self, n):
            n.kvc_ordinal = self.k
            self.k += 1
            self.generic_visit(n)
        def visit_FunctionDef(self, n):
            if n is fnode:
                self.generic_visit(n)
            # nested functions keep their own numbering
            else:
                number_loops(n)
        def visit_Lambda(self, n):
            pass
    V().visit(fnode)
    return fnode
