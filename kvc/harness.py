"""Harness: runs a function under contract over all paths, collects named obligations, discharges
them, and keeps the bookkeeping the evidence files need."""
import ast
import os
import time
import z3

from . import extract as X
from .engine import (Interp, Env, Closure, explore, BUILTIN_ENV, number_loops, Obligation, PathEnd,
                     LoopSpec, Ctx)
from .values import OutOfSubset, KvcInternal
from . import discharge as D
from . import models


def _havoc_container(name):
    """A module-level container the module mutates, seen from inside one call: membership of a key is an unconstrained boolean
    (one per distinct key), a stored item is an opaque value; stores made on the path are remembered by Rec itself."""
    from .rec import sym, _k
    from .values import SBool
    seen = {}

    def contains(interp, me, item):
        k = _k(item)
        if k in me.stores:
            return True
        if k not in seen:
            seen[k] = SBool(z3.Bool(f'{name}_has_key_{len(seen)}'))
        return seen[k]
    return sym(name, on_contains=contains)


class FunctionUnderContract:
    def __init__(self, ex):
        self.ex = ex
        self.obligations = []      # (name, Obligation)
        self.paths = 0
        self.out_of_subset = None
        self.notes = []


def _load_baseline():
    import json
    try:
        return json.load(open(os.path.join(os.path.dirname(os.path.dirname(os.path.abspath(__file__))), 'contracts', 'baseline_methods.json')))['classes']
    except Exception:
        return {}


_BASELINE = _load_baseline()


def _load_hashes():
    import json
    try:
        return json.load(open(os.path.join(os.path.dirname(os.path.dirname(os.path.abspath(__file__))), 'contracts', 'baseline_hashes.json')))['functions']
    except Exception:
        return {}


_HASHES = _load_hashes()


def _unchanged(ex):
    """is the extracted function textually the one of the tree the contracts were written against? (unknown -> treated as
    unchanged, so that the vacuity guard stays a guard)"""
    known = _HASHES.get(ex.relpath, {}).get(ex.qualpath.split('.<lambda')[0])
    if known is None and ex.alias_of:
        q = ex.qualpath.rsplit('.', 1)[0] + '.' + ex.alias_of if '.' in ex.qualpath else ex.alias_of
        known = _HASHES.get(ex.relpath, {}).get(q)
    if not known:
        return True
    return ex.sha256 in known
_SAFE_STDLIB = {'itertools', 'math', 'operator', 'functools', 'string', 'fractions', 'bisect'}


class Harness:
    def __init__(self, tier='quick'):
        self.tier = tier
        self.functions = {}        # (relpath, qualpath) -> FunctionUnderContract
        self.obls = []             # (full name, smt2, meta)
        self.lemmas = []
        self.out_of_subset = []    # (function, reason)
        self.assumed = []          # assumed contracts used
        self.notes = []
        self.t_gen = 0.0
        self.structural_failures = []
        self.property_id = None     # set by the property driver; None (self-test, ad-hoc runs) keeps every clause
        self.skipped_clauses = 0
        self.vacuous = []               # runs that produced no obligation at all (checker fault)   # obligations decided without a solver (concrete False)

    # ------------------------------------------------------------------ extraction
    def fn(self, relpath, qualpath):
        key = (relpath, qualpath)
        if key not in self.functions:
            ex = X.extract(relpath, qualpath)
            if isinstance(ex.node, (ast.FunctionDef,)):
                number_loops(ex.node)
            self.functions[key] = FunctionUnderContract(ex)
        return self.functions[key]

    def closure(self, interp, fuc, env_extra=None):
        env = Env(dict(BUILTIN_ENV))
        if env_extra:
            env.vars.update(env_extra)
        relpath = fuc.ex.relpath
        harness = self

        havoc = {}

        def fallback(name, root):
            # a module-level helper *function* of the same file that has no contract of its own is inlined
            # (reported in the evidence); anything else stays unmodelled
            try:
                sub = harness.fn(relpath, name)
            except Exception:
                # a name the file imports from a side-effect-free standard-library module (itertools, math, operator, ..):
                # the real object, which works on concrete values and raises on symbolic ones (-> that path is undecided)
                const = X.module_constant(relpath, name)
                if const is not NotImplemented:
                    if isinstance(const, (dict, list, set)) and X.module_state_mutated(relpath, name):
                        # module-level mutable *state* (a cache the module writes into): arbitrary contents at entry
                        if name not in havoc:
                            note = f'module-level state {relpath}:{name} havocked (arbitrary contents at function entry)'
                            if note not in harness.notes:
                                harness.notes.append(note)
                            havoc[name] = _havoc_container(name)
                        return havoc[name]
                    return const            # a module-level literal constant
                nt = X.module_namedtuple(relpath, name)
                if nt is not None:
                    return nt               # a module-level `class X(NamedTuple)` record type (plain tuple with field names)
                imp = X.module_imports(relpath).get(name)
                if imp and imp[0].split('.')[0] in _SAFE_STDLIB:
                    import importlib
                    try:
                        mod = importlib.import_module(imp[0])
                        return getattr(mod, imp[1]) if imp[1] else mod
                    except Exception:
                        return NotImplemented
                return NotImplemented
            if isinstance(sub.ex.node, ast.ClassDef):
                nt = X.module_namedtuple(relpath, name)
                return nt if nt is not None else NotImplemented
            if not isinstance(sub.ex.node, ast.FunctionDef) or sub.ex.cls is not None:
                return NotImplemented
            note = f'inlined helper {relpath}:{name} (no contract of its own)'
            if note not in harness.notes:
                harness.notes.append(note)
            return Closure(interp, sub.ex.node, root, name)
        env.vars['__fallback__'] = fallback
        clo = Closure(interp, fuc.ex.node, env, fuc.ex.qualpath.split('.')[-1])
        if fuc.ex.cls is None:
            return clo
        cls = getattr(fuc.ex.cls, 'name', fuc.ex.cls)

        def resolver(interp_, me, name):
            # a helper *method* of the class (or of a base class in the same file) that the tree the contracts were written
            # against does not have: it has no contract, so it is inlined with `self` bound (reported in the evidence)
            todo, seen = [cls], set()
            while todo:
                c = todo.pop(0)
                if c in seen:
                    continue
                seen.add(c)
                if name in _BASELINE.get(relpath, {}).get(c, ()):
                    return None
                meths, bases = X.class_info(relpath, c)
                if name in meths:
                    try:
                        sub = harness.fn(relpath, f'{c}.{name}')
                    except Exception:
                        return None
                    if not isinstance(sub.ex.node, ast.FunctionDef) or sub.ex.decorators not in ([], ['staticmethod'], ['classmethod']):
                        return None
                    note = f'inlined helper method {relpath}:{c}.{name} (not in the baseline, no contract of its own)'
                    if note not in harness.notes:
                        harness.notes.append(note)
                    inner = Closure(interp_, sub.ex.node, env, name)
                    if sub.ex.decorators == ['staticmethod']:
                        return lambda *a, **k: inner(*a, **k)
                    if sub.ex.decorators == ['classmethod']:
                        # reached through the class object (e.g. inside __new__) or through an instance: the first argument is
                        # the class either way; `me` stands for it only when it is the class
                        if getattr(me, 'kvc_is_class', False) or (hasattr(me, 'parts') and str(getattr(me, 'parts', [''])[0]) in ('cls', cls)):
                            return lambda *a, **k: inner(me, *a, **k)
                        return None
                    return lambda *a, **k: inner(me, *a, **k)
                todo.extend(bases)
            if name.startswith('_') and not name.startswith('__') and _BASELINE.get(relpath, {}).get(cls) is not None:
                # a private attribute that neither the recorded class nor the current class body knows: state added by a later
                # change (a memo, a cache).  No contract models it, so whatever is read from it is unknown: undecided.
                raise OutOfSubset(f'{relpath}: self.{name} is an instance attribute the contracts do not model (introduced after they were written)')
            return None

        def call(*a, **k):
            from .rec import Rec
            if a and (isinstance(a[0], Rec) or hasattr(a[0], 'kvc_getattr')) and getattr(a[0], 'method_resolver', None) is None:
                try:
                    a[0].method_resolver = resolver
                except Exception:
                    pass
            return clo(*a, **k)
        return call

    # ------------------------------------------------------------------ running
    def run_paths(self, fuc, label, body, max_paths=20000):
        """body(ctx, interp_factory) is executed once per path.  Obligations recorded on the paths are
        collected under `<function>/<label>/...`.  Returns the list of PathResults, or None if the
        function turned out to be outside the subset."""
        t0 = time.time()
        base = f'{fuc.ex.qualpath}/{label}' if label else fuc.ex.qualpath
        try:
            results = explore(body, max_paths=max_paths)
        except OutOfSubset as e:
            fuc.out_of_subset = str(e)
            self.out_of_subset.append((base, str(e)))
            self.t_gen += time.time() - t0
            return None
        fuc.paths += len(results)
        # an exception that escapes the contract body on some path is either a gap of the object models or a crash the
        # change introduced: that path is undecided (out-of-subset), never silently dropped
        for r in results:
            if r.outcome == 'oos':
                why = str(r.value)[:200]
                if (base, why) not in self.out_of_subset:
                    self.out_of_subset.append((base, why))
                fuc.out_of_subset = why
            if r.outcome == 'raise' and 'expected-raise' not in r.ctx.notes:
                why = f'a path raised {type(r.value).__name__}: {r.value}'[:200]
                if (base, why) not in self.out_of_subset:
                    self.out_of_subset.append((base, why))
                fuc.out_of_subset = why
        all_unexpected = results and all(r.outcome == 'oos' or (r.outcome == 'raise' and 'expected-raise' not in r.ctx.notes) for r in results)
        if not any(r.ctx.obligations for r in results) and not all_unexpected:
            why = '; '.join(sorted({f'{type(r.value).__name__}: {r.value}'[:160] for r in results if r.outcome == 'raise'}))
            if _unchanged(fuc.ex):
                # no obligation at all from a function that is exactly the one the contract was written for: a fault of the checker
                self.vacuous.append(base + (f' [every path raised: {why}]' if why else ''))
            else:
                # the function differs from the recorded tree and its contract finds nothing to say about it: it does not apply
                msg = 'the contract produced no obligation on this (changed) function: it does not apply' + (f' [{why}]' if why else '')
                fuc.out_of_subset = msg
                self.out_of_subset.append((base, msg))
        for pi, r in enumerate(results):
            for o in r.ctx.obligations:
                self.add_obligation(f'{base}/{o.name}#p{pi}', o, fuc)
        self.t_gen += time.time() - t0
        return results

    def add_obligation(self, name, o, fuc=None):
        # a clause marked only(Cxx[,Cyy]) belongs to those properties alone: contracts shared between properties emit it, the
        # check of any other property drops it (e.g. "a cached pattern is not regenerated" is C10's, not C02's)
        import re
        m = re.match(r'only\(([^)]*)\): ', getattr(o, 'name', '') or '')
        if m and self.property_id is not None and self.property_id not in [x.strip() for x in m.group(1).split(',')]:
            self.skipped_clauses += 1
            return
        g = z3.simplify(o.goal) if not isinstance(o.goal, bool) else z3.BoolVal(o.goal)
        if z3.is_true(g):
            # trivially true after simplification: still counted (discharged by the z3 simplifier)
            self.obls.append((name, None, {'kind': o.kind, 'trivial': True}))
            return
        self.obls.append((name, o.smt2(), {'kind': o.kind, 'meta': o.meta}))

    def add_goal(self, name, assumptions, goal, kind='lemma', meta=None):
        o = Obligation(name, list(assumptions), goal, kind, meta)
        self.add_obligation(name, o)

    # ------------------------------------------------------------------ discharge
    def discharge(self, timeout_ms=20000):
        jobs = [(n, s) for n, s, m in self.obls if s is not None]
        t0 = time.time()
        res = D.discharge(jobs, timeout_ms=timeout_ms)
        wall = time.time() - t0
        # results come back in job order; two obligations of one path may carry the same name (the same safety condition met
        # twice): they are matched by position, never by name
        assert len(res) == len(jobs)
        it = iter(res)
        out = []
        for n, s, m in self.obls:
            if s is None:
                out.append({'name': n, 'verdict': 'unsat', 'backend': 'poly-normal-form' if m.get('kind') == 'poly' else ('structural' if m.get('kind') == 'struct' else 'z3-simplifier'), 'time': 0.0, 'model': None, **m})
            else:
                r = dict(next(it))
                assert r['name'] == n
                r.update(m)
                if m.get('kind') == 'poly':
                    r['backend'] = 'poly-normal-form'       # decided by exact normalisation; the solver only saw the constant
                out.append(r)
        return out, wall
