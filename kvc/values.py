"""Symbolic value domain of the kvc VC generator.

Every class here wraps a z3 term and overloads the Python operators the real kingdon code
applies to such a value, so that the interpreter (engine.py) can evaluate the *real* AST with
`operator.*` and obtain z3 terms.  `bool()` of a symbolic Boolean asks the current path context
for a decision (engine.Ctx.decide) -- this is what makes native containers (`list.index`,
`x in tuple`, `list.remove`) fork correctly when their elements are symbolic.

Encoding assumptions (also listed in the evidence files):
 * SKey  : Python int holding a blade bitmask / small arithmetic on it.  Encoded as a signed
           bit-vector of width WB with statically tracked bounds [lo, hi]; every operation
           re-derives the bounds and raises OutOfSubset if they might leave the signed range, so
           machine wrap-around can never be mistaken for Python's unbounded ints.
 * SInt  : Python int encoded as z3 Int (lengths, indices, counters).
 * SRing : a coefficient.  Encoded as z3 Real.  Sound for the obligations we generate because no
           branch ever depends on a ring value (the engine refuses to decide on an SRing), hence
           every obligation is, per path, a polynomial identity with integer coefficients, and such
           an identity holds over the reals iff it holds in every commutative ring.
 * SSign : a value of the blade sign table, element of {-1,0,1}, encoded as (zero, neg) Booleans.
 * SChar : one character of a blade spelling; an abstract symbol with a code (bit-vector of 8 bits).
 * SStr  : a Python str, encoded as z3 String (used for the mathstr methods only).
"""
import z3

WB = 26          # width of SKey bit-vectors (keys are < 2**16; head-room for + and - chains)
CB = 8           # width of SChar codes


class OutOfSubset(Exception):
    """The real code uses a construct / value combination the encoding does not cover."""


class KvcInternal(Exception):
    pass


_CTX = [None]


def current():
    if _CTX[0] is None:
        raise KvcInternal('symbolic decision outside of a path context')
    return _CTX[0]


def set_current(ctx):
    _CTX[0] = ctx


class Sym:
    __slots__ = ()
    __hash__ = None


def is_sym(v):
    return isinstance(v, Sym)


# ------------------------------------------------------------------ Booleans
class SBool(Sym):
    __slots__ = ('t',)

    def __init__(self, t):
        if isinstance(t, bool):
            t = z3.BoolVal(t)
        self.t = t

    def __bool__(self):
        return current().decide(self.t)

    def __invert__(self):
        return SBool(z3.Not(self.t))

    def __and__(self, o):
        return SBool(z3.And(self.t, tobool(o)))

    __rand__ = __and__

    def __or__(self, o):
        return SBool(z3.Or(self.t, tobool(o)))

    __ror__ = __or__

    def __xor__(self, o):
        return SBool(z3.Xor(self.t, tobool(o)))

    __rxor__ = __xor__

    def __eq__(self, o):
        return SBool(self.t == tobool(o))

    def __ne__(self, o):
        return SBool(self.t != tobool(o))

    def asint(self):
        return SInt(z3.If(self.t, z3.IntVal(1), z3.IntVal(0)))

    def __add__(self, o):
        return self.asint() + (o.asint() if isinstance(o, SBool) else o)

    def __radd__(self, o):
        return (o.asint() if isinstance(o, SBool) else o) + self.asint()

    def __repr__(self):
        return f'SBool({self.t})'


def tobool(v):
    if isinstance(v, SBool):
        return v.t
    if isinstance(v, bool):
        return z3.BoolVal(v)
    if z3.is_bool(v):
        return v
    raise OutOfSubset(f'cannot use {type(v).__name__} as a symbolic Boolean')


def mkbool(t):
    """SBool, or a Python bool when the term is literally true/false."""
    if isinstance(t, bool):
        return t
    t = z3.simplify(t)
    if z3.is_true(t):
        return True
    if z3.is_false(t):
        return False
    return SBool(t)


# ------------------------------------------------------------------ bit-vector ints (keys)
def _fits(lo, hi):
    lim = 1 << (WB - 1)
    return -lim <= lo and hi < lim


def _bl(n):
    return max(n, 0).bit_length()


class SKey(Sym):
    __slots__ = ('t', 'lo', 'hi')

    def __init__(self, t, lo, hi):
        if not _fits(lo, hi):
            raise OutOfSubset(f'integer bounds [{lo},{hi}] exceed the {WB}-bit encoding')
        self.t, self.lo, self.hi = t, lo, hi

    @staticmethod
    def const(v):
        return SKey(z3.BitVecVal(v, WB), v, v)

    @staticmethod
    def fresh(name, lo, hi):
        """Fresh key with lo <= k <= hi; the caller must add `.range_constraint()` to the path."""
        return SKey(z3.BitVec(name, WB), lo, hi)

    def range_constraint(self):
        return z3.And(self.t >= self.lo, self.t <= self.hi)

    # -- helpers
    @staticmethod
    def _co(o):
        if isinstance(o, SKey):
            return o
        if isinstance(o, bool):
            o = int(o)
        if isinstance(o, int):
            return SKey.const(o)
        if isinstance(o, SSign):
            return None
        return None

    def _bin(self, o, f, bounds):
        o2 = SKey._co(o)
        if o2 is None:
            return NotImplemented
        lo, hi = bounds(self, o2)
        return SKey(f(self.t, o2.t), lo, hi)

    def _rbin(self, o, f, bounds):
        o2 = SKey._co(o)
        if o2 is None:
            return NotImplemented
        lo, hi = bounds(o2, self)
        return SKey(f(o2.t, self.t), lo, hi)

    # -- arithmetic
    def __add__(self, o):
        return self._bin(o, lambda a, b: a + b, lambda a, b: (a.lo + b.lo, a.hi + b.hi))

    def __radd__(self, o):
        return self._rbin(o, lambda a, b: a + b, lambda a, b: (a.lo + b.lo, a.hi + b.hi))

    def __sub__(self, o):
        return self._bin(o, lambda a, b: a - b, lambda a, b: (a.lo - b.hi, a.hi - b.lo))

    def __rsub__(self, o):
        return self._rbin(o, lambda a, b: a - b, lambda a, b: (a.lo - b.hi, a.hi - b.lo))

    def __neg__(self):
        return SKey(-self.t, -self.hi, -self.lo)

    def __pos__(self):
        return self

    def __abs__(self):
        if self.lo >= 0:
            return self
        return SKey(z3.If(self.t < 0, -self.t, self.t), 0, max(abs(self.lo), abs(self.hi)))

    def __mul__(self, o):
        if isinstance(o, SSign):
            return NotImplemented
        o2 = SKey._co(o)
        if o2 is None:
            return NotImplemented
        c = [self.lo * o2.lo, self.lo * o2.hi, self.hi * o2.lo, self.hi * o2.hi]
        return SKey(self.t * o2.t, min(c), max(c))

    __rmul__ = __mul__

    @staticmethod
    def _nonneg(*xs):
        for x in xs:
            if x.lo < 0:
                raise OutOfSubset('bit operation on a possibly negative int')

    def _bitbounds(a, b):
        SKey._nonneg(a, b)
        return 0, (1 << max(_bl(a.hi), _bl(b.hi))) - 1

    def _andbounds(a, b):
        SKey._nonneg(a, b)
        return 0, min(a.hi, b.hi)

    def __xor__(self, o):
        return self._bin(o, lambda a, b: a ^ b, SKey._bitbounds)

    def __rxor__(self, o):
        return self._rbin(o, lambda a, b: a ^ b, SKey._bitbounds)

    def __or__(self, o):
        return self._bin(o, lambda a, b: a | b, SKey._bitbounds)

    def __ror__(self, o):
        return self._rbin(o, lambda a, b: a | b, SKey._bitbounds)

    def __and__(self, o):
        return self._bin(o, lambda a, b: a & b, SKey._andbounds)

    def __rand__(self, o):
        return self._rbin(o, lambda a, b: a & b, SKey._andbounds)

    def __lshift__(self, o):
        o2 = SKey._co(o)
        SKey._nonneg(self, o2)
        if o2.hi >= WB:
            raise OutOfSubset('shift amount too large')
        return SKey(self.t << o2.t, self.lo << o2.lo, self.hi << o2.hi)

    def __rlshift__(self, o):
        return SKey._co(o).__lshift__(self)

    def __rshift__(self, o):
        o2 = SKey._co(o)
        SKey._nonneg(self, o2)
        return SKey(z3.LShR(self.t, o2.t), 0, self.hi >> o2.lo)

    def __rrshift__(self, o):
        return SKey._co(o).__rshift__(self)

    def __rpow__(self, base):
        if base == 2:
            return SKey.const(1) << self
        raise OutOfSubset('only 2**k is modelled')

    def __mod__(self, o):
        if isinstance(o, int) and o > 0 and self.lo >= 0:
            return SKey(z3.URem(self.t, z3.BitVecVal(o, WB)), 0, min(self.hi, o - 1))
        raise OutOfSubset('modulo only by a positive constant on a non-negative int')

    def __floordiv__(self, o):
        if isinstance(o, int) and o > 0 and self.lo >= 0:
            return SKey(z3.UDiv(self.t, z3.BitVecVal(o, WB)), self.lo // o, self.hi // o)
        raise OutOfSubset('floor division only by a positive constant on a non-negative int')

    # -- comparisons (signed)
    def _cmp(self, o, f):
        o2 = SKey._co(o)
        if o2 is None:
            return NotImplemented
        return mkbool(f(self.t, o2.t))

    def __eq__(self, o):
        if o is None or isinstance(o, (str, tuple, list)):
            return False
        return self._cmp(o, lambda a, b: a == b)

    def __ne__(self, o):
        if o is None or isinstance(o, (str, tuple, list)):
            return True
        return self._cmp(o, lambda a, b: a != b)

    def __lt__(self, o):
        return self._cmp(o, lambda a, b: a < b)

    def __le__(self, o):
        return self._cmp(o, lambda a, b: a <= b)

    def __gt__(self, o):
        return self._cmp(o, lambda a, b: a > b)

    def __ge__(self, o):
        return self._cmp(o, lambda a, b: a >= b)

    def __bool__(self):
        return current().decide(self.t != 0)

    def bit_length(self):
        SKey._nonneg(self)
        n = _bl(self.hi)
        r = z3.BitVecVal(0, WB)
        for i in range(n):
            r = z3.If(z3.Extract(i, i, self.t) == 1, z3.BitVecVal(i + 1, WB), r)
        return SKey(r, _bl(self.lo), n)

    def popcount(self):
        SKey._nonneg(self)
        n = _bl(self.hi)
        if n == 0:
            return SKey.const(0)
        r = z3.ZeroExt(WB - 1, z3.Extract(0, 0, self.t))
        for i in range(1, n):
            r = r + z3.ZeroExt(WB - 1, z3.Extract(i, i, self.t))
        return SKey(r, 0, n)

    def __repr__(self):
        return f'SKey({self.t}, [{self.lo},{self.hi}])'


# ------------------------------------------------------------------ unbounded ints
class SInt(Sym):
    __slots__ = ('t',)

    def __init__(self, t):
        self.t = t

    @staticmethod
    def _co(o):
        if isinstance(o, SInt):
            return o.t
        if isinstance(o, bool):
            return z3.IntVal(int(o))
        if isinstance(o, int):
            return z3.IntVal(o)
        return None

    def _b(self, o, f):
        t = SInt._co(o)
        return NotImplemented if t is None else SInt(f(self.t, t))

    def __add__(self, o): return self._b(o, lambda a, b: a + b)
    def __radd__(self, o): return self._b(o, lambda a, b: b + a)
    def __sub__(self, o): return self._b(o, lambda a, b: a - b)
    def __rsub__(self, o): return self._b(o, lambda a, b: b - a)
    def __neg__(self): return SInt(-self.t)

    def __mul__(self, o):
        return self._b(o, lambda a, b: a * b)

    __rmul__ = __mul__

    def __rpow__(self, base):
        """2 ** k for an index k that the path bounds to 0 <= k < 20: a bit-vector key (anything else exceeds the encoding)"""
        if base != 2:
            raise OutOfSubset('only 2**k is modelled')
        ctx = current()
        if ctx is None or ctx._check(z3.Not(z3.And(self.t >= 0, self.t < 20))) != z3.unsat:
            raise OutOfSubset('2**k with an exponent the path does not bound to 0 <= k < 20')
        return SKey(z3.BitVecVal(1, WB) << z3.Int2BV(self.t, WB), 1, 1 << 19)

    def __mod__(self, o):
        if isinstance(o, int) and o > 0:
            return SInt(self.t % o)
        raise OutOfSubset('SInt % non-constant')

    def _c(self, o, f):
        t = SInt._co(o)
        return NotImplemented if t is None else mkbool(f(self.t, t))

    def __eq__(self, o):
        if o is None or isinstance(o, (str, tuple, list)):
            return False
        return self._c(o, lambda a, b: a == b)

    def __ne__(self, o):
        if o is None or isinstance(o, (str, tuple, list)):
            return True
        return self._c(o, lambda a, b: a != b)

    def __lt__(self, o): return self._c(o, lambda a, b: a < b)
    def __le__(self, o): return self._c(o, lambda a, b: a <= b)
    def __gt__(self, o): return self._c(o, lambda a, b: a > b)
    def __ge__(self, o): return self._c(o, lambda a, b: a >= b)

    def __bool__(self):
        return current().decide(self.t != 0)

    def __repr__(self):
        return f'SInt({self.t})'


# ------------------------------------------------------------------ signs
class SSign(Sym):
    """Element of {-1, 0, 1}: zero flag and (if non-zero) negativity flag."""
    __slots__ = ('z', 'n')

    def __init__(self, z, n):
        self.z, self.n = z, n

    @staticmethod
    def const(v):
        if v not in (-1, 0, 1):
            raise OutOfSubset(f'sign constant {v}')
        return SSign(z3.BoolVal(v == 0), z3.BoolVal(v < 0))

    @staticmethod
    def _co(o):
        if isinstance(o, SSign):
            return o
        if isinstance(o, int) and o in (-1, 0, 1):
            return SSign.const(o)
        return None

    def __mul__(self, o):
        o2 = SSign._co(o)
        if o2 is None:
            return NotImplemented
        return SSign(z3.Or(self.z, o2.z), z3.Xor(self.n, o2.n))

    __rmul__ = __mul__

    def __neg__(self):
        return SSign(self.z, z3.Not(self.n))

    def asint(self):
        return z3.If(self.z, z3.IntVal(0), z3.If(self.n, z3.IntVal(-1), z3.IntVal(1)))

    def __add__(self, o):
        o2 = SSign._co(o)
        if o2 is None:
            return NotImplemented
        return SInt(self.asint() + o2.asint())

    def __sub__(self, o):
        o2 = SSign._co(o)
        if o2 is None:
            return NotImplemented
        return SInt(self.asint() - o2.asint())

    def __bool__(self):
        return current().decide(z3.Not(self.z))

    def _cmp0(self, o, f):
        if isinstance(o, SSign):
            return mkbool(f(self.asint(), o.asint()))
        if isinstance(o, int):
            return mkbool(f(self.asint(), z3.IntVal(o)))
        return NotImplemented

    def __eq__(self, o): return self._cmp0(o, lambda a, b: a == b)
    def __ne__(self, o): return self._cmp0(o, lambda a, b: a != b)
    def __lt__(self, o): return self._cmp0(o, lambda a, b: a < b)
    def __le__(self, o): return self._cmp0(o, lambda a, b: a <= b)
    def __gt__(self, o): return self._cmp0(o, lambda a, b: a > b)
    def __ge__(self, o): return self._cmp0(o, lambda a, b: a >= b)

    def __repr__(self):
        return f'SSign(z={self.z}, n={self.n})'


# ------------------------------------------------------------------ ring values
class SRing(Sym):
    __slots__ = ('t',)

    def __init__(self, t):
        self.t = t

    @staticmethod
    def _co(o):
        if isinstance(o, SRing):
            return o.t
        if isinstance(o, bool):
            return None
        if isinstance(o, int):
            return z3.RealVal(o)
        if isinstance(o, SSign):
            return z3.ToReal(o.asint())
        return None

    def _b(self, o, f):
        t = SRing._co(o)
        return NotImplemented if t is None else SRing(f(self.t, t))

    def __add__(self, o): return self._b(o, lambda a, b: a + b)
    def __radd__(self, o): return self._b(o, lambda a, b: b + a)
    def __sub__(self, o): return self._b(o, lambda a, b: a - b)
    def __rsub__(self, o): return self._b(o, lambda a, b: b - a)
    def __mul__(self, o): return self._b(o, lambda a, b: a * b)
    def __rmul__(self, o): return self._b(o, lambda a, b: b * a)
    def __neg__(self): return SRing(-self.t)
    def __pos__(self): return self

    def __bool__(self):
        raise OutOfSubset('control flow depends on a coefficient value')

    def __eq__(self, o):
        raise OutOfSubset('comparison of coefficient values')

    def __repr__(self):
        return f'SRing({self.t})'


class SNum(SRing):
    """A *number* (int/float coefficient of a polynomial), encoded as a real; unlike an abstract ring value it may be
    compared and tested for zero (kingdon's polynomial code does both).  Floating-point rounding is not modelled."""
    __slots__ = ()

    def _b(self, o, f):
        t = SRing._co(o)
        return NotImplemented if t is None else SNum(f(self.t, t))

    def __neg__(self):
        return SNum(-self.t)

    def __bool__(self):
        return current().decide(self.t != 0)

    def __eq__(self, o):
        t = SRing._co(o)
        return False if t is None else mkbool(self.t == t)

    def __ne__(self, o):
        t = SRing._co(o)
        return True if t is None else mkbool(self.t != t)

    @staticmethod
    def _num(o):
        t = SRing._co(o)
        if t is None and isinstance(o, float) and o == o and o not in (float('inf'), float('-inf')):
            from fractions import Fraction
            fr = Fraction(o)                     # the float's exact value (comparisons of reals, no rounding involved)
            t = z3.RealVal(f'{fr.numerator}/{fr.denominator}')
        if t is None:
            raise OutOfSubset('number compared with a value of an unmodelled kind')
        return t

    def __lt__(self, o):
        return mkbool(self.t < SNum._num(o))

    def __gt__(self, o):
        return mkbool(self.t > SNum._num(o))

    def __le__(self, o):
        return mkbool(self.t <= SNum._num(o))

    def __ge__(self, o):
        return mkbool(self.t >= SNum._num(o))

    def __abs__(self):
        return SNum(z3.If(self.t >= 0, self.t, -self.t))


# ------------------------------------------------------------------ characters / strings
class SChar(Sym):
    __slots__ = ('c',)

    def __init__(self, c):
        self.c = c

    def __eq__(self, o):
        if isinstance(o, SChar):
            return mkbool(self.c == o.c)
        if isinstance(o, str):
            raise OutOfSubset('abstract spelling character compared with a literal')
        return False

    def __ne__(self, o):
        r = self.__eq__(o)
        return (~r) if isinstance(r, SBool) else (not r)

    def __repr__(self):
        return f'SChar({self.c})'


class SStr(Sym):
    __slots__ = ('t',)

    def __init__(self, t):
        if isinstance(t, str):
            t = z3.StringVal(t)
        self.t = t

    @staticmethod
    def _co(o):
        if isinstance(o, SStr):
            return o.t
        if isinstance(o, str):
            return z3.StringVal(o)
        return None

    def __add__(self, o):
        t = SStr._co(o)
        return NotImplemented if t is None else type(self)(z3.Concat(self.t, t))

    def __radd__(self, o):
        t = SStr._co(o)
        return NotImplemented if t is None else type(self)(z3.Concat(t, self.t))

    def __eq__(self, o):
        t = SStr._co(o)
        return False if t is None else mkbool(self.t == t)

    def __ne__(self, o):
        t = SStr._co(o)
        return True if t is None else mkbool(self.t != t)

    def length(self):
        return SInt(z3.Length(self.t))

    def __getitem__(self, item):
        ctx = current()
        n = z3.Length(self.t)
        if isinstance(item, slice):
            if item.step is not None:
                raise OutOfSubset('string slice with step')
            lo, hi = item.start, item.stop
            if hi is None and isinstance(lo, int) and lo >= 0:
                # s[lo:] ; Python clips: empty when lo >= len
                return SStr(z3.SubString(self.t, z3.IntVal(lo), n))
            if lo is None and isinstance(hi, int) and hi >= 0:
                return SStr(z3.SubString(self.t, z3.IntVal(0), z3.If(n < hi, n, z3.IntVal(hi))))
            raise OutOfSubset('string slice form')
        if isinstance(item, int) and item >= 0:
            ctx.safety('IndexError: string index out of range', n > item)
            return SStr(z3.SubString(self.t, z3.IntVal(item), z3.IntVal(1)))
        raise OutOfSubset('string index form')

    def __bool__(self):
        return current().decide(z3.Length(self.t) > 0)

    def __str__(self):
        raise OutOfSubset('str() of symbolic string outside the interpreter')

    def __repr__(self):
        return f'SStr({self.t})'


MERGEABLE = (SBool, SKey, SInt, SSign, SRing, SStr, SChar)


def merge(cond, a, b):
    """ite(cond, a, b) for two values of the same mergeable symbolic class (or None)."""
    if a is b:
        return a
    if isinstance(a, bool) and isinstance(b, (bool, SBool)) or isinstance(b, bool) and isinstance(a, SBool):
        return mkbool(z3.If(cond, tobool(a), tobool(b)))
    if isinstance(a, SBool) and isinstance(b, SBool):
        return mkbool(z3.If(cond, a.t, b.t))
    if isinstance(a, int) and not isinstance(a, bool) and isinstance(b, SKey):
        a = SKey.const(a)
    if isinstance(b, int) and not isinstance(b, bool) and isinstance(a, SKey):
        b = SKey.const(b)
    if isinstance(a, SKey) and isinstance(b, SKey):
        return SKey(z3.If(cond, a.t, b.t), min(a.lo, b.lo), max(a.hi, b.hi))
    if isinstance(a, int) and not isinstance(a, bool) and isinstance(b, SInt):
        a = SInt(z3.IntVal(a))
    if isinstance(b, int) and not isinstance(b, bool) and isinstance(a, SInt):
        b = SInt(z3.IntVal(b))
    if isinstance(a, SInt) and isinstance(b, SInt):
        return SInt(z3.If(cond, a.t, b.t))
    if isinstance(a, SSign) and isinstance(b, SSign):
        return SSign(z3.If(cond, a.z, b.z), z3.If(cond, a.n, b.n))
    if isinstance(a, SRing) and isinstance(b, SRing):
        return type(a)(z3.If(cond, a.t, b.t)) if type(a) is type(b) else SRing(z3.If(cond, a.t, b.t))
    if isinstance(a, SStr) and isinstance(b, SStr) and type(a) is type(b):
        return type(a)(z3.If(cond, a.t, b.t))
    if hasattr(a, 'kvc_merge') and type(a) is type(b):
        return a.kvc_merge(cond, b)
    return None
