"""Discharge obligations: one SMT query per obligation, process pool, z3 5.x first, then
cvc5 CLI and z3 4.8 CLI on `unknown`.  Verdicts: 'unsat' (discharged), 'sat' (refuted, with model),
'unknown' (undecided -- never reported as a violation)."""
import os
import subprocess
import tempfile
import time

NPROC = int(os.environ.get('KVC_NPROC', '16'))


def _model_dict(m):
    out = {}
    for d in m.decls():
        try:
            if d.arity() == 0:
                out[d.name()] = str(m[d])
            else:
                out[d.name()] = str(m[d])[:400]
        except Exception:
            pass
    return out


def _solve_one(job):
    name, smt2, timeout_ms, want_fallback = job
    import z3
    t0 = time.time()
    res = {'name': name, 'backend': 'z3-' + z3.get_version_string(), 'model': None}
    try:
        s = z3.Solver()
        s.set('timeout', int(timeout_ms))
        s.from_string(smt2)
        r = s.check()
        v = str(r)
        if r == z3.sat:
            res['model'] = _model_dict(s.model())
        if r == z3.unknown:
            res['reason'] = s.reason_unknown()
    except Exception as e:     # parser problems etc.: undecided, never a violation
        v = 'unknown'
        res['reason'] = f'z3 api error: {e}'
    res['verdict'] = v
    res['time'] = time.time() - t0
    if v == 'unknown' and want_fallback:
        for backend, cmd in (('cvc5-cli', ['/usr/bin/cvc5', '--strings-exp', f'--tlimit={int(timeout_ms)}', '--produce-models']),
                             ('z3-4.8-cli', ['/usr/bin/z3', f'-T:{max(1, int(timeout_ms / 1000))}'])):
            if not os.path.exists(cmd[0]):
                continue
            t1 = time.time()
            with tempfile.NamedTemporaryFile('w', suffix='.smt2', delete=False, dir=os.environ.get('KVC_TMP', None)) as f:
                if backend.startswith('cvc5'):
                    f.write('(set-logic ALL)\n')
                f.write(smt2)
                if '(check-sat)' not in smt2:
                    f.write('\n(check-sat)\n')
                fn = f.name
            try:
                p = subprocess.run(cmd + [fn], capture_output=True, text=True, timeout=timeout_ms / 1000 + 10)
                out = p.stdout.strip().splitlines()
                first = out[0].strip() if out else ''
                if first in ('sat', 'unsat'):
                    res['verdict'] = first
                    res['backend'] = backend
                    res['time'] += time.time() - t1
                    break
            except Exception:
                pass
            finally:
                try:
                    os.unlink(fn)
                except OSError:
                    pass
    return res


def _worker_main():
    """Entry point of a worker process: reads a pickle of jobs from argv[1], writes results to argv[2]."""
    import pickle, sys
    jobs = pickle.load(open(sys.argv[1], 'rb'))
    out = [_solve_one(j) for j in jobs]
    pickle.dump(out, open(sys.argv[2], 'wb'))


def shutdown():
    pass


def discharge(jobs, timeout_ms=20000, fallback=True, parallel=True):
    """jobs: list of (name, smt2).  Returns list of result dicts in the same order.
    Parallelism: NPROC worker processes (`python -m kvc.discharge in out`), jobs dealt round-robin."""
    import pickle, sys, shutil
    packed = [(n, s, timeout_ms, fallback) for n, s in jobs]
    if not packed:
        return []
    if not parallel or len(packed) < 4 or NPROC <= 1:
        return [_solve_one(j) for j in packed]
    nw = min(NPROC, len(packed))
    tmp = tempfile.mkdtemp(prefix='kvc-', dir=os.environ.get('KVC_TMP', None))
    try:
        procs = []
        for w in range(nw):
            sl = packed[w::nw]
            fi, fo = os.path.join(tmp, f'in{w}.pkl'), os.path.join(tmp, f'out{w}.pkl')
            pickle.dump(sl, open(fi, 'wb'))
            env = dict(os.environ)
            env['PYTHONPATH'] = os.path.dirname(os.path.dirname(os.path.abspath(__file__))) + os.pathsep + env.get('PYTHONPATH', '')
            procs.append((w, fo, subprocess.Popen([sys.executable, '-m', 'kvc.discharge', fi, fo], env=env)))
        results = [None] * len(packed)
        for w, fo, p in procs:
            p.wait()
            if p.returncode != 0 or not os.path.exists(fo):
                # a crashed worker leaves its jobs undecided (never a violation)
                for idx in range(w, len(packed), nw):
                    results[idx] = {'name': packed[idx][0], 'verdict': 'unknown', 'backend': 'worker-crash',
                                    'time': 0.0, 'model': None, 'reason': f'worker exit {p.returncode}'}
                continue
            out = pickle.load(open(fo, 'rb'))
            for j, r in zip(range(w, len(packed), nw), out):
                results[j] = r
        return results
    finally:
        shutil.rmtree(tmp, ignore_errors=True)


if __name__ == '__main__':
    _worker_main()
