"""Replay of counter-models on the real code.

A refuted obligation of an operator contract carries a model with the algebra size N = 2**d and the blade keys
involved.  The model is first *minimised in the dimension* (re-solving the same query with N <= 2**k for growing k:
kingdon algebras above ~8 dimensions cannot be instantiated eagerly), then turned into concrete runs of the real
operator on those blades (and small multivectors containing them) in several signatures of that dimension, compared
with the independent reference (standins/oracle.py).  Returns the first failing input, if any."""
import re
import itertools
import z3

from . import nativerun


def _parse_int(s):
    try:
        return int(s)
    except Exception:
        m = re.match(r'#x([0-9a-fA-F]+)', str(s))
        if m:
            return int(m.group(1), 16)
        m = re.match(r'#b([01]+)', str(s))
        if m:
            return int(m.group(1), 2)
    return None


def minimize_dimension(smt2, nvar='alg_N', maxd=8, timeout_ms=20000):
    """Smallest k <= maxd such that the query stays satisfiable with N == 2**k; returns (k, model dict) or (None, None)."""
    for k in range(0, maxd + 1):
        s = z3.Solver()
        s.set('timeout', timeout_ms)
        s.from_string(smt2)
        consts = {}
        for a in s.assertions():
            stack = [a]
            seen = set()
            while stack:
                t = stack.pop()
                if t.get_id() in seen:
                    continue
                seen.add(t.get_id())
                if z3.is_const(t) and t.decl().kind() == z3.Z3_OP_UNINTERPRETED:
                    consts[t.decl().name()] = t
                stack.extend(t.children())
        if nvar not in consts:
            return None, None
        N = consts[nvar]
        s.add(N == z3.BitVecVal(1 << k, N.size()))
        if s.check() == z3.sat:
            m = s.model()
            out = {}
            for d in m.decls():
                out[d.name()] = str(m[d])
            return k, out
    return None, None


def signatures_for(d, limit=6):
    if d <= 2:
        return [list(s) for s in itertools.product([1, -1, 0], repeat=d)] or [[]]
    base = [[1] * d, [1] * (d - 1) + [-1], [0] + [1] * (d - 1), [-1] * d, [1, -1] * (d // 2) + [1] * (d % 2), [0, 0] + [1] * (d - 2)]
    return base[:limit]


def _else_value(fn_str):
    m = re.search(r'else -> ([^\],]+)', fn_str or '')
    return _parse_int(m.group(1).strip()) if m else None


def operator_replay(op, smt2, model, binary=True, extra_ops=()):
    """Run the real operator on the blades of the (dimension-minimised) counter-model."""
    k, m = minimize_dimension(smt2)
    if k is None:
        return {'note': 'counter-model could not be reduced to a dimension <= 8; no native run attempted', 'solver_model': model}
    if binary:
        kx, ky = _parse_int(m.get('kx')), _parse_int(m.get('ky'))
        if kx is None or ky is None:
            return {'note': 'model has no blade keys', 'minimised_model': m}
        keysets = [([kx], [ky]), ([kx, 0] if kx else [kx], [ky]), ([kx], sorted({ky, (1 << k) - 1}))]
    else:
        kx = _else_value(m.get('x_key'))
        if kx is None:
            return {'note': 'model has no blade key', 'minimised_model': m}
        keysets = [([kx], None), (sorted({kx, 0}), None)]
    jobs = []
    for sig in signatures_for(k):
        for ak, bk in keysets:
            for o in (op,) + tuple(extra_ops):
                j = {'kind': 'case', 'config': {'signature': sig} if sig else {'p': 0}, 'op': o, 'a_keys': ak}
                if bk is not None:
                    j['b_keys'] = bk
                jobs.append(j)
    res = nativerun.run_jobs(jobs, timeout=300)
    for j, r in zip(jobs, res):
        if r.get('status') == 'ok' and r.get('failures'):
            f = r['failures'][0]
            f['config'] = j['config']
            return {'failing_input': f, 'dimension': k, 'minimised_model': {x: m.get(x) for x in ('alg_N', 'kx', 'ky', 'x_key') if x in m}}
    return {'note': f'no failing input among {len(jobs)} directed runs (dimension {k})', 'dimension': k,
            'minimised_model': {x: m.get(x) for x in ('alg_N', 'kx', 'ky', 'x_key') if x in m}}
