"""Mechanical extraction of the functions under contract from the working tree of /repo.

On every run the source file is re-read and parsed with `ast`; a function is located by its
qualified path, e.g. `Algebra._prepare_signs._compute_sign`, `codegen_op`, `MultiVector.__rxor__`
(class-level aliases such as `__xor__ = __rxor__ = op` are resolved from the class body, and
`partialmethod(f, k=v)` aliases are reported with their bound keywords).

What extraction drops: docstrings, type annotations and decorators (listed per function in the
evidence).  Nothing else: every statement and expression of the body is interpreted or makes the
function `out-of-subset`.
"""
import ast
import hashlib
import os

REPO = os.environ.get('KVC_REPO', '/repo')
_cache = {}


def module_ast(relpath):
    path = os.path.join(REPO, relpath)
    st = os.stat(path)
    key = (path, st.st_mtime_ns, st.st_size)
    if key not in _cache:
        src = open(path, encoding='utf-8').read()
        _cache[key] = (src, ast.parse(src, filename=path))
    return _cache[key]


class Extracted:
    def __init__(self, relpath, qualpath, node, src, alias_of=None, bound_kwargs=None, cls=None):
        self.relpath, self.qualpath, self.node = relpath, qualpath, node
        self.segment = ast.get_source_segment(src, node) or ''
        self.sha256 = hashlib.sha256(self.segment.encode()).hexdigest()
        self.lineno = node.lineno
        self.end_lineno = node.end_lineno
        self.alias_of = alias_of
        self.bound_kwargs = bound_kwargs or {}
        self.cls = cls
        self.decorators = [ast.unparse(d) for d in getattr(node, 'decorator_list', [])]

    def describe(self):
        d = {'file': self.relpath, 'function': self.qualpath, 'lines': [self.lineno, self.end_lineno],
             'sha256': self.sha256[:16]}
        if self.alias_of:
            d['alias_of'] = self.alias_of
        if self.decorators:
            d['dropped_decorators'] = self.decorators
        return d


class NotFound(Exception):
    pass


def _find_in_body(body, name):
    """Return ('def', node) | ('alias', target_name, kwargs) | None for `name` in a class/module body
    (the last binding wins, as at run time)."""
    found = None
    for st in body:
        if isinstance(st, (ast.FunctionDef, ast.ClassDef)) and st.name == name:
            found = ('def', st)
        elif isinstance(st, ast.Assign):
            names = [t.id for t in st.targets if isinstance(t, ast.Name)]
            if name in names:
                v = st.value
                if isinstance(v, ast.Name):
                    found = ('alias', v.id, {})
                elif (isinstance(v, ast.Call) and isinstance(v.func, ast.Name) and v.func.id == 'partialmethod'
                      and v.args and isinstance(v.args[0], ast.Name)):
                    kw = {k.arg: ast.literal_eval(k.value) for k in v.keywords}
                    found = ('alias', v.args[0].id, kw)
                elif isinstance(v, ast.Lambda):
                    found = ('def', v)
                else:
                    found = ('other', st)
        elif isinstance(st, (ast.If, ast.Try)):
            # module-level conditional definitions (e.g. the cached_property fallback)
            for sub in ast.iter_child_nodes(st):
                pass
    return found


def extract(relpath, qualpath, _depth=0):
    src, tree = module_ast(relpath)
    parts = qualpath.split('.')
    body = tree.body
    node = None
    cls = None
    alias_of = None
    kwargs = {}
    for i, p in enumerate(parts):
        if p.startswith('<lambda#'):
            k = int(p[len('<lambda#'):-1])
            lambdas = [n for n in ast.walk(node) if isinstance(n, ast.Lambda)]
            lambdas.sort(key=lambda n: (n.lineno, n.col_offset))
            if k >= len(lambdas):
                raise NotFound(f'{relpath}:{qualpath}: no lambda #{k}')
            node = lambdas[k]
            body = []
            continue
        hops = 0
        name = p
        while True:
            f = _find_in_body(body, name)
            if f is None and i == 0 and hops == 0 and _depth < 3:
                # defined in another module of the package and imported here under this name: follow the import
                imp = module_imports(relpath, package_relative=True).get(name)
                if imp and imp[1] and imp[0].split('.')[0] == 'kingdon':
                    rel2 = imp[0].replace('.', '/') + '.py'
                    if os.path.exists(os.path.join(REPO, rel2)):
                        return extract(rel2, '.'.join([imp[1]] + parts[1:]), _depth + 1)
            if f is None:
                raise NotFound(f'{relpath}: {qualpath}: `{name}` not found')
            if f[0] == 'alias':
                alias_of = f[1]
                kwargs.update(f[2])
                name = f[1]
                hops += 1
                if hops > 5:
                    raise NotFound(f'{relpath}:{qualpath}: alias cycle')
                continue
            if f[0] == 'other' and i == 0:
                # module-level alias of a static method: `name = Class.method` with `@staticmethod def method(...)` (a plain
                # function as far as its body is concerned)
                v = f[1].value
                if isinstance(v, ast.Attribute) and isinstance(v.value, ast.Name):
                    c = _find_in_body(tree.body, v.value.id)
                    if c and c[0] == 'def' and isinstance(c[1], ast.ClassDef):
                        m = _find_in_body(c[1].body, v.attr)
                        if (m and m[0] == 'def' and isinstance(m[1], ast.FunctionDef)
                                and [ast.unparse(d) for d in m[1].decorator_list] == ['staticmethod']):
                            alias_of = f'{v.value.id}.{v.attr}'
                            node = m[1]
                            break
            if f[0] == 'other':
                raise NotFound(f'{relpath}: {qualpath}: `{name}` is bound to an unsupported expression: '
                               f'{ast.unparse(f[1])[:80]}')
            node = f[1]
            break
        if isinstance(node, ast.ClassDef):
            cls = node
        body = getattr(node, 'body', [])
        if not isinstance(body, list):
            body = []
    return Extracted(relpath, qualpath, node, src, alias_of=alias_of, bound_kwargs=kwargs, cls=cls)


def class_fields(relpath, clsname):
    """Dataclass fields of a class with their `field(...)` keyword arguments (for __eq__ modelling)."""
    src, tree = module_ast(relpath)
    for st in tree.body:
        if isinstance(st, ast.ClassDef) and st.name == clsname:
            out = []
            for b in st.body:
                if isinstance(b, ast.AnnAssign) and isinstance(b.target, ast.Name):
                    kw = {}
                    v = b.value
                    if isinstance(v, ast.Call):
                        fn = ast.unparse(v.func)
                        kw['__call__'] = fn
                        for k in v.keywords:
                            try:
                                kw[k.arg] = ast.literal_eval(k.value)
                            except Exception:
                                kw[k.arg] = ast.unparse(k.value)
                    out.append((b.target.id, kw))
            return st, out
    raise NotFound(f'{relpath}: class {clsname}')


def class_info(relpath, clsname):
    """(names of the functions defined directly in the class body, names of its base classes) from the current source"""
    src, tree = module_ast(relpath)
    for st in tree.body:
        if isinstance(st, ast.ClassDef) and st.name == clsname:
            meths = [x.name for x in st.body if isinstance(x, (ast.FunctionDef, ast.AsyncFunctionDef))]
            bases = [b.id for b in st.bases if isinstance(b, ast.Name)]
            return meths, bases
    return [], []


def module_imports(relpath, package_relative=False):
    """{local name: (module, attribute or None)} for the module-level import statements of the file"""
    src, tree = module_ast(relpath)
    out = {}
    for st in tree.body:
        if isinstance(st, ast.Import):
            for a in st.names:
                out[a.asname or a.name.split('.')[0]] = (a.name if a.asname else a.name.split('.')[0], None)
        elif isinstance(st, ast.ImportFrom) and st.module and st.level == 0:
            for a in st.names:
                out[a.asname or a.name] = (st.module, a.name)
        elif package_relative and isinstance(st, ast.ImportFrom) and st.module and st.level == 1:
            pkg = os.path.dirname(relpath).replace('/', '.')
            for a in st.names:
                out[a.asname or a.name] = (pkg + '.' + st.module, a.name)
    return out


def module_constant(relpath, name):
    """value of a module-level `NAME = <literal>` assignment (numbers, strings, tuples / lists / dicts of literals), else NotImplemented"""
    src, tree = module_ast(relpath)
    found = NotImplemented
    for st in tree.body:
        if isinstance(st, ast.Assign) and len(st.targets) == 1 and isinstance(st.targets[0], ast.Name) and st.targets[0].id == name:
            try:
                found = ast.literal_eval(st.value)
            except Exception:
                found = NotImplemented
    return found


_MUTATORS = {'update', 'setdefault', 'pop', 'popitem', 'clear', 'append', 'extend', 'insert', 'remove', 'add', 'discard',
             'sort', 'reverse', '__setitem__', '__delitem__'}


def module_state_mutated(relpath, name):
    """True when the module stores into the module-level container `name` anywhere (subscript store / del, a mutating method
    call, augmented assignment, `global name`).  Such a container is *state*: its contents at the entry of a function are
    whatever earlier calls left there, not the literal it was initialised with."""
    src, tree = module_ast(relpath)
    for n in ast.walk(tree):
        if isinstance(n, ast.Subscript) and isinstance(n.value, ast.Name) and n.value.id == name \
                and isinstance(n.ctx, (ast.Store, ast.Del)):
            return True
        if isinstance(n, ast.Call) and isinstance(n.func, ast.Attribute) and isinstance(n.func.value, ast.Name) \
                and n.func.value.id == name and n.func.attr in _MUTATORS:
            return True
        if isinstance(n, ast.AugAssign) and isinstance(n.target, ast.Name) and n.target.id == name:
            return True
        if isinstance(n, ast.Global) and name in n.names:
            return True
    return False


_nt_cache = {}


def module_namedtuple(relpath, name):
    """A module-level `class name(NamedTuple):` whose body is field annotations (optionally with literal defaults) and a
    docstring: returned as the equivalent collections.namedtuple; anything else -> None."""
    src, tree = module_ast(relpath)
    key = (relpath, name, hash(src))
    if key in _nt_cache:
        return _nt_cache[key]
    res = None
    for st in tree.body:
        if isinstance(st, ast.ClassDef) and st.name == name and [ast.unparse(b) for b in st.bases] in (['NamedTuple'], ['typing.NamedTuple']) \
                and not st.decorator_list:
            fields, defaults, ok = [], [], True
            for b in st.body:
                if isinstance(b, ast.Expr) and isinstance(b.value, ast.Constant) and isinstance(b.value.value, str):
                    continue
                if isinstance(b, ast.AnnAssign) and isinstance(b.target, ast.Name):
                    fields.append(b.target.id)
                    if b.value is not None:
                        try:
                            defaults.append(ast.literal_eval(b.value))
                        except Exception:
                            ok = False
                    elif defaults:
                        ok = False
                else:
                    ok = False
            if ok and fields:
                import collections
                res = collections.namedtuple(name, fields, defaults=defaults or None)
    _nt_cache[key] = res
    return res
