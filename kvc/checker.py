"""Property check driver: builds the obligations of a property from /repo's current source, discharges
them, runs the bounded stand-ins, replays refutations on the real code, applies known findings, writes the
evidence file and returns the exit code (0 held / 1 violation / 2 undecided-only is mapped to 0 with
a downgrade note / 3 checker fault)."""
import importlib
import json
import os
import re
import sys
import time
import traceback
import random

import z3

from .harness import Harness
from . import nativerun
from . import extract as X

VERIF = os.path.dirname(os.path.dirname(os.path.abspath(__file__)))
QUICK_TIMEOUT_MS = int(os.environ.get('KVC_QUICK_TIMEOUT_MS', '30000'))
THOROUGH_TIMEOUT_MS = int(os.environ.get('KVC_THOROUGH_TIMEOUT_MS', '180000'))


def load_known():
    p = os.path.join(VERIF, 'known_findings.json')
    if not os.path.exists(p):
        return []
    return json.load(open(p)).get('findings', [])


def _match(pattern, text):
    return re.search(pattern, text) is not None


def finding_matches_obligation(f, name):
    return f.get('status') == 'known' and 'match_obligation' in f and _match(f['match_obligation'], name)


def finding_matches_failure(f, rec):
    if f.get('status') != 'known' or 'match_failure' not in f:
        return False
    for k, pat in f['match_failure'].items():
        v = rec
        for part in k.split('.'):
            v = v.get(part) if isinstance(v, dict) else None
        if v is None or not _match(pat, json.dumps(v) if not isinstance(v, str) else v):
            return False
    return True


# evidence and replay files go to /verif unless the seeded-change audit redirects them (KVC_OUT), so that runs against a
# deliberately broken scratch copy never overwrite the evidence of the real tree
OUTDIR = os.environ.get('KVC_OUT') or VERIF


def write_replay(pid, kind, payload):
    d = os.path.join(OUTDIR, 'replays')
    os.makedirs(d, exist_ok=True)
    path = os.path.join(d, f'{pid}-{kind}-{int(time.time() * 1000) % 10**10}.json')
    json.dump(payload, open(path, 'w'), indent=1, default=str)
    return path


def _isolate_contracts():
    """A function under contract that can no longer be located (renamed, moved into a class, rebound to something the extractor
    does not follow) makes *that contract* undecided; the other contracts of the property are still generated."""
    import functools
    for mname, m in list(sys.modules.items()):
        if not (mname.startswith('contracts.') or mname.startswith('lemmas.')):
            continue
        for n, f in list(vars(m).items()):
            if n.startswith('vc_') and callable(f) and not getattr(f, '_kvc_isolated', False):
                def make(f=f, n=n):
                    @functools.wraps(f)
                    def w(H, *a, **k):
                        try:
                            return f(H, *a, **k)
                        except X.NotFound as e:
                            H.out_of_subset.append((n, str(e)))
                    w._kvc_isolated = True
                    return w
                setattr(m, n, make())


def run_property(pid, tier='quick', seed=0, out=sys.stdout):
    t_start = time.time()
    mod = importlib.import_module(f'props.{pid}')
    known = [f for f in load_known() if f.get('property') == pid]
    H = Harness(tier)
    H.property_id = pid
    rng = random.Random(seed)
    faults = []
    # ------------------------------------------------------------------ 1. generate obligations from the real source
    _isolate_contracts()
    try:
        mod.build(H, tier, seed)
    except X.NotFound as e:
        # a function under contract disappeared / was renamed: out-of-subset for the whole contract
        H.out_of_subset.append(('extract', str(e)))
    except Exception:
        faults.append('VC generation crashed:\n' + traceback.format_exc()[-1500:])
    for v in H.vacuous:
        faults.append(f'run produced no obligations (vacuous): {v}')
    # covers: one per (function, label) group -- the path condition must be satisfiable
    covers = []
    seen = set()
    for name, smt2, meta in H.obls:
        grp = name.rsplit('/', 1)[0]
        if smt2 is None or grp in seen or meta.get('kind') == 'lemma':
            continue
        seen.add(grp)
        covers.append(('COVER ' + grp, _cover_of(smt2)))
    timeout = QUICK_TIMEOUT_MS if tier == 'quick' else THOROUGH_TIMEOUT_MS
    results, solver_wall = ([], 0.0)
    if not faults:
        try:
            results, solver_wall = H.discharge(timeout)
        except Exception:
            faults.append('discharge crashed:\n' + traceback.format_exc()[-1500:])
    cover_res = []
    if covers and not faults:
        from . import discharge as D
        cover_res = D.discharge(covers, timeout_ms=min(timeout, 20000), fallback=False)
        for r in cover_res:
            if r['verdict'] == 'unsat':
                faults.append(f'vacuous precondition: {r["name"]}')
    # canaries (lemmas named CANARY must be refuted)
    refuted, undecided, discharged = [], [], []
    for r in results:
        nm = r['name']
        if nm.split('/')[-1].startswith('CANARY') or nm.startswith('CANARY'):
            if r['verdict'] == 'unsat':
                faults.append(f'canary passed (engine or hypotheses unsound): {nm}')
            continue
        if r['verdict'] == 'unsat':
            discharged.append(r)
        elif r['verdict'] == 'sat':
            refuted.append(r)
        else:
            undecided.append(r)
    n_obl = len(discharged) + len(refuted) + len(undecided)
    if n_obl == 0 and not H.out_of_subset and not faults and getattr(mod, 'EXPECT_OBLIGATIONS', True):
        faults.append('zero obligations generated')
    # ------------------------------------------------------------------ 2. bounded stand-ins on the real code
    standin_reports = []
    standin_failures = []
    try:
        jobs = mod.standins(tier, seed) if hasattr(mod, 'standins') else []
    except Exception:
        jobs = []
        faults.append('stand-in construction crashed:\n' + traceback.format_exc()[-1500:])
    t_st = time.time()
    if jobs:
        res = nativerun.run_jobs([j['job'] for j in jobs], timeout=getattr(mod, 'STANDIN_TIMEOUT', 1500))
        for j, r in zip(jobs, res):
            rep = {'name': j['name'], 'bound': j['bound'], 'status': r.get('status')}
            if r.get('status') != 'ok':
                rep['error'] = r.get('error', '')[:600]
                faults.append(f'stand-in {j["name"]} did not complete: {r.get("status")} {r.get("error", "")[-300:]}')
            else:
                rep.update({k: r.get(k) for k in ('evaluations', 'distinct', 'configs', 'wall_s') if k in r})
                rep['samples'] = r.get('samples', [])[:3]
                for frec in r.get('failures', []):
                    standin_failures.append((j['name'], frec))
            standin_reports.append(rep)
    standin_wall = time.time() - t_st
    # ------------------------------------------------------------------ 3. verdicts
    lines = []
    violations = []
    known_hit = []
    for r in refuted:
        kf = [f for f in known if finding_matches_obligation(f, r['name'])]
        if kf:
            known_hit.append((kf[0], r['name']))
            continue
        # replay: model-directed cases from the property module, else the stand-in failures found above
        rp = None
        if hasattr(mod, 'replay'):
            try:
                smt2 = next((s2 for n2, s2, m2 in H.obls if n2 == r['name']), None)
                rp = mod.replay(r, tier, seed, smt2)
            except Exception:
                rp = {'error': traceback.format_exc()[-800:]}
        failing = (rp or {}).get('failing_input')
        if not failing:
            rel = [f for n, f in standin_failures if not any(finding_matches_failure(k, f) for k in known)]
            failing = rel[0] if rel else None
        payload = {'property': pid, 'tier': tier, 'seed': seed, 'obligation': r['name'], 'verdict': 'refuted', 'backend': r.get('backend'),
                   'solver_model': r.get('model'), 'replay': rp, 'failing_input': failing,
                   'note': 'counter-model of the verification condition generated from the current source of /repo'}
        path = write_replay(pid, 'obligation', payload)
        violations.append((path, failing is not None))
    used_fail = set()
    for nm, frec in standin_failures:
        kf = [f for f in known if finding_matches_failure(f, frec)]
        if kf:
            known_hit.append((kf[0], f'{nm}: {json.dumps(frec, default=str)[:160]}'))
            continue
        if violations:
            continue        # already reported through the refuted obligation
        key = json.dumps(frec, sort_keys=True, default=str)[:400]
        if key in used_fail:
            continue
        used_fail.add(key)
        if len(used_fail) > 3:
            continue
        path = write_replay(pid, 'standin', {'property': pid, 'tier': tier, 'seed': seed, 'standin': nm, 'failing_input': frec,
                                             'note': 'bounded stand-in: the real code disagrees with the reference on this input'})
        violations.append((path, True))
    seen_k = set()
    for f, what in known_hit:
        if f['id'] in seen_k:
            continue
        seen_k.add(f['id'])
        lines.append(f'KNOWN-FINDING: property={pid} {f["id"]}: {f["what"]}')
    for path, has_input in violations:
        lines.append(f'VIOLATION property={pid} replay={path}' + ('' if has_input else ' no-failing-input-found'))
    # ------------------------------------------------------------------ 4. evidence
    level = getattr(mod, 'LEVEL', 'proof')
    downgraded = None
    if (undecided or H.out_of_subset) and level == 'proof':
        downgraded = 'other'
    per_backend = {}
    for r in discharged:
        per_backend[r.get('backend', '?')] = per_backend.get(r.get('backend', '?'), 0) + 1
    fu = []
    for key, f in H.functions.items():
        d = f.ex.describe()
        d['paths'] = f.paths
        if f.out_of_subset:
            d['out_of_subset'] = f.out_of_subset
        fu.append(d)
    samples = [{'obligation': r['name'], 'verdict': r['verdict'], 'backend': r.get('backend'), 'time_s': round(r.get('time', 0), 3)}
               for r in (sorted(discharged, key=lambda r: -r.get('time', 0))[:4] + discharged[:3])]
    for rep in standin_reports[:2]:
        for s in rep.get('samples', [])[:1]:
            samples.append({'standin': rep['name'], 'case': s})
    n_eval = sum(r.get('evaluations') or 0 for r in standin_reports)
    n_dist = sum((r.get('distinct') or 0) for r in standin_reports)
    cov = {
        'obligations': n_obl,
        'discharged': len(discharged),
        'refuted': len(refuted),
        'undecided': [{'obligation': r['name'], 'reason': r.get('reason', '')[:200]} for r in undecided],
        'checker_cmd': f'./check {pid} --tier {tier}',
        'trusted_base': getattr(mod, 'TRUSTED', []),
        'explanation': getattr(mod, 'EXPLANATION', ''),
        'functions_under_contract': fu,
        'per_backend': per_backend,
        'solver_s': round(sum(r.get('time', 0) for r in results), 2),
        'solver_wall_s': round(solver_wall, 2),
        'vc_generation_s': round(H.t_gen, 2),
        'out_of_subset': [{'where': a, 'why': b} for a, b in H.out_of_subset],
        'covers_checked': len(cover_res),
        'standins': standin_reports,
        'standin_wall_s': round(standin_wall, 2),
        'assumed_contracts': getattr(mod, 'ASSUMED', []),
        'samples': samples or [{'note': 'no obligations'}],
        'evaluations': max(n_eval, 1),
        'distinct_nontrivial': max(n_dist, 2) if n_dist else 2,
        'rule': 'stand-in cases are (configuration, operator, ordered key tuples); distinct = distinct such tuples; '
                'the counts of obligations/discharged are the deductive part',
        'known_findings_reported': sorted(seen_k),
        'inlined_helpers': list(H.notes),
        'checker_faults': faults,
    }
    if downgraded:
        cov['level_downgraded_this_run'] = f'{level} -> {downgraded}: undecided obligations or out-of-subset functions fell to the bounded stand-in'
    ev = {
        'property_id': pid, 'tier': tier, 'seed': seed, 'level': downgraded or level,
        'coverage': cov, 'assumptions': getattr(mod, 'ASSUMPTIONS', []),
        'wall_s': round(time.time() - t_start, 2), 'violations': len(violations),
    }
    os.makedirs(os.path.join(OUTDIR, 'evidence'), exist_ok=True)
    json.dump(ev, open(os.path.join(OUTDIR, 'evidence', f'{pid}.json'), 'w'), indent=1, default=str)
    for ln in lines:
        print(ln, file=out)
    summary = (f'{pid} [{tier}] obligations={n_obl} discharged={len(discharged)} refuted={len(refuted)} '
               f'undecided={len(undecided)} out_of_subset={len(H.out_of_subset)} standin_evals={n_eval} '
               f'standin_failures={len(standin_failures)} known={len(seen_k)} wall={ev["wall_s"]}s')
    print(summary, file=out)
    if faults:
        for f in faults:
            print('CHECKER-FAULT: ' + f, file=out)
    if violations:
        return 1
    if faults:
        return 3
    return 0


def _cover_of(smt2):
    """Turn `pc and not goal` into `pc` (drops the last assertion, which is the negated goal)."""
    idx = smt2.rfind('(assert')
    j = smt2.find('(check-sat)', idx)
    return smt2[:idx] + smt2[j:]


def replay_file(path):
    """./check --replay <file>: re-decide exactly what a replay file records, on the current tree.
    obligation replay: the VCs of the property are regenerated from the current source, the named obligation is discharged again;
    stand-in replay: the named bounded job is run again with the recorded tier and seed.
    exit 1 (+ VIOLATION line) when the recorded failure is still there, 0 when it is gone, 3 when the record cannot be replayed."""
    rec = json.load(open(path))
    pid, tier, seed = rec.get('property'), rec.get('tier', 'quick'), int(rec.get('seed', 0))
    mod = importlib.import_module(f'props.{pid}')
    if rec.get('obligation'):
        H = Harness(tier)
        H.property_id = pid
        mod.build(H, tier, seed)
        want = rec['obligation']
        base = want.rsplit('#', 1)[0]
        cand = [(n, s2) for n, s2, m in H.obls if n == want] or [(n, s2) for n, s2, m in H.obls if n.rsplit('#', 1)[0] == base]
        if not cand:
            oos = [f'{a}: {b}' for a, b in H.out_of_subset]
            print(f'REPLAY property={pid} obligation not generated from the current source: {want}' + (f' (out-of-subset: {oos[:2]})' if oos else ''))
            return 3 if oos else 0
        from . import discharge as D
        still = []
        for n, s2 in cand:
            if s2 is None:
                continue            # trivially true after simplification
            r = D.discharge([(n, s2)], timeout_ms=THOROUGH_TIMEOUT_MS)[0]
            print(f'REPLAY {n}: {r["verdict"]}' + (f' model={str(r.get("model"))[:300]}' if r['verdict'] == 'sat' else ''))
            if r['verdict'] == 'sat':
                still.append(n)
        if still:
            print(f'VIOLATION property={pid} replay={path}' + ('' if rec.get('failing_input') else ' no-failing-input-found'))
            return 1
        print(f'REPLAY property={pid}: the recorded obligation is discharged on the current tree')
        return 0
    if rec.get('standin'):
        jobs = [j for j in mod.standins(tier, seed) if j['name'] == rec['standin']]
        if not jobs:
            print(f'REPLAY property={pid}: stand-in {rec["standin"]} does not exist for tier={tier}')
            return 3
        res = nativerun.run_jobs([jobs[0]['job']], timeout=getattr(mod, 'STANDIN_TIMEOUT', 1500))[0]
        if res.get('status') != 'ok':
            print(f'REPLAY property={pid}: stand-in did not complete: {res.get("status")}')
            return 3
        known = [f for f in load_known() if f.get('property') == pid]
        fails = [f for f in res.get('failures', []) if not any(finding_matches_failure(k, f) for k in known)]
        for f in fails[:3]:
            print('REPLAY failing input: ' + json.dumps(f, default=str)[:400])
        if fails:
            print(f'VIOLATION property={pid} replay={path}')
            return 1
        print(f'REPLAY property={pid}: stand-in {rec["standin"]} finds no failing input on the current tree ({res.get("evaluations")} evaluations)')
        return 0
    print('REPLAY: unrecognised replay file')
    return 3
