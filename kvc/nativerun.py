"""Launch standins/native.py jobs in /venv/bin/python subprocesses (the real kingdon package runs there)."""
import json
import os
import subprocess
import tempfile
import shutil
import time

VENV_PY = os.environ.get('KVC_VENV_PY', '/venv/bin/python')
HERE = os.path.dirname(os.path.dirname(os.path.abspath(__file__)))
NPROC = int(os.environ.get('KVC_NPROC', '16'))


def run_jobs(jobs, timeout=3600):
    """jobs: list of dicts.  Returns list of result dicts (status 'ok' | 'crash' | 'timeout')."""
    tmp = tempfile.mkdtemp(prefix='kvc-native-', dir=os.environ.get('KVC_TMP', None))
    results = [None] * len(jobs)
    try:
        pending = list(enumerate(jobs))
        running = []
        t0 = time.time()
        while pending or running:
            while pending and len(running) < NPROC:
                i, job = pending.pop(0)
                fi, fo = os.path.join(tmp, f'job{i}.json'), os.path.join(tmp, f'res{i}.json')
                json.dump(job, open(fi, 'w'))
                env = dict(os.environ)
                env.setdefault('KVC_REPO', '/repo')
                env['PYTHONDONTWRITEBYTECODE'] = '1'
                p = subprocess.Popen([VENV_PY, os.path.join(HERE, 'standins', 'native.py'), fi, fo],
                                     env=env, stdout=subprocess.PIPE, stderr=subprocess.PIPE, cwd=tmp)
                running.append((i, fo, p, time.time()))
            still = []
            for i, fo, p, ts in running:
                rc = p.poll()
                if rc is None:
                    if time.time() - ts > timeout:
                        p.kill()
                        results[i] = {'status': 'timeout'}
                    else:
                        still.append((i, fo, p, ts))
                    continue
                if os.path.exists(fo):
                    try:
                        results[i] = json.load(open(fo))
                        results[i]['wall_s'] = round(time.time() - ts, 1)
                    except Exception as e:
                        results[i] = {'status': 'crash', 'error': f'unreadable result: {e}'}
                else:
                    err = p.stderr.read().decode(errors='replace')[-1500:]
                    results[i] = {'status': 'crash', 'error': f'exit {rc}: {err}'}
            running = still
            if running:
                time.sleep(0.05)
        return results
    finally:
        shutil.rmtree(tmp, ignore_errors=True)
