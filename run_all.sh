#!/bin/sh
# run every registered check (quick by default) in parallel; prints one summary line per property
TIER=${1:-quick}
cd "$(dirname "$0")"
ids=$(python3 -c "import json;print(' '.join(c['property_id'] for c in json.load(open('MANIFEST.json'))['checks']))")
for id in $ids; do ( ./check $id --tier $TIER > /tmp/kvc_run_$id.log 2>&1; echo "$id exit=$? $(grep -E 'VIOLATION|KNOWN-FINDING|CHECKER-FAULT' /tmp/kvc_run_$id.log | head -3 | tr '\n' ' ') $(tail -1 /tmp/kvc_run_$id.log)" ) & done; wait
