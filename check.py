import os
import sys

HERE = os.path.dirname(os.path.abspath(__file__))
sys.path.insert(0, HERE)
os.chdir(HERE)


def main():
    args = sys.argv[1:]
    if not args:
        print('usage: check <property-id> [--tier quick|thorough] | --selftest [group] | --replay <file>')
        return 2
    tier = os.environ.get('VERIF_TIER', 'quick')
    if '--tier' in args:
        i = args.index('--tier')
        tier = args[i + 1]
        del args[i:i + 2]
    try:
        seed = int(os.environ.get('VERIF_SEED', '0'))
    except ValueError:
        seed = 0
    if args[0] == '--selftest':
        from kvc import selftest
        return selftest.main(args[1:])
    if args[0] == '--replay':
        from kvc.checker import replay_file
        try:
            return replay_file(args[1])
        except Exception:
            import traceback
            traceback.print_exc()
            print('CHECKER-FAULT: uncaught exception while replaying (this is not a property violation)')
            return 3
    from kvc.checker import run_property
    try:
        return run_property(args[0], tier, seed)
    except Exception:
        import traceback
        traceback.print_exc()
        print('CHECKER-FAULT: uncaught exception in the checker (this is not a property violation)')
        return 3


if __name__ == '__main__':
    sys.exit(main())
