"""Stand-in jobs: matrix representations (C18), series/roots/powers (C19), graph payload (C20)."""
import itertools
import random
import json
import math
from fractions import Fraction as F

from standins import oracle as O
from standins.native import (make_algebra, mv_from, todict, showmv, rand_keys, frac_vals)


def _safe(f):
    try:
        return ('value', f())
    except ZeroDivisionError:
        return ('raise', 'ZeroDivisionError')
    except Exception as e:
        return ('raise', type(e).__name__ + ':' + str(e)[:100])


# ------------------------------------------------------------------ C18
def job_matrix(job):
    import numpy as np
    import sympy
    from kingdon.multivector import MultiVector
    from kingdon.matrixreps import expr_as_matrix
    rng = random.Random(job.get('seed', 0))
    out = {'evaluations': 0, 'failures': [], 'samples': [], 'configs': 0}
    n = 0

    def fail(rec):
        cat = (rec.get('what'), str(rec.get('error'))[:40])
        seen[cat] = seen.get(cat, 0) + 1
        if seen[cat] <= 2:
            out['failures'].append(rec)
    for cfg in job['configs']:
        seen = {}
        try:
            alg = make_algebra(cfg)
        except Exception as _e:
            out['failures'].append({'config': cfg, 'what': 'constructing an admissible algebra raised', 'error': type(_e).__name__ + ': ' + str(_e)[:150]})
            continue
        out['configs'] += 1
        N = 2 ** alg.d
        # another algebra with the same numbers (p, q, r) of positive / negative / null generators in a different order asks for
        # its matrices first, in the same process: the matrices depend on the order of the signature, not only on the counts
        if alg.d >= 2 and not (cfg.get('basis') or cfg.get('name')):
            try:
                from kingdon import Algebra as _Alg
                sig_ = [int(x) for x in alg.signature]
                for rot in (sig_[1:] + sig_[:1], sig_[::-1]):
                    if rot != sig_:
                        _Alg(signature=rot, start_index=alg.start_index).matrix_basis
            except Exception:
                pass
        canon = list(alg.canon2bin.values())
        idx = {k: i for i, k in enumerate(canon)}
        MB = [np.array(m, dtype=float) for m in alg.matrix_basis]
        custom = bool(cfg.get('basis') or cfg.get('name'))
        # basis pairs (complete by linearity)
        for I in canon:
            col = MB[idx[I]][:, 0]
            exp = np.zeros(N)
            exp[idx[I]] = 1
            out['evaluations'] += 1
            if not np.array_equal(col, exp):
                fail({'config': cfg, 'custom_basis': custom, 'what': 'first column of the blade matrix is not its canonical unit vector', 'blade': alg.bin2canon[I]})
        pairs = list(itertools.product(canon, repeat=2))
        if len(pairs) > cfg.get('max_pairs', 1100):
            pairs = rng.sample(pairs, cfg.get('max_pairs', 1100))
        for I, J in pairs:
            out['evaluations'] += 1
            n += 1
            lhs = MB[idx[I]] @ MB[idx[J]]
            rhs = int(alg.signs[I, J]) * MB[idx[I ^ J]]
            if not np.array_equal(lhs, rhs):
                fail({'config': cfg, 'custom_basis': custom, 'what': 'blade matrices do not multiply like the blades', 'I': alg.bin2canon[I], 'J': alg.bin2canon[J]})
        # asmatrix / frommatrix on random multivectors
        for _ in range(cfg.get('random', 4)):
            ak, bk = rand_keys(rng, alg, 'sparse') or (0,), rand_keys(rng, alg, 'perm') or (0,)
            a = mv_from(alg, ak, [float(rng.randint(-5, 5)) for _ in ak])
            b = mv_from(alg, bk, [float(rng.randint(-5, 5)) for _ in bk])
            out['evaluations'] += 1
            A, B, AB = a.asmatrix(), b.asmatrix(), (a * b).asmatrix()
            ok_h = np.allclose(np.array(A, dtype=float) @ np.array(B, dtype=float), np.array(AB, dtype=float)) if (a * b).keys() else True
            ok_l = np.allclose(np.array((a + b).asmatrix(), dtype=float), np.array(A, dtype=float) + np.array(B, dtype=float))
            first = np.array(A, dtype=float)[:, 0]
            exp = np.array([float(dict(zip(a.keys(), a.values())).get(k, 0)) for k in canon])
            ok_c = np.allclose(first, exp)
            back = MultiVector.frommatrix(alg, np.array(A, dtype=float))
            ok_b = np.allclose(np.array(list(back.values()), dtype=float), exp) and tuple(back.keys()) == tuple(canon)
            for ok, what in ((ok_h, '(x*y).asmatrix() != x.asmatrix() @ y.asmatrix()'), (ok_l, 'asmatrix is not additive'),
                             (ok_c, 'first column of asmatrix is not the coefficient vector in canonical order'), (ok_b, 'frommatrix does not invert asmatrix')):
                if not ok:
                    fail({'config': cfg, 'custom_basis': custom, 'what': what, 'a': showmv(ak, a.values()), 'b': showmv(bk, b.values())})
        # expr_as_matrix for expressions linear in the last argument
        if cfg.get('expr', True) and alg.d <= 3:
            exprs = {'R>>x': lambda R, x: R >> x, 'R*x': lambda R, x: R * x, 'x*R': lambda R, x: x * R, 'R^x': lambda R, x: R ^ x,
                     'R|x + x': lambda R, x: (R | x) + x, '~x * R': lambda R, x: ~x * R,
                     '(R*x)/4': lambda R, x: (R * x) / 4, '0.5*(R>>x)': lambda R, x: 0.5 * (R >> x)}
            for name, f in exprs.items():
                for mode in ('symbolic', 'numeric', 'numeric-int', 'numeric-small', 'array'):
                    out['evaluations'] += 1
                    xk = tuple(alg.indices_for_grades[(1,)]) if rng.random() < 0.5 else tuple(rand_keys(rng, alg, 'sparse') or (1,))
                    x = alg.multivector(name='x', keys=xk)
                    rk = tuple(alg.indices_for_grades[tuple(range(0, alg.d + 1, 2))])
                    if mode == 'symbolic':
                        R = alg.multivector(name='R', keys=rk)
                    elif mode == 'numeric':
                        R = mv_from(alg, rk, [float(rng.randint(-3, 3)) for _ in rk])
                    elif mode == 'numeric-small':
                        # small magnitudes (exact binary fractions, so every product is exact): entries of A far below 1e-8 are still entries
                        sc = rng.choice([2.0 ** -30, 2.0 ** -40, 2.0 ** -60])
                        R = mv_from(alg, rk, [float(rng.randint(-3, 3) or 1) * sc for _ in rk])
                    elif mode == 'numeric-int':
                        R = mv_from(alg, rk, [int(rng.randint(-3, 3) or 1) for _ in rk])      # plain ints: the matrix must not inherit an integer dtype
                    else:
                        R = MultiVector.fromkeysvalues(alg, rk, [np.array([float(rng.randint(-3, 3)), float(rng.randint(-3, 3))]) for _ in rk])
                    res_like = None if rng.random() < 0.6 else alg.multivector(keys=tuple(rand_keys(rng, alg, 'sparse') or (1,)), values=None, name='q')
                    r = _safe(lambda: expr_as_matrix(f, R, x, res_like=res_like))
                    if r[0] != 'value':
                        fail({'config': cfg, 'what': 'expr_as_matrix raised', 'expr': name, 'mode': mode, 'error': r[1], 'x_keys': list(xk)})
                        continue
                    Amat, y = r[1]
                    if not y.keys():
                        continue        # the expression is identically zero for this x: nothing to relate
                    # check A . coefficients(x) == coefficients(y) at a random numeric point
                    env = {s: sympy.Rational(rng.randint(-4, 4), 1) for s in x.values()}
                    Renv = {}
                    if mode == 'symbolic':
                        Renv = {s: sympy.Rational(rng.randint(-3, 3), 1) for s in R.values()}
                    try:
                        if mode == 'array':
                            # metamorphic: element e of the array-valued result == the numeric result for R[e]
                            ok = True
                            for e in range(2):
                                Re = MultiVector.fromkeysvalues(alg, rk, [float(np.array(v).reshape(-1)[e]) for v in R.values()])
                                Ae, ye = expr_as_matrix(f, Re, x, res_like=res_like)
                                Ae = np.array(Ae, dtype=float).reshape(len(ye.keys()), len(xk))
                                rows_num = {k: Ae[i] for i, k in enumerate(ye.keys())}
                                for i, k in enumerate(y.keys()):
                                    for j in range(len(xk)):
                                        ent = np.array(Amat[i][j], dtype=float)
                                        val = ent.reshape(-1)[e] if ent.size > 1 else float(ent)
                                        ref = rows_num[k][j] if k in rows_num else 0.0       # a row dropped as identically zero
                                        if abs(val - ref) > 1e-9:
                                            ok = False
                                if not set(ye.keys()) <= set(y.keys()):
                                    ok = False
                        else:
                            Asym = sympy.Matrix(np.array(Amat).tolist()).subs(Renv)
                            xs = sympy.Matrix([env[s] for s in x.values()])
                            lhs = Asym * xs
                            rhs = sympy.Matrix([sympy.sympify(v).subs(env).subs(Renv) for v in y.values()])
                            ok = all(sympy.simplify(l - r_) == 0 for l, r_ in zip(lhs, rhs))
                            # and y == f(R, x)
                            direct = f(R, x)
                            dd = dict(zip(direct.keys(), direct.values()))
                            for k, v in zip(y.keys(), y.values()):
                                if sympy.simplify(sympy.sympify(v) - sympy.sympify(dd.get(k, 0))) != 0:
                                    ok = False
                    except Exception as e:
                        ok = False
                        name = name + ' [check raised ' + repr(e)[:80] + ']'
                    if not ok:
                        fail({'config': cfg, 'what': 'expr_as_matrix: A . coefficients(x) != coefficients(y) or y != f(.., x)', 'expr': name, 'mode': mode,
                              'x_keys': list(xk), 'res_like': list(res_like.keys()) if res_like is not None else None})
        if len(out['samples']) < 3:
            out['samples'].append({'config': cfg, 'blade_pairs': len(pairs)})
    out['distinct'] = n
    return out


# ------------------------------------------------------------------ C19
def _fact(k):
    return math.factorial(k)


def job_series(job):
    import numpy as np
    import sympy
    from kingdon.multivector import MultiVector
    rng = random.Random(job.get('seed', 0))
    out = {'evaluations': 0, 'failures': [], 'samples': [], 'configs': 0}
    n = 0
    seen = {}

    def fail(rec):
        cat = (rec.get('what'), str(rec.get('error'))[:40])
        seen[cat] = seen.get(cat, 0) + 1
        if seen[cat] <= 2:
            out['failures'].append(rec)

    def close(X, Y, tol=1e-8):
        dx, dy = todict(X) if hasattr(X, 'keys') else X, todict(Y) if hasattr(Y, 'keys') else Y
        for k in set(dx) | set(dy):
            a, b = complex(dx.get(k, 0)), complex(dy.get(k, 0))
            if abs(a - b) > tol * max(1.0, abs(b)):
                return False
        return True
    def req(A, B):
        """reference dicts: exact when every coefficient is exact; generated code may contain Python float literals for
        rational constants (1/2 printed as a division), so a float coefficient is compared with a relative tolerance"""
        if any(isinstance(v, (float, complex)) for v in list(A.values()) + list(B.values())):
            return all(abs(complex(A.get(k, 0)) - complex(B.get(k, 0))) <= 1e-9 * max(1.0, abs(complex(B.get(k, 0)))) for k in set(A) | set(B))
        return O.eq(A, B)
    for cfg in job['configs']:
        try:
            alg = make_algebra(cfg)
        except Exception as _e:
            out['failures'].append({'config': cfg, 'what': 'constructing an admissible algebra raised', 'error': type(_e).__name__ + ': ' + str(_e)[:150]})
            continue
        fr = O.Frame(alg)
        out['configs'] += 1
        d = alg.d
        one = mv_from(alg, (0,), [F(1)])
        for _ in range(cfg.get('random', 4)):
            # ---- outer exponential of a pure-grade element (exact)
            g = rng.randint(1, max(1, d))
            ks = tuple(alg.indices_for_grades[(g,)])
            ks = tuple(rng.sample(ks, rng.randint(1, len(ks))))
            x = mv_from(alg, ks, frac_vals(rng, ks))
            out['evaluations'] += 1
            n += 1
            terms, w = [one], one
            for k in range(1, d + 1):
                w = w ^ x
                terms.append(w / _fact(k) if w.keys() else w)
            ser = lambda sel: fr.to_ref(*zip(*[(kk, vv) for t in sel for kk, vv in zip(t.keys(), t.values())])) if any(t.keys() for t in sel) else {}
            import warnings
            with warnings.catch_warnings():
                warnings.simplefilter('ignore')
                for name, sel in (('outerexp', terms), ('outersin', terms[1::2]), ('outercos', terms[0::2])):
                    r = _safe(lambda: getattr(x, name)())
                    if r[0] != 'value' or not req(O.nz(fr.mv_to_ref(r[1])), O.nz(ser(sel))):
                        fail({'config': cfg, 'what': f'{name} is not the finite (odd/even) sum of x^(wedge k)/k!', 'x': showmv(ks, x.values()), 'got': str(r)[:200]})
                # inverses of dense 5-D / 6-D elements take tens of minutes to generate: the bound of this stand-in
                # limits inverse-based identities to operands whose inverse argument has few blades
                inv_limit = 10 ** 9 if d <= 4 else (4 if d == 5 else 2)
                oc = _safe(lambda: x.outercos())
                heavy = oc[0] == 'value' and len(oc[1].keys()) > inv_limit
                if heavy:
                    out['skipped_inverse_checks'] = out.get('skipped_inverse_checks', 0) + 1
                rt = ('skipped', None) if heavy else _safe(lambda: x.outertan())
                ex = ('skipped', None) if heavy else _safe(lambda: x.outersin() * x.outercos().inv())
                # the identity speaks about operands whose outercos has an inverse: where it has none (ZeroDivisionError on the right) the
                # statement does not say what outertan returns (the generated quotient may cancel the vanishing factor), not comparable
                if ex[0] == 'raise' and str(ex[1]).startswith('ZeroDivisionError'):
                    out['outertan_singular_skipped'] = out.get('outertan_singular_skipped', 0) + 1
                elif rt[0] != ex[0] or (rt[0] == 'value' and not req(O.nz(fr.mv_to_ref(rt[1])), O.nz(fr.mv_to_ref(ex[1])))):
                    fail({'config': cfg, 'what': 'outertan != outersin * inverse(outercos)', 'x': showmv(ks, x.values())})
            # ---- outertan of operands whose even part is not a scalar: mixed vector + bivector (d >= 3), a non-simple bivector on
            # disjoint generator pairs (d >= 4): outercos = 1 + N with N ^ N == 0 but in general N * N != 0
            directed = []
            if d >= 3:
                v2 = rng.sample(list(alg.indices_for_grades[(1,)]), 2)
                directed.append(tuple(v2) + (rng.choice(list(alg.indices_for_grades[(2,)])),))
            if d >= 4:
                directed.append((3, 12))
                directed.append((5, 10, rng.choice([1, 2, 4, 8])))
            for dk in directed[:2] if _ else directed:
                xd = mv_from(alg, dk, frac_vals(rng, dk))
                out['evaluations'] += 1
                with warnings.catch_warnings():
                    warnings.simplefilter('ignore')
                    rt = _safe(lambda: xd.outertan())
                    ex = _safe(lambda: xd.outersin() * xd.outercos().inv())
                if ex[0] == 'raise' and str(ex[1]).startswith('ZeroDivisionError'):
                    out['outertan_singular_skipped'] = out.get('outertan_singular_skipped', 0) + 1
                elif rt[0] != ex[0] or (rt[0] == 'value' and not req(O.nz(fr.mv_to_ref(rt[1])), O.nz(fr.mv_to_ref(ex[1])))):
                    fail({'config': cfg, 'what': 'outertan != outersin * inverse(outercos)', 'x': showmv(dk, xd.values()), 'got': str(rt)[:200], 'expected': str(ex)[:200]})
            # ---- exp of a simple element (squares to a scalar): blade of every sign of square, numeric and symbolic
            K = rng.choice([k for k in range(1, 2 ** d)])
            t = rng.choice([0.3, 1.1, -0.7, 2.0])
            xb = mv_from(alg, (K,), [t])
            sq = todict(xb * xb).get(0, 0.0)
            out['evaluations'] += 1
            r = _safe(lambda: xb.exp())
            # power series
            acc, term = {0: 1.0}, mv_from(alg, (0,), [1.0])
            for k in range(1, 40):
                term = term * xb / k
                for kk, vv in todict(term).items():
                    acc[kk] = acc.get(kk, 0) + vv
            if r[0] != 'value' or not close(r[1], acc):
                fail({'config': cfg, 'what': 'exp(x) != power series sum x^k/k!', 'blade': alg.bin2canon[K], 'coefficient': t, 'square': sq, 'got': str(r)[:200], 'expected': str(acc)[:200]})
            ts = sympy.Symbol('t')
            xs = MultiVector.fromkeysvalues(alg, (K,), [ts])
            rs = _safe(lambda: xs.exp())
            out['evaluations'] += 1
            if rs[0] == 'value':
                try:
                    num = {k: complex(sympy.N(sympy.sympify(v).subs(ts, t))) for k, v in todict(rs[1]).items()}
                    if not close(num, acc):
                        fail({'config': cfg, 'what': 'symbolic exp(x) evaluated at a value != power series', 'blade': alg.bin2canon[K], 'coefficient': t, 'square': sq,
                              'got': str(num)[:200], 'expected': str(acc)[:200]})
                except Exception as e:
                    fail({'config': cfg, 'what': 'symbolic exp(x) could not be evaluated', 'error': repr(e)[:100]})
            else:
                fail({'config': cfg, 'what': 'symbolic exp(x) raised', 'blade': alg.bin2canon[K], 'error': rs[1]})
            # numpy-array valued exp
            xa = MultiVector.fromkeysvalues(alg, (K,), [np.array([0.3, -1.2])])
            ra = _safe(lambda: xa.exp())
            out['evaluations'] += 1
            if ra[0] != 'value':
                fail({'config': cfg, 'what': 'exp() of an array-valued simple element raised', 'value_kind': 'ndarray', 'blade': alg.bin2canon[K], 'error': ra[1]})
            else:
                for e_i, tv in enumerate([0.3, -1.2]):
                    acc2, term = {0: 1.0}, mv_from(alg, (0,), [1.0])
                    xe = mv_from(alg, (K,), [tv])
                    for k in range(1, 40):
                        term = term * xe / k
                        for kk, vv in todict(term).items():
                            acc2[kk] = acc2.get(kk, 0) + vv
                    got = {kk: np.array(vv).reshape(-1)[e_i] if np.array(vv).size > 1 else vv for kk, vv in todict(ra[1]).items()}
                    if not close(got, acc2):
                        fail({'config': cfg, 'what': 'array-valued exp(x) != power series element-wise', 'blade': alg.bin2canon[K]})
            # ---- sqrt of Study numbers scalar + blade (positive scalar part)
            a0 = rng.choice([1.5, 2.0, 4.0, 9.0])
            b0 = rng.choice([0.3, -0.8, 1.0])
            st = MultiVector.fromkeysvalues(alg, (0, K), [a0, b0])
            out['evaluations'] += 1
            bsq = todict(mv_from(alg, (K,), [b0]) * mv_from(alg, (K,), [b0])).get(0, 0.0)
            if a0 * a0 - bsq > 0:          # Study norm defined
                with warnings.catch_warnings():
                    warnings.simplefilter('ignore')
                    rq = _safe(lambda: st.sqrt())
                    if rq[0] != 'value' or not close(rq[1] * rq[1], st, 1e-7):
                        fail({'config': cfg, 'what': 'sqrt(x)*sqrt(x) != x for a Study number with positive scalar part', 'x': showmv((0, K), [a0, b0]), 'got': str(rq)[:200]})
                    rp = _safe(lambda: st ** 0.5)
                    if rq[0] == 'value' and (rp[0] != 'value' or not close(rp[1], rq[1])):
                        fail({'config': cfg, 'what': 'x**0.5 != sqrt(x)', 'x': showmv((0, K), [a0, b0])})
            # ---- integer powers, norms
            y = mv_from(alg, ks, frac_vals(rng, ks))
            out['evaluations'] += 1
            p3 = _safe(lambda: y ** 3)
            e3 = _safe(lambda: (y * y) * y)
            if p3[0] != e3[0] or (p3[0] == 'value' and not req(fr.mv_to_ref(p3[1]), fr.mv_to_ref(e3[1]))):
                fail({'config': cfg, 'what': 'x**3 != x*x*x', 'x': showmv(ks, y.values())})
            heavy = len(ks) > inv_limit
            if heavy:
                out['skipped_inverse_checks'] = out.get('skipped_inverse_checks', 0) + 1
            pm = ('skipped', None) if heavy else _safe(lambda: y ** -2)
            em = ('skipped', None) if heavy else _safe(lambda: y.inv() * y.inv())
            if pm[0] != em[0] or (pm[0] == 'value' and not req(fr.mv_to_ref(pm[1]), fr.mv_to_ref(em[1]))):
                fail({'config': cfg, 'what': 'x**-2 != inverse(x)*inverse(x)', 'x': showmv(ks, y.values())})
            p0 = _safe(lambda: y ** 0)
            if p0[0] != 'value' or not O.eq(fr.mv_to_ref(p0[1]), {0: 1}):
                fail({'config': cfg, 'what': 'x**0 != 1', 'x': showmv(ks, y.values())})
            yf = mv_from(alg, ks, [float(v) for v in y.values()])
            # "norm squared is normsq": x.normsq() is x * ~x for every x, also when x mixes even and odd grades (the result then has a
            # non-scalar part)
            mk = tuple(rng.sample(range(2 ** alg.d), min(2 ** alg.d, rng.randint(2, 4))))
            ym = mv_from(alg, mk, [F(rng.randint(1, 5), rng.randint(1, 3)) for _ in mk])
            for yy in (y, ym):
                n1, n2 = _safe(lambda: yy.normsq()), _safe(lambda: yy * ~yy)
                if n1[0] != n2[0] or (n1[0] == 'value' and not O.eq(fr.mv_to_ref(n1[1]), fr.mv_to_ref(n2[1]))):
                    fail({'config': cfg, 'what': 'normsq(x) != x * ~x', 'x': showmv(yy.keys(), yy.values()), 'got': str(n1)[:160], 'expected': str(n2)[:160]})
            # norm / normalized: for every element whose x * ~x is a non-zero scalar - positive or negative (negative-signature blades:
            # the norm is then imaginary, its square is still normsq and the normalized element still has squared norm +1)
            cands = [(ks, yf)]
            negv = [k for k in alg.indices_for_grades[(1,)] if O.gp(fr.blade(k), fr.blade(k), fr.sig).get(0, 0) < 0]
            if negv:
                kneg = rng.choice(negv)
                cands.append(((kneg,), mv_from(alg, (kneg,), [float(rng.choice([3, -2, 5]))])))
                posv = [k for k in alg.indices_for_grades[(1,)] if O.gp(fr.blade(k), fr.blade(k), fr.sig).get(0, 0) > 0]
                if posv:
                    kp = rng.choice(posv)
                    cands.append(((kp, kneg), mv_from(alg, (kp, kneg), [1.0, 2.0])))          # squared norm 1 - 4 < 0
            for cks, cy in cands:
                nsq = todict(cy.normsq())
                # positive squared norm: as before (a stored zero pseudoscalar part included); negative squared norm: only when the
                # squared norm is stored as a pure scalar (with a stored zero dual part the Study-number root of a negative scalar part is
                # outside what the statement covers - the unchanged code raises ZeroDivisionError there)
                if set(O.nz(nsq)) <= {0} and (nsq.get(0, 0) > 0 or (nsq.get(0, 0) < 0 and set(nsq) <= {0})):
                    out['evaluations'] += 1
                    with warnings.catch_warnings():
                        warnings.simplefilter('ignore')
                        nr = _safe(lambda: cy.norm())
                        if nr[0] != 'value' or not close(nr[1] * nr[1], cy.normsq(), 1e-7):
                            fail({'config': cfg, 'what': 'norm()**2 != normsq()', 'x': showmv(cks, cy.values()), 'got': str(nr)[:200], 'normsq': str(nsq)})
                        nn = _safe(lambda: cy.normalized().normsq())
                        if nn[0] != 'value' or not close(nn[1], {0: 1.0}, 1e-7):
                            fail({'config': cfg, 'what': 'normalized(x) does not have squared norm 1', 'x': showmv(cks, cy.values()), 'got': str(nn)[:200]})
            if len(out['samples']) < 3:
                out['samples'].append({'config': cfg, 'outerexp_of': showmv(ks, x.values()), 'exp_of_blade': alg.bin2canon[K], 'square': sq})
    out['distinct'] = n
    return out


# ------------------------------------------------------------------ C20
def job_graph(job):
    import numpy as np
    from kingdon.multivector import MultiVector
    rng = random.Random(job.get('seed', 0))
    out = {'evaluations': 0, 'failures': [], 'samples': [], 'configs': 0}
    n = 0
    seen = {}

    def fail(rec):
        cat = (rec.get('what'), str(rec.get('error'))[:40])
        seen[cat] = seen.get(cat, 0) + 1
        if seen[cat] <= 2:
            out['failures'].append(rec)
    for cfg in job['configs']:
        try:
            alg = make_algebra(cfg)
        except Exception as _e:
            out['failures'].append({'config': cfg, 'what': 'constructing an admissible algebra raised', 'error': type(_e).__name__ + ': ' + str(_e)[:150]})
            continue
        out['configs'] += 1
        N = 2 ** alg.d
        canon = list(alg.canon2bin.values())

        def decode(enc, key2idx):
            """the way the front end decodes a multivector payload"""
            vals = enc['mv']
            if isinstance(vals, (bytes, bytearray)):
                vals = list(np.frombuffer(vals, dtype=np.float64))
            coeffs = [0.0] * N
            if 'keys' in enc:
                for k, v in zip(enc['keys'], vals):
                    coeffs[key2idx[k]] = v
            else:
                for i, v in enumerate(vals):
                    coeffs[i] = v
            return [float(c) for c in coeffs]

        def expected(mv):
            d = dict(zip(mv.keys(), mv.values()))
            return [float(d.get(k, 0)) for k in canon]

        def rand_mv(kind):
            if kind == 'sparse':
                ks = tuple(rand_keys(rng, alg, 'sparse') or (1,))
                return mv_from(alg, ks, [float(rng.randint(-5, 5)) for _ in ks]), kind
            if kind == 'permuted':
                ks = tuple(rand_keys(rng, alg, 'perm') or (1,))
                return mv_from(alg, ks, [float(rng.randint(-5, 5)) for _ in ks]), kind
            if kind == 'dense-canonical':
                return mv_from(alg, tuple(canon), [float(rng.randint(-5, 5)) for _ in canon]), kind
            if kind == 'dense-binary':
                return mv_from(alg, tuple(range(N)), [float(rng.randint(-5, 5)) for _ in range(N)]), kind
            if kind == 'ndarray-backed':
                ks = tuple(rand_keys(rng, alg, 'sparse') or (1,))
                return MultiVector.fromkeysvalues(alg, ks, np.array([float(rng.randint(-5, 5)) for _ in ks])), kind
            if kind == 'ndarray-dense-canonical':
                return MultiVector.fromkeysvalues(alg, tuple(canon), np.array([float(rng.randint(-5, 5)) for _ in canon])), kind
            if kind == 'array-valued':
                ks = tuple(rand_keys(rng, alg, 'sparse') or (1,))
                return MultiVector.fromkeysvalues(alg, ks, [np.array([float(rng.randint(-5, 5)), float(rng.randint(-5, 5))]) for _ in ks]), kind
            if kind == 'array-valued-ndarray':
                ks = tuple(rand_keys(rng, alg, 'sparse') or (1,))
                return MultiVector.fromkeysvalues(alg, ks, np.array([[float(rng.randint(-5, 5)), float(rng.randint(-5, 5)), 1.0] for _ in ks])), kind
            if kind == 'array-valued-2axes':
                ks = tuple(rand_keys(rng, alg, 'sparse') or (1,))
                return MultiVector.fromkeysvalues(alg, ks, [np.array([[float(rng.randint(-9, 9)) for _ in range(3)] for _ in range(2)]) for _ in ks]), kind
            if kind == 'array-valued-ndarray-2axes':
                ks = tuple(rand_keys(rng, alg, 'sparse') or (1,))
                return MultiVector.fromkeysvalues(alg, ks, np.array([[[float(rng.randint(-9, 9)) for _ in range(2)] for _ in range(3)] for _ in ks])), kind
        kinds = ['sparse', 'permuted', 'dense-canonical', 'dense-binary', 'ndarray-backed', 'ndarray-dense-canonical', 'array-valued', 'array-valued-ndarray',
                 'array-valued-2axes', 'array-valued-ndarray-2axes']
        for it in range(cfg.get('random', 6)):
            # a nested subject tree and the flat list of (expected coefficient vectors) in traversal order
            leaves = []

            def tree(depth):
                r = rng.random()
                if depth == 0 or r < 0.45:
                    m, kind = rand_mv(rng.choice(kinds))
                    leaves.append((m, kind))
                    return m
                if r < 0.55:
                    return rng.choice([0xff0000, 'label', 0x00ff00])
                if r < 0.75:
                    sub = tree(depth - 1)
                    return (lambda s=sub: s)
                cont = rng.choice([list, tuple])
                return cont(tree(depth - 1) for _ in range(rng.randint(1, 3)))
            subjects = [tree(2) for _ in range(rng.randint(1, 4))]
            n += 1
            out['evaluations'] += 1
            w = _safe(lambda: alg.graph(*subjects))
            if w[0] != 'value':
                fail({'config': cfg, 'what': 'graph() raised', 'error': w[1], 'kinds': [k for _, k in leaves]})
                continue
            w = w[1]
            key2idx = {int(k): v for k, v in w.key2idx.items()}
            if key2idx != {k: i for i, k in enumerate(canon)}:
                fail({'config': cfg, 'what': 'key2idx is not the canonical position of every blade'})
            if list(w.signature) != [int(s) for s in alg.signature]:
                fail({'config': cfg, 'what': 'signature sent to the front end differs from the algebra'})
            names = list(alg.canon2bin)
            exp_cayley = [[(lambda s: s if s[-1] != 'e' else s[:-1] + '1')(alg.cayley[eJ, eI]) for eI in names] for eJ in names]
            if w.cayley != exp_cayley:
                fail({'config': cfg, 'what': 'cayley table sent to the front end differs from the algebra'})
            # flatten payload multivectors in traversal order
            flat = []

            def walk(o):
                if isinstance(o, dict) and 'mv' in o:
                    flat.append(o)
                elif isinstance(o, (list, tuple)):
                    for x in o:
                        walk(x)
            walk(w.subjects)
            exp_flat = []
            for m, kind in leaves:
                if len(m.shape) > 1:
                    # element by element in C order over the trailing axes, computed from the arrays themselves
                    arrs = [np.asarray(v) for v in m.values()]
                    for idx in np.ndindex(*arrs[0].shape):
                        d_ = {k: float(a[idx]) for k, a in zip(m.keys(), arrs)}
                        exp_flat.append(([d_.get(k, 0.0) for k in canon], kind))
                else:
                    exp_flat.append((expected(m), kind))
            if len(flat) != len(exp_flat):
                fail({'config': cfg, 'what': 'number of multivectors in the payload differs from the subjects given', 'kinds': [k for _, k in leaves],
                      'got': len(flat), 'expected': len(exp_flat)})
                continue
            for enc, (exp, kind) in zip(flat, exp_flat):
                got = decode(enc, key2idx)
                if got != exp:
                    fail({'config': cfg, 'what': 'decoded payload differs from the multivector', 'multivector_kind': kind, 'd': alg.d,
                          'payload_has_keys': 'keys' in enc, 'got': got, 'expected': exp})
            if len(out['samples']) < 3:
                out['samples'].append({'config': cfg, 'leaf_kinds': [k for _, k in leaves], 'payload_mvs': len(flat)})
        # drag updates: points at the first level are overwritten in place, dependents re-evaluated
        for it in range(cfg.get('drags', 2)):
            g = alg.d - 1 if (alg.r == 1 and alg.d in (3, 4)) else 1
            pk = tuple(alg.indices_for_grades[(g,)])
            pts = [mv_from(alg, pk, [float(rng.randint(1, 5)) for _ in pk]) for _ in range(2)]
            if not (alg.r == 1 and alg.d in (3, 4)) and len(pk) >= 3:
                # a draggable point that stores only some blades of its grade, in non-canonical order (every multivector is
                # draggable outside PGA): the write-back goes through the key-to-index map, blade by blade
                sk = tuple(reversed(pk[::2])) if it % 2 == 0 else tuple(k for j_, k in enumerate(pk) if j_ != 1)
                pts[1] = mv_from(alg, sk, [float(rng.randint(1, 5)) for _ in sk])
            other = mv_from(alg, (0,), [1.0])
            dep = lambda: pts[0] + pts[1]
            out['evaluations'] += 1
            w = _safe(lambda: alg.graph(pts[0], other, pts[1], dep))
            if w[0] != 'value':
                fail({'config': cfg, 'what': 'graph() with draggable points raised', 'error': w[1]})
                continue
            w = w[1]
            dp = w.draggable_points
            idxs = list(w.draggable_points_idxs)
            if idxs != [0, 2] and idxs != [0, 1, 2]:
                fail({'config': cfg, 'what': 'draggable point indices do not address the point subjects', 'got': idxs})
                continue
            newvals = [[float(rng.randint(10, 20)) for _ in range(N)] for _ in idxs]
            keep = [list(p.values()) for p in pts]
            new = [{'mv': nv} for nv in newvals]
            r = _safe(lambda: setattr(w, 'draggable_points', new))
            if r[0] != 'value':
                fail({'config': cfg, 'what': 'drag update raised', 'error': r[1]})
                continue
            key2idx = {int(k): v for k, v in w.key2idx.items()}
            targets = {0: pts[0], 2: pts[1], 1: other}
            for j, nv in zip(idxs, newvals):
                m = targets[j]
                exp = [nv[key2idx[k]] for k in m.keys()]
                if [float(v) for v in m.values()] != exp:
                    fail({'config': cfg, 'what': 'drag update did not overwrite exactly the corresponding coefficients in place', 'subject': j,
                          'got': [float(v) for v in m.values()], 'expected': exp})
            flat = []

            def walk2(o):
                if isinstance(o, dict) and 'mv' in o:
                    flat.append(o)
                elif isinstance(o, (list, tuple)):
                    for x in o:
                        walk2(x)
            walk2(w.subjects)
            s = pts[0] + pts[1]
            if flat and decode(flat[-1], key2idx) != expected(s):
                fail({'config': cfg, 'what': 'dependent callable was not re-evaluated after the drag update'})
            # the single-graph-function form: alg.graph(f) with f() returning the subjects, derived elements computed in its body
            pts2 = [mv_from(alg, pk, [float(rng.randint(1, 5)) for _ in pk]) for _ in range(2)]
            f_subjects = lambda: [pts2[0], 0x00ff00, pts2[1], pts2[0] + pts2[1], [pts2[0] - pts2[1]]]
            out['evaluations'] += 1
            w2 = _safe(lambda: alg.graph(f_subjects))
            if w2[0] != 'value':
                fail({'config': cfg, 'what': 'graph(function) raised', 'error': w2[1]})
                continue
            w2 = w2[1]
            key2idx = {int(k): v for k, v in w2.key2idx.items()}

            def payload_mvs(w_):
                fl = []

                def wk(o):
                    if isinstance(o, dict) and 'mv' in o:
                        fl.append(o)
                    elif isinstance(o, (list, tuple)):
                        for x in o:
                            wk(x)
                wk(w_.subjects)
                return [decode(e_, key2idx) for e_ in fl]

            def want_mvs():
                return [expected(pts2[0]), expected(pts2[1]), expected(pts2[0] + pts2[1]), expected(pts2[0] - pts2[1])]
            if payload_mvs(w2) != want_mvs():
                fail({'config': cfg, 'what': 'graph(function): initial payload differs from the subjects the function returns'})
            idxs2 = list(w2.draggable_points_idxs)
            newv2 = [[float(rng.randint(10, 20)) for _ in range(N)] for _ in idxs2]
            r2 = _safe(lambda: setattr(w2, 'draggable_points', [{'mv': nv} for nv in newv2]))
            if r2[0] != 'value':
                fail({'config': cfg, 'what': 'graph(function): drag update raised', 'error': r2[1]})
                continue
            tg2 = {0: pts2[0], 2: pts2[1]}
            for j, nv in zip(idxs2, newv2):
                if j in tg2 and [float(v) for v in tg2[j].values()] != [nv[key2idx[k]] for k in tg2[j].keys()]:
                    fail({'config': cfg, 'what': 'graph(function): drag update did not overwrite the point returned by the function', 'subject': j})
            if payload_mvs(w2) != want_mvs():
                fail({'config': cfg, 'what': 'graph(function): elements derived inside the function were not re-evaluated after the drag update',
                      'got': payload_mvs(w2)[2:], 'expected': want_mvs()[2:]})
            # an update request from the front end after the program changed a point itself
            pts2[1]._values[0] = 77.0
            r3 = _safe(lambda: w2._handle_custom_msg({'type': 'update_mvs'}, []))
            if r3[0] != 'value' or payload_mvs(w2) != want_mvs():
                fail({'config': cfg, 'what': 'graph(function): update_mvs did not re-evaluate the subjects', 'error': r3[1] if r3[0] != 'value' else None})
    out['distinct'] = n
    return out
