"""Stand-in jobs: compositions (C06), inverse/division (C07), symbolic vs numeric (C12), options (C13), relabelling (C14)."""
import itertools
import random
import json
from fractions import Fraction as F

from standins import oracle as O
from standins.oracle import Poly
from standins.native import (make_algebra, mv_from, todict, showmv, ref_binary, ref_unary, BINARY, UNARY, rand_keys, frac_vals, poly_vals)


def _safe(f):
    try:
        return ('value', f())
    except ZeroDivisionError:
        return ('raise', 'ZeroDivisionError')
    except Exception as e:
        return ('raise', type(e).__name__ + ':' + str(e)[:100])


def _patterns(rng, alg, cfg):
    N = 2 ** alg.d
    cases = []
    if cfg.get('exhaustive'):
        subsets = [s for n in range(N + 1) for s in itertools.permutations(range(N), n)]
        cases = [(a, b) for a in subsets for b in subsets]
        mc = cfg.get('max_cases', 2000)
        if len(cases) > mc:
            cases = rng.sample(cases, mc)
    if cfg.get('grade_blocks'):
        blocks = [tuple(alg.indices_for_grades[(g,)]) for g in range(alg.d + 1)]
        blocks += [tuple(alg.indices_for_grades[tuple(range(0, alg.d + 1, 2))]), tuple(alg.indices_for_grades[tuple(range(1, alg.d + 1, 2))])]
        cases += [(a, b) for a in blocks for b in blocks]
    if cfg.get('wide'):
        # results with more than 16 stored blades (the even subalgebra applied to all vectors and bivectors): whatever the
        # code generator does per block of outputs is exercised on every run, not only when a random pattern is dense enough
        cases.append((tuple(alg.indices_for_grades[tuple(range(0, alg.d + 1, 2))]), tuple(alg.indices_for_grades[(1, 2)])))
    if cfg.get('high_grades'):
        # homogeneous operands of the top grades (d, d-1, d-2: reversion signs of grades beyond 3, i.e. grade % 4, not grade) against
        # small low-grade operands, either way round
        d = alg.d
        for g in (d, d - 1, d - 2):
            top = list(alg.indices_for_grades[(g,)])
            if len(top) > 4:
                top = sorted(rng.sample(top, 4), key=top.index)
            low = tuple(rng.sample(list(alg.indices_for_grades[(1,)]), 2)) + (rng.choice(list(alg.indices_for_grades[(2,)])),)
            cases.append((low, tuple(top)))
            cases.append((tuple(top), low))
            cases.append((tuple(top), tuple(top)))
    for _ in range(cfg.get('random', 0)):
        cases.append((rand_keys(rng, alg), rand_keys(rng, alg)))
    return cases


# ------------------------------------------------------------------ C06
def job_compose(job):
    rng = random.Random(job.get('seed', 0))
    out = {'evaluations': 0, 'failures': [], 'samples': [], 'configs': 0}
    pats = set()
    for cfg in job['configs']:
        try:
            alg = make_algebra(cfg)
        except Exception as _e:
            out['failures'].append({'config': cfg, 'what': 'constructing an admissible algebra raised', 'error': type(_e).__name__ + ': ' + str(_e)[:150]})
            continue
        fr = O.Frame(alg)
        out['configs'] += 1
        twin = None
        if cfg.get('default_twin'):
            # the default-basis algebra of the same signature and start index, used first in the same process on the same key
            # patterns: nothing generated for one algebra may be handed to another whose blades are spelled differently
            from kingdon import Algebra as _Alg
            twin = _Alg(signature=[int(x) for x in alg.signature], start_index=alg.start_index)
        for ak, bk in _patterns(rng, alg, cfg):
            if twin is not None:
                ta, tb = mv_from(twin, ak, poly_vals('a', ak)), mv_from(twin, bk, poly_vals('b', bk))
                for f_ in (lambda: ta >> tb, lambda: ta @ tb, lambda: ta.normsq(), lambda: tb.normsq()):
                    _safe(f_)
            a, b = mv_from(alg, ak, poly_vals('a', ak)), mv_from(alg, bk, poly_vals('b', bk))
            A, B = fr.mv_to_ref(a), fr.mv_to_ref(b)
            checks = {
                'sw': (lambda: a >> b, lambda: (a * b) * ~a, lambda: O.gp(O.gp(A, B, fr.sig), O.rev(A), fr.sig)),
                'proj': (lambda: a @ b, lambda: (a | b) * ~b, lambda: O.gp(O.ip(A, B, fr.sig), O.rev(B), fr.sig)),
                'normsq': (lambda: a.normsq(), lambda: a * ~a, lambda: O.gp(A, O.rev(A), fr.sig)),
            }
            for name, (composite, elementary, ref) in checks.items():
                out['evaluations'] += 1
                pats.add((json.dumps(cfg, sort_keys=True), name, ak, bk if name != 'normsq' else ()))
                g, e = _safe(composite), _safe(elementary)
                r = ref()
                # C06 compares the composite operator with the composition *as computed with the elementary operators*; the
                # independent reference is reported for diagnosis only (a defect shared by both sides belongs to C02-C04)
                if e[0] != 'value':
                    out['not_comparable'] = out.get('not_comparable', 0) + 1
                    continue
                ok = g[0] == 'value' and O.eq(fr.mv_to_ref(g[1]), fr.mv_to_ref(e[1]))
                if not ok and len(out['failures']) < 400:
                    out['failures'].append({'config': cfg, 'op': name, 'a': showmv(ak, a.values()), 'b': showmv(bk, b.values()),
                                            'got': str(todict(g[1]) if g[0] == 'value' else g[1])[:300],
                                            'elementary': str(todict(e[1]) if e[0] == 'value' else e[1])[:300], 'reference': str(r)[:300]})
                elif len(out['samples']) < 3 and rng.random() < 0.01:
                    out['samples'].append({'config': cfg, 'op': name, 'a_keys': list(ak), 'b_keys': list(bk)})
            # the same operand objects after a coefficient was changed in place (multivectors are mutable and share their storage
            # with the caller): the composite operators must see the object as it is now
            if len(ak) >= 1 and out['evaluations'] % 7 == 0:
                try:
                    a.values()[0] = a.values()[0] * 2 + 1
                    changed = True
                except Exception:
                    changed = False
                if changed:
                    for name, (composite, elementary) in {'sw': (lambda: a >> b, lambda: (a * b) * ~a), 'normsq': (lambda: a.normsq(), lambda: a * ~a),
                                                          'proj': (lambda: a @ b, lambda: (a | b) * ~b)}.items():
                        out['evaluations'] += 1
                        g, e = _safe(composite), _safe(elementary)
                        if e[0] == 'value' and not (g[0] == 'value' and O.eq(fr.mv_to_ref(g[1]), fr.mv_to_ref(e[1]))) and len(out['failures']) < 400:
                            out['failures'].append({'config': cfg, 'op': name, 'what': 'composite operator on an operand whose coefficient was updated in place differs from the composition',
                                                    'a': showmv(ak, a.values()), 'b': showmv(bk, b.values()),
                                                    'got': str(todict(g[1]) if g[0] == 'value' else g[1])[:300], 'elementary': str(todict(e[1]))[:300]})
    out['distinct'] = len(pats)
    return out


# ------------------------------------------------------------------ C07
def _left_matrix(fr, A):
    """matrix of x -> A x in the reference basis"""
    n = 1 << fr.d
    M = [[F(0)] * n for _ in range(n)]
    for j in range(n):
        col = O.gp(A, {j: F(1)}, fr.sig)
        for i, v in col.items():
            M[i][j] = F(v)
    return M


def _singular(M):
    n = len(M)
    M = [row[:] for row in M]
    r = 0
    for c in range(n):
        piv = next((i for i in range(r, n) if M[i][c] != 0), None)
        if piv is None:
            continue
        M[r], M[piv] = M[piv], M[r]
        for i in range(r + 1, n):
            if M[i][c] != 0:
                f = M[i][c] / M[r][c]
                M[i] = [x - f * y for x, y in zip(M[i], M[r])]
        r += 1
    return r < n


def _eqtol(A, B):
    """equality of elements: exact on exact types, to rounding (1e-9 relative) when floats are involved"""
    if O.eq(A, B):
        return True
    try:
        for k in set(A) | set(B):
            a, b = A.get(k, 0), B.get(k, 0)
            if not (isinstance(a, float) or isinstance(b, float)):
                if a != b:
                    return False
            elif abs(float(a) - float(b)) > 1e-9 * max(1.0, abs(float(b))):
                return False
        return True
    except Exception:
        return False


def _near(A, B, d):
    """exact for d <= 5 (closed forms on exact types), to rounding beyond (the iterative scheme divides through floats)"""
    if d <= 5:
        return O.eq(A, B)
    for k in set(A) | set(B):
        if abs(float(A.get(k, 0)) - float(B.get(k, 0))) > 1e-9 * max(1.0, abs(float(B.get(k, 0)))):
            return False
    return True


def job_inverse(job):
    rng = random.Random(job.get('seed', 0))
    out = {'evaluations': 0, 'failures': [], 'samples': [], 'configs': 0}
    pats = set()
    for cfg in job['configs']:
        try:
            alg = make_algebra(cfg)
        except Exception as _e:
            out['failures'].append({'config': cfg, 'what': 'constructing an admissible algebra raised', 'error': type(_e).__name__ + ': ' + str(_e)[:150]})
            continue
        fr = O.Frame(alg)
        out['configs'] += 1
        N = 2 ** alg.d
        one = {0: F(1)}
        directed = [tuple(k) for k in cfg.get('operands', [])]
        for it in range(cfg.get('random', 10) + len(directed)):
            mode = rng.choice(['sparse', 'grade', 'perm', 'full', 'sparse', 'mixed3', 'mixed3'])
            if it < len(directed):
                mode = 'directed'
            if alg.d == 5 and mode != 'directed':
                mode = rng.choice(['sparse', 'mixed3', 'mixed3', 'tiny'])     # dense 5-D patterns take minutes to generate
            if alg.d >= 6 and mode != 'directed':
                mode = 'tiny'          # the iterative scheme is generated symbolically: keep the patterns small (cost, not correctness)
            if mode == 'directed':
                ak = directed[it]
            elif mode == 'mixed3':
                # a few blades of mixed grade parity (closed-form inverses have grade-specific correction terms)
                ev = [k for k in range(N) if bin(k).count('1') % 2 == 0]
                od = [k for k in range(N) if bin(k).count('1') % 2 == 1]
                ak = tuple(rng.sample(ev, min(len(ev), rng.randint(1, 2))) + rng.sample(od, min(len(od), rng.randint(1, 2))))
            elif mode == 'tiny':
                ak = tuple(rng.sample(range(N), rng.randint(1, 3)))
            else:
                ak = rand_keys(rng, alg, mode) or (0,)
            if cfg.get('pad') and rng.random() < 0.3:
                extra = [k for k in rng.sample(range(N), min(N, 2)) if k not in ak]
                ak = tuple(ak) + tuple(extra)
                av = frac_vals(rng, ak[:len(ak) - len(extra)]) + [F(0)] * len(extra)
            else:
                av = frac_vals(rng, ak)
            a = mv_from(alg, ak, av)
            A = fr.mv_to_ref(a)
            pats.add((json.dumps(cfg, sort_keys=True), ak))
            out['evaluations'] += 1
            g = _safe(lambda: a.inv())
            if g[0] == 'value':
                inv = g[1]
                l, r = _safe(lambda: fr.mv_to_ref(a * inv)), _safe(lambda: fr.mv_to_ref(inv * a))
                ok = l[0] == 'value' and r[0] == 'value' and _near(l[1], one, fr.d) and _near(r[1], one, fr.d)
                if not ok and len(out['failures']) < 400:
                    out['failures'].append({'config': cfg, 'op': 'inv', 'a': showmv(ak, av), 'what': 'x*inv(x) or inv(x)*x is not 1',
                                            'x*inv': str(l[1])[:200], 'inv*x': str(r[1])[:200]})
            elif g[1] == 'ZeroDivisionError':
                if fr.d <= cfg.get('det_dmax', 4) and not _singular(_left_matrix(fr, A)):
                    if len(out['failures']) < 400:
                        out['failures'].append({'config': cfg, 'op': 'inv', 'a': showmv(ak, av), 'what': 'ZeroDivisionError for an invertible element'})
            else:
                if len(out['failures']) < 400:
                    out['failures'].append({'config': cfg, 'op': 'inv', 'a': showmv(ak, av), 'what': 'inv raised', 'error': g[1]})
            # division
            bk = rand_keys(rng, alg, 'sparse') or (0,)
            bv = frac_vals(rng, bk)
            b = mv_from(alg, bk, bv)
            out['evaluations'] += 1
            d1, d2 = _safe(lambda: fr.mv_to_ref(b / a)), _safe(lambda: fr.mv_to_ref(b * a.inv()))
            num = F(rng.randint(1, 5))
            d3, d4 = _safe(lambda: fr.mv_to_ref(num / a)), _safe(lambda: fr.mv_to_ref(num * a.inv()))
            for nm, x, y in (('a/b == a*inv(b)', d1, d2), ('number/x == number*inv(x)', d3, d4)):
                same = x[0] == y[0] and (x[0] == 'raise' or _near(x[1], y[1], fr.d))
                if x[0] == 'raise' and y[0] == 'raise':
                    same = True
                if not same and len(out['failures']) < 400:
                    out['failures'].append({'config': cfg, 'op': 'div', 'what': nm + ' violated', 'a': showmv(bk, bv), 'b': showmv(ak, av),
                                            'lhs': str(x)[:200], 'rhs': str(y)[:200]})
            # the same multivector object after its coefficients were changed in place (multivectors are mutable): inv() of the
            # object as it is now, not as it was at an earlier call
            if g[0] == 'value' and len(ak) >= 1:
                out['evaluations'] += 1
                j_ = rng.randrange(len(ak))
                try:
                    a.values()[j_] = a.values()[j_] * 3 + 1
                except Exception:
                    a = None
                if a is not None:
                    g2 = _safe(lambda: a.inv())
                    if g2[0] == 'value':
                        l2, r2 = _safe(lambda: fr.mv_to_ref(a * g2[1])), _safe(lambda: fr.mv_to_ref(g2[1] * a))
                        ok2 = l2[0] == 'value' and r2[0] == 'value' and _near(l2[1], one, fr.d) and _near(r2[1], one, fr.d)
                        if not ok2 and len(out['failures']) < 400:
                            out['failures'].append({'config': cfg, 'op': 'inv', 'a': showmv(ak, list(a.values())), 'what': 'x*inv(x) is not 1 for a multivector whose coefficients were updated in place after an earlier inv()',
                                                    'earlier_values': [str(v) for v in av], 'x*inv': str(l2[1])[:200]})
            if len(out['samples']) < 3:
                out['samples'].append({'config': cfg, 'a': showmv(ak, av)})
    out['distinct'] = len(pats)
    return out


def job_powers(job):
    """power_supply / AdditionChains: yields x**k for every requested k (exhaustive for k <= limit) -- real code, Poly operand."""
    from kingdon.codegen import power_supply, AdditionChains
    out = {'evaluations': 0, 'failures': [], 'samples': [], 'configs': 1}
    x = Poly.var('x')
    lim = job.get('limit', 40)
    for k in range(1, lim + 1):
        out['evaluations'] += 1
        seq = list(power_supply(x, k))
        if seq[-1] != x ** k:
            out['failures'].append({'what': 'power_supply(x, k) does not end in x**k', 'k': k})
        chain = AdditionChains(k)[k]
        ok = chain[0] == 1 and chain[-1] == k and all(any(chain[i] == chain[i - 1] + chain[j] for j in range(i)) for i in range(1, len(chain)))
        if not ok:
            out['failures'].append({'what': 'not an addition chain', 'k': k, 'chain': list(chain)})
    for n in (1, 2, 4, 8, 16):
        got = list(power_supply(x, tuple(range(1, n + 1))))
        out['evaluations'] += 1
        if got != [x ** i for i in range(1, n + 1)]:
            out['failures'].append({'what': 'power_supply(x, (1..n)) wrong', 'n': n})
    out['samples'] = [{'k': 15, 'chain': list(AdditionChains(15)[15])}]
    out['distinct'] = lim
    return out


# ------------------------------------------------------------------ C12
def job_symbolic(job):
    import sympy
    rng = random.Random(job.get('seed', 0))
    out = {'evaluations': 0, 'failures': [], 'samples': [], 'configs': 0}
    pats = set()
    for cfg in job['configs']:
        try:
            alg = make_algebra(cfg)
        except Exception as _e:
            out['failures'].append({'config': cfg, 'what': 'constructing an admissible algebra raised', 'error': type(_e).__name__ + ': ' + str(_e)[:150]})
            continue
        fr = O.Frame(alg)
        out['configs'] += 1
        # a fixed case per algebra: the operand named as kingdon names it (alg.vector(name='x') -> x0, x1, .. or x1, x2, ..) enters
        # the result partly as bare coefficients, the other operand through shared subexpressions; evaluated by calling the result
        from kingdon import Algebra as _Alg
        for alg_ in ([] if cfg.get('graded') else [_Alg(3, 0, 1), _Alg(4), alg]):
            if alg_.d < 2:
                continue
            vk_ = tuple(alg_.indices_for_grades[(1,)])
            xs_ = alg_.vector(name='x')
            us_ = alg_.multivector(name='u', keys=vk_[1:])
            xn_ = [F(rng.randint(2, 9)) for _ in vk_]
            un_ = [F(rng.randint(2, 5)) for _ in vk_[1:]]
            for label, fn in (('x + u*(u|u)', lambda p_, q_: p_ + q_ * (q_ | q_)), ('x - (u*u)*u + u', lambda p_, q_: p_ - (q_ * q_) * q_ + q_)):
                out['evaluations'] += 1
                sr = _safe(lambda: fn(xs_, us_))
                nr = _safe(lambda: fn(mv_from(alg_, vk_, list(xn_)), mv_from(alg_, vk_[1:], list(un_))))
                if sr[0] != 'value' or nr[0] != 'value':
                    continue
                envn = {str(s_): v_ for s_, v_ in list(zip(xs_.values(), xn_)) + list(zip(us_.values(), un_))}
                syms_ = sorted(sr[1].free_symbols, key=lambda z: z.name)
                cr = _safe(lambda: sr[1](*[envn[z.name] for z in syms_]))
                want_ = O.nz({k: F(v) for k, v in todict(nr[1]).items()})
                got_ = O.nz({k: F(v) for k, v in todict(cr[1]).items()}) if cr[0] == 'value' else cr[1]
                if cr[0] != 'value' or not O.eq(got_, want_):
                    out['failures'].append({'config': dict(cfg, chain_algebra=[int(alg_.p), int(alg_.q), int(alg_.r)]), 'op': 'chain: ' + label, 'what': 'calling the symbolic result differs from the numeric evaluation',
                                            'symbols': [z.name for z in syms_], 'got': str(got_)[:200], 'expected': str(want_)[:200]})
        for it in range(cfg.get('random', 5)):
            ak, bk = rand_keys(rng, alg, 'sparse') or (0,), rand_keys(rng, alg, rng.choice(['sparse', 'grade'])) or (0,)
            if cfg.get('graded'):
                # graded mode stores complete grades
                ak = tuple(alg.indices_for_grades[tuple(sorted(rng.sample(range(alg.d + 1), rng.randint(1, 2))))])
                bk = tuple(alg.indices_for_grades[tuple(sorted(rng.sample(range(alg.d + 1), rng.randint(1, 2))))])
            # partition of coefficients into symbolic / numeric
            def mixed(prefix, keys):
                vals, env = [], {}
                for k in keys:
                    if rng.random() < 0.7:
                        s = sympy.Symbol(f'{prefix}{alg.bin2canon[k][1:]}')      # kingdon's own naming: a, a1, a2, a12, ..
                        v = F(rng.randint(-5, 5) or 1, rng.randint(1, 3))
                        env[s] = v
                        vals.append(s)
                    else:
                        # explicit numeric zeros as well: part of a grade may vanish identically while the rest does not
                        vals.append(sympy.Rational(rng.randint(-4, 4) if rng.random() < 0.5 else (rng.randint(-4, 4) or 2), rng.randint(1, 3)))
                return vals, env
            # operand names as kingdon itself makes them (alg.vector(name='x') -> x0, x1, ..): 'x' is also the stem sympy's common
            # subexpression elimination uses for its temporaries, which a generated function must keep apart from the user's symbols
            av, aenv = mixed('a' if it % 2 == 0 else 'x', ak)
            bv, benv = mixed('b', bk)
            if cfg.get('graded') or it % 3 == 2:
                # a numeric operand with exact zeros next to non-zero entries: some result coefficients of a grade vanish
                # identically while others of the same grade do not
                nzpos = rng.randrange(len(bk))
                bv = [sympy.Rational(rng.randint(1, 4), rng.randint(1, 2)) if (j == nzpos or rng.random() < 0.3) else sympy.Rational(0) for j in range(len(bk))]
                benv = {}
                if it % 2:
                    av = [sympy.Symbol(f'a{alg.bin2canon[k][1:]}') for k in ak]
                    aenv = {s_: F(rng.randint(-5, 5) or 1, rng.randint(1, 3)) for s_ in av}
            env = dict(aenv)
            env.update(benv)
            a, b = mv_from(alg, ak, av), mv_from(alg, bk, bv)
            def num(vals):
                o = []
                for v in vals:
                    if v in env:
                        o.append(env[v])
                    else:
                        q = sympy.Rational(v)
                        o.append(F(int(q.p), int(q.q)))
                return o
            an, bn = mv_from(alg, ak, num(av)), mv_from(alg, bk, num(bv))
            chains = {'chain: a + b*(b|b)': lambda p_, q_: p_ + q_ * (q_ | q_), 'chain: a - (b*b)*b': lambda p_, q_: p_ - (q_ * q_) * q_,
                      'chain: (a + b*b) ^ b': lambda p_, q_: (p_ + q_ * q_) ^ q_}
            for name in list(job['ops']) + list(chains):
                binary = name in BINARY + ['div']
                out['evaluations'] += 1
                pats.add((json.dumps(cfg, sort_keys=True), name, ak, bk))
                if name in chains:
                    # a few operator chains: results in which some coefficients are bare symbols and others share subexpressions
                    sres = _safe(lambda: chains[name](a, b))
                    nres = _safe(lambda: chains[name](an, bn))
                else:
                    sres = _safe(lambda: getattr(alg, name)(a, b) if binary else getattr(alg, name)(a))
                    nres = _safe(lambda: getattr(alg, name)(an, bn) if binary else getattr(alg, name)(an))
                if nres[0] == 'raise':
                    continue     # a pole of the numeric evaluation
                if sres[0] == 'raise':
                    if len(out['failures']) < 400:
                        out['failures'].append({'config': cfg, 'op': name, 'what': 'symbolic evaluation raised where numeric succeeds', 'error': sres[1],
                                                'a': showmv(ak, av), 'b': showmv(bk, bv)})
                    continue
                s = sres[1]
                expd = O.nz({k: F(v) for k, v in todict(nres[1]).items()})
                ways = {}
                # (1) sympy substitution
                try:
                    renv = {k: sympy.Rational(v.numerator, v.denominator) for k, v in env.items()}
                    ways['subs'] = {k: sympy.simplify(sympy.sympify(v).subs(renv)) for k, v in todict(s).items()}
                except Exception as e:
                    ways['subs'] = 'EXC ' + repr(e)[:80]
                # (2) calling the multivector: positional in name order, and by keyword
                syms = sorted(s.free_symbols, key=lambda x: x.name)
                if syms:
                    try:
                        ways['call-positional'] = todict(s(*[env[x] for x in syms]))
                        ways['call-keywords'] = todict(s(**{x.name: env[x] for x in reversed(syms)}))
                    except Exception as e:
                        ways['call'] = 'EXC ' + repr(e)[:80]
                for wn, w in ways.items():
                    if isinstance(w, str):
                        bad = True
                        gotd = w
                    else:
                        gotd = {}
                        for k, v in w.items():
                            try:
                                if isinstance(v, F):
                                    gotd[k] = v
                                else:
                                    q = sympy.Rational(v)
                                    gotd[k] = F(int(q.p), int(q.q))
                            except Exception:
                                gotd[k] = v
                        gotd = O.nz(gotd)
                        # rational constants of a symbolic multivector are printed as Python divisions (-2/3 -> float): compare to rounding
                        # (a blade present on one side only with a coefficient at rounding level - e.g. -1.8e-15 where exact arithmetic gives 0 - is
                        # the same rounding, not a different element: compare over the union of the blades, absolute scale = largest coefficient)
                        try:
                            scale_ = max([1.0] + [abs(float(v)) for v in expd.values()])
                            bad = any(abs(float(gotd.get(k, 0)) - float(expd.get(k, 0))) > 1e-9 * scale_ for k in set(gotd) | set(expd))
                        except Exception:
                            bad = True
                    if bad and len(out['failures']) < 400:
                        out['failures'].append({'config': cfg, 'op': name, 'what': f'symbolic then {wn} != numeric', 'a': showmv(ak, av), 'b': showmv(bk, bv),
                                                'values': {str(k): str(v) for k, v in env.items()}, 'got': str(gotd)[:250], 'expected': str(expd)[:250]})
            if len(out['samples']) < 3:
                out['samples'].append({'config': cfg, 'a': showmv(ak, av), 'b': showmv(bk, bv), 'values': {str(k): str(v) for k, v in env.items()}})
        # float constants of every magnitude inside a called multivector (as a coefficient of its own and inside an expression): the
        # generated function must carry the constant itself, in fixed and in scientific notation
        t_ = sympy.Symbol('t')
        k1_, k2_ = (1, 2) if alg.d >= 2 else (0, 1)
        for c_ in (3.7e-10, 5e20, 1e-20, 2.5, 1e100, 123456789.0, 6.02e23, -4.0e-30, 1e-5):
            out['evaluations'] += 1
            try:
                xc = mv_from(alg, (k2_, k1_), [c_, t_ * c_ + t_])
                for wn, r_ in (('call-positional', xc(2)), ('call-keywords', xc(t=2))):
                    gd = todict(r_)
                    e1, e2 = 2 * c_ + 2, c_
                    if abs(float(gd.get(k1_, 0)) - e1) > 1e-12 * abs(e1) or abs(float(gd.get(k2_, 0)) - e2) > 1e-12 * abs(e2):
                        out['failures'].append({'config': cfg, 'op': 'call', 'what': f'symbolic then {wn} != numeric (float constant)', 'constant': repr(c_),
                                                'got': str(gd)[:200], 'expected': str({k1_: e1, k2_: e2})})
            except Exception as e:
                out['failures'].append({'config': cfg, 'op': 'call', 'what': 'calling a multivector with a float constant raised', 'constant': repr(c_), 'error': repr(e)[:120]})
        # roots: norm / normalized / differences built from them on one- and two-blade symbolic operands, evaluated at negative
        # and positive values (an over-eager simplification such as sqrt(a**2) -> a is wrong exactly for negative a)
        import warnings
        a_s, b_s = sympy.Symbol('a1'), sympy.Symbol('a2')
        blades = [k for k in range(1, 2 ** alg.d) if O.gp(fr.blade(k), fr.blade(k), fr.sig).get(0, 0) > 0][:3]
        for K in blades:
            forms = {'norm': lambda x: x.norm(), 'normalized': lambda x: x.normalized(),
                     'normalized - blade': lambda x: x.normalized() - mv_from(alg, (K,), [1]),
                     'x - norm': lambda x: x - x.norm()}
            for fname, f in forms.items():
                with warnings.catch_warnings():
                    warnings.simplefilter('ignore')
                    sres = _safe(lambda: f(mv_from(alg, (K,), [a_s])))
                    if sres[0] != 'value':
                        continue
                    for val in (F(-2), F(-1, 2), F(3, 2)):
                        out['evaluations'] += 1
                        nres = _safe(lambda: f(mv_from(alg, (K,), [float(val)])))
                        if nres[0] != 'value':
                            continue
                        want = {k: complex(v) for k, v in todict(nres[1]).items() if abs(complex(v)) > 1e-12}
                        try:
                            got = {k: complex(sympy.N(sympy.sympify(v).subs(a_s, sympy.Rational(val.numerator, val.denominator)))) for k, v in todict(sres[1]).items()}
                        except Exception as e:
                            got = {'EXC': repr(e)[:80]}
                        got = {k: v for k, v in got.items() if not isinstance(v, complex) or abs(v) > 1e-12}
                        bad = set(got) != set(want) or any(abs(got[k] - want[k]) > 1e-9 * max(1.0, abs(want[k])) for k in want)
                        if bad and len(out['failures']) < 400:
                            out['failures'].append({'config': cfg, 'op': fname, 'what': 'symbolic then subs != numeric (root of a square)', 'blade': alg.bin2canon[K],
                                                    'value': str(val), 'got': str(got)[:200], 'expected': str(want)[:200]})
    out['distinct'] = len(pats)
    return out


# ------------------------------------------------------------------ C13
def job_options(job):
    rng = random.Random(job.get('seed', 0))
    out = {'evaluations': 0, 'failures': [], 'samples': [], 'configs': 0}
    pats = set()
    percat = {}
    for base in job['configs']:
        variants = []
        for cse in (True, False):
            for graded in (False, True):
                for symb in (None, 'sympy'):
                    for wrap in (None, 'identity'):
                        v = dict(base, cse=cse, graded=graded)
                        if symb:
                            v['symbolcls'] = symb
                        if wrap:
                            v['wrapper'] = wrap
                        if (cse, graded, symb, wrap) in ((True, False, 'sympy', None), (False, False, None, 'identity')):
                            v['pretty_blade'] = 'B'          # a printing option: never reaches a result
                        variants.append(v)
        if base.get('variants'):
            variants = [dict({k: v for k, v in base.items() if k != 'variants'}, **v) for v in base['variants']]
        if base.get('max_variants') and len(variants) > base['max_variants']:
            variants = variants[:1] + rng.sample(variants[1:], base['max_variants'] - 1)
        algs = [(v, make_algebra(v)) for v in variants]
        ref_alg = algs[0][1]
        fr = O.Frame(ref_alg)
        out['configs'] += len(algs)
        for it in range(base.get('random', 3)):
            gs = tuple(sorted(rng.sample(range(ref_alg.d + 1), rng.randint(1, min(2, ref_alg.d + 1)))))
            gs2 = tuple(sorted(rng.sample(range(ref_alg.d + 1), rng.randint(1, min(2, ref_alg.d + 1)))))
            if base.get('grades_a') is not None:
                gs, gs2 = tuple(base['grades_a']), tuple(base['grades_b'])
            ak, bk = tuple(ref_alg.indices_for_grades[gs]), tuple(ref_alg.indices_for_grades[gs2])
            if base.get('keys_pairs'):
                # explicit sparse key patterns (non-blade elements in d >= 6: the general Shirokov inverse, which re-uses its summands)
                ak, bk = (tuple(k) for k in base['keys_pairs'][it % len(base['keys_pairs'])])
            use_float = False
            av, bv = frac_vals(rng, ak), frac_vals(rng, bk)
            if it % 3 == 1:
                # plain python ints beyond 2**32: exact in python, silently wrapping in any fixed-width container
                av = [rng.choice([1, -1]) * rng.randint(2 ** 33, 2 ** 40) for _ in ak]
                bv = [rng.choice([1, -1]) * rng.randint(2 ** 33, 2 ** 40) for _ in bk]
            if base.get('blade_built'):
                # operands written with the algebra's named blades (sum of coefficient * alg.blades[name]): the element denoted by a
                # blade name may not depend on an option either (graded mode builds its blades by a route of its own)
                for what_, expr_ in (('the element written as a sum of coefficient * alg.blades[name]', lambda bl: bl(ak, av)),
                                     ('a*b + a with a, b written as sums of coefficient * alg.blades[name]', lambda bl: bl(ak, av) * bl(bk, bv) + bl(ak, av))):
                    base_res = None
                    for v, alg in algs:
                        out['evaluations'] += 1
                        def built(keys, vals, alg=alg):
                            acc = None
                            for k_, c_ in zip(keys, vals):
                                t_ = c_ * alg.blades[alg.bin2canon[k_]]
                                acc = t_ if acc is None else acc + t_
                            return acc
                        r = _safe(lambda: expr_(built))
                        val = ('value', O.nz(fr.mv_to_ref(r[1]))) if r[0] == 'value' else r
                        if base_res is None:
                            base_res = val
                            continue
                        same = val[0] == base_res[0] and (val[0] == 'raise' and val[1].split(':')[0] == base_res[1].split(':')[0] or val[0] == 'value' and _eqtol(val[1], base_res[1]))
                        if not same:
                            percat[('blade-built', what_)] = percat.get(('blade-built', what_), 0) + 1
                            if percat[('blade-built', what_)] <= 3:
                                out['failures'].append({'config': v, 'op': what_, 'a': showmv(ak, av), 'b': showmv(bk, bv),
                                                        'what': 'result differs from the default options (blade-built operands)', 'got': str(val)[:200], 'expected': str(base_res)[:200]})
            for name in (base.get('ops') or job['ops']):
                binary = name in BINARY + ['div']
                ak_, av_ = ak, av
                if name in ('outertan', 'outersin', 'outercos') or (name == 'outerexp' and base.get('study_outer')):
                    # scalar + bivector (the series does not terminate early: coefficients 1/k! of every order reach the code generator)
                    K = rng.choice([k for k in range(1, 2 ** ref_alg.d) if bin(k).count('1') == 2] or [1])
                    ak_, av_ = (0, K), [2.0, float(rng.choice([1, -1, 3]))]
                if name in ('sqrt',):
                    # Study numbers: positive scalar part + one blade (floats: the square root is irrational)
                    K = rng.randrange(1, 2 ** ref_alg.d)
                    ak_, av_ = (0, K), [float(rng.choice([2, 3, 5])), float(rng.choice([1, -1])) * 0.5]
                base_res = None
                for v, alg in algs:
                    out['evaluations'] += 1
                    pats.add((json.dumps(v, sort_keys=True), name, ak_, bk))
                    a, b = mv_from(alg, ak_, list(av_)), mv_from(alg, bk, list(bv))
                    r = _safe(lambda: getattr(alg, name)(a, b) if binary else getattr(alg, name)(a))
                    val = ('value', O.nz(fr.mv_to_ref(r[1]))) if r[0] == 'value' else r
                    # grade selection of the filtered result (filter() leaves grades partially stored - also in graded mode): the selected
                    # part is the same element under every option
                    sub = None
                    if name in ('gp', 'op', 'add', 'sub') and r[0] == 'value' and base.get('filter_grade', True):
                        sub = []
                        for g_ in range(alg.d + 1):
                            q_ = _safe(lambda: r[1].filter().grade(g_))
                            sub.append(('value', O.nz(fr.mv_to_ref(q_[1]))) if q_[0] == 'value' else ('raise', q_[1].split(':')[0]))
                    if base_res is None:
                        base_res, base_sub = val, sub
                        continue
                    if sub is not None and base_sub is not None and val[0] == 'value' and base_res[0] == 'value':
                        for g_, (s1_, s0_) in enumerate(zip(sub, base_sub)):
                            if not (s1_[0] == s0_[0] and (s1_[0] == 'raise' or _eqtol(s1_[1], s0_[1]))):
                                percat[('filter-grade', name)] = percat.get(('filter-grade', name), 0) + 1
                                if percat[('filter-grade', name)] <= 2:
                                    out['failures'].append({'config': v, 'op': f'{name}(a, b).filter().grade({g_})', 'a': showmv(ak, av), 'b': showmv(bk, bv),
                                                            'what': 'grade selection of a filtered result differs from the default options', 'got': str(s1_)[:200], 'expected': str(s0_)[:200]})
                    same = val[0] == base_res[0] and (val[0] == 'raise' and val[1].split(':')[0] == base_res[1].split(':')[0] or val[0] == 'value' and _eqtol(val[1], base_res[1]))
                    complete = True
                    if v.get('graded') and r[0] == 'value' and r[1].keys():
                        g = tuple(sorted({bin(k).count('1') for k in r[1].keys()}))
                        complete = tuple(r[1].keys()) == tuple(alg.indices_for_grades[g])
                    cat = (name, same, complete)
                    percat[cat] = percat.get(cat, 0) + (0 if (same and complete) else 1)
                    if (not same or not complete) and percat[cat] <= 2:
                        out['failures'].append({'config': v, 'op': name, 'a': showmv(ak, av), 'b': showmv(bk, bv),
                                                'what': 'result differs from the default options' if not same else 'graded result does not store complete grades',
                                                'got': str(val)[:200], 'expected': str(base_res)[:200]})
            if len(out['samples']) < 3:
                out['samples'].append({'base': base, 'a_keys': list(ak), 'b_keys': list(bk), 'variants': len(algs)})
    out['distinct'] = len(pats)
    return out


# ------------------------------------------------------------------ C14
def job_relabel(job):
    """custom basis algebra vs the real default-basis algebra of the same signature under phi(E'_K) = o(K) E_pi(K)."""
    from kingdon import Algebra
    from kingdon.multivector import MultiVector
    rng = random.Random(job.get('seed', 0))
    out = {'evaluations': 0, 'failures': [], 'samples': [], 'configs': 0}
    pats = set()
    for cfg in job['configs']:
        try:
            alg = make_algebra(cfg)
        except Exception as _e:
            out['failures'].append({'config': cfg, 'what': 'constructing an admissible algebra raised', 'error': type(_e).__name__ + ': ' + str(_e)[:150]})
            continue
        fr = O.Frame(alg)
        sig = fr.sig
        dflt = Algebra(signature=list(sig), start_index=0)
        frd = O.Frame(dflt)
        out['configs'] += 1
        inv_d = {m: K for K, m in frd.pi.items()}

        def phi(mv):
            R = fr.mv_to_ref(mv)
            ks = tuple(R.keys())
            return MultiVector.fromkeysvalues(dflt, tuple(inv_d[m] for m in ks), [R[m] * frd.o[inv_d[m]] for m in ks])
        for it in range(cfg.get('random', 5)):
            ak, bk = rand_keys(rng, alg, 'sparse') or (0,), rand_keys(rng, alg, 'sparse') or (0,)
            av, bv = frac_vals(rng, ak), frac_vals(rng, bk)
            a, b = mv_from(alg, ak, av), mv_from(alg, bk, bv)
            pa, pb = phi(a), phi(b)
            for name in job['ops']:
                binary = name in BINARY + ['div']
                out['evaluations'] += 1
                pats.add((json.dumps(cfg, sort_keys=True), name, ak, bk))
                x = _safe(lambda: getattr(alg, name)(a, b) if binary else getattr(alg, name)(a))
                y = _safe(lambda: getattr(dflt, name)(pa, pb) if binary else getattr(dflt, name)(pa))
                if x[0] == 'value' and y[0] == 'value':
                    same = O.eq(fr.mv_to_ref(x[1]), frd.mv_to_ref(y[1]))
                else:
                    same = x[0] == y[0]
                if not same and len(out['failures']) < 400:
                    out['failures'].append({'config': cfg, 'op': name, 'what': 'operator does not commute with the relabelling to the default basis',
                                            'pss_orientation': fr.o[fr.pssK], 'a': showmv(ak, av), 'b': showmv(bk, bv),
                                            'got': str(fr.mv_to_ref(x[1]) if x[0] == 'value' else x[1])[:200],
                                            'expected': str(frd.mv_to_ref(y[1]) if y[0] == 'value' else y[1])[:200]})
            # accessors commute: coefficient of the custom blade = o * coefficient of the image
            for K in rng.sample(range(2 ** alg.d), min(2 ** alg.d, 6)):
                out['evaluations'] += 1
                c1 = getattr(a, alg.bin2canon[K])
                c2 = getattr(pa, dflt.bin2canon[inv_d[fr.pi[K]]]) * fr.o[K] * frd.o[inv_d[fr.pi[K]]]
                if c1 != c2 and len(out['failures']) < 400:
                    out['failures'].append({'config': cfg, 'what': 'coefficient accessor does not commute with the relabelling', 'blade': alg.bin2canon[K]})
            if len(out['samples']) < 3:
                out['samples'].append({'config': cfg, 'a': showmv(ak, av), 'pss_orientation': fr.o[fr.pssK]})
    out['distinct'] = len(pats)
    return out


def job_reject(job):
    """operands from algebras whose metric or basis differ are rejected with an error rather than silently combined"""
    from kingdon import Algebra
    out = {'evaluations': 0, 'failures': [], 'samples': [], 'configs': 0}
    pairs = job['pairs']
    for c1, c2, what in pairs:
        a1, a2 = make_algebra(c1), make_algebra(c2)
        out['configs'] += 2
        x = a1.multivector(keys=(1,), values=[F(2)])
        y = a2.multivector(keys=(1,), values=[F(3)])
        for name in ('gp', 'add', 'op'):
            out['evaluations'] += 1
            r = _safe(lambda: getattr(a1, name)(x, y))
            if r[0] == 'value':
                out['failures'].append({'config': [c1, c2], 'differ_in': what, 'op': name, 'what': 'operands of different algebras were silently combined',
                                        'got': str(todict(r[1]))})
                break
    out['samples'] = [{'pair': [p[0], p[1]], 'differ_in': p[2]} for p in pairs[:3]]
    out['distinct'] = len(pairs)
    return out


def job_dualkind(job):
    """dual()/undual(): polarity for r == 0, Hodge for r == 1, an exception for r >= 2; explicit kinds honoured."""
    out = {'evaluations': 0, 'failures': [], 'samples': [], 'configs': 0}
    for cfg in job['configs']:
        try:
            alg = make_algebra(cfg)
        except Exception as _e:
            out['failures'].append({'config': cfg, 'what': 'constructing an admissible algebra raised', 'error': repr(_e)[:100]})
            continue
        out['configs'] += 1
        fr = O.Frame(alg)
        ks = tuple(alg.indices_for_grades[(1,)]) or (0,)
        x = mv_from(alg, ks, [F(i + 2) for i in range(len(ks))])
        for meth, pol, hod in (('dual', 'polarity', 'hodge'), ('undual', 'unpolarity', 'unhodge')):
            out['evaluations'] += 1
            got = _safe(lambda: getattr(x, meth)())
            if alg.r == 0:
                exp = _safe(lambda: getattr(x, pol)())
            elif alg.r == 1:
                exp = _safe(lambda: getattr(x, hod)())
            else:
                exp = ('raise', 'any')
            ok = (got[0] == 'raise') if exp == ('raise', 'any') else (got[0] == exp[0] and (got[0] == 'raise' or O.eq(fr.mv_to_ref(got[1]), fr.mv_to_ref(exp[1]))))
            if not ok:
                out['failures'].append({'config': cfg, 'what': f'{meth}() in auto mode does not select {"polarity" if alg.r == 0 else "Hodge duality" if alg.r == 1 else "an error"} for r == {alg.r}',
                                        'got': str(got)[:150]})
            for kind, m2 in (('polarity', pol), ('hodge', hod)):
                out['evaluations'] += 1
                g2, e2 = _safe(lambda: getattr(x, meth)(kind=kind)), _safe(lambda: getattr(x, m2)())
                if g2[0] != e2[0] or (g2[0] == 'value' and not O.eq(fr.mv_to_ref(g2[1]), fr.mv_to_ref(e2[1]))):
                    out['failures'].append({'config': cfg, 'what': f'{meth}(kind={kind}) != {m2}()'})
    out['samples'] = [{'configs': job['configs'][:3]}]
    out['distinct'] = out['configs']
    return out
