"""More bounded stand-in jobs (run inside /venv/bin/python by standins/native.py, `module: standins.jobs2`)."""
import itertools
import random
import json
from fractions import Fraction as F

from standins import oracle as O
from standins.oracle import Poly
from standins.native import (make_algebra, mv_from, todict, showmv, ref_binary, ref_unary, BINARY, UNARY, rand_keys,
                             poly_vals, frac_vals, run_case)


def _apply(alg, name, a, b=None):
    return getattr(alg, name)(a, b) if b is not None else getattr(alg, name)(a)


def _elem(fr, mv):
    return O.nz(fr.mv_to_ref(mv))


def _eq(A, B):
    return O.eq(A, B)


def _eqf(A, B):
    try:
        return all(abs(complex(A.get(k, 0)) - complex(B.get(k, 0))) <= 1e-9 * max(1.0, abs(complex(B.get(k, 0)))) for k in set(A) | set(B))
    except Exception:
        return False


ALL_BIN = BINARY + ['div']
ALL_UN = UNARY + ['inv', 'outerexp', 'outersin', 'outercos']


def _safe(f):
    try:
        return ('value', f())
    except ZeroDivisionError:
        return ('raise', 'ZeroDivisionError')
    except Exception as e:
        return ('raise', type(e).__name__)


# ------------------------------------------------------------------ C08: storage independence (metamorphic)
def job_storage(job):
    rng = random.Random(job.get('seed', 0))
    out = {'evaluations': 0, 'failures': [], 'samples': [], 'configs': 0}
    pats = set()
    for cfg in job['configs']:
        try:
            alg = make_algebra(cfg)
        except Exception as _e:
            out['failures'].append({'config': cfg, 'what': 'constructing an admissible algebra raised', 'error': type(_e).__name__ + ': ' + str(_e)[:150]})
            continue
        fr = O.Frame(alg)
        out['configs'] += 1
        N = 2 ** alg.d
        # grade-block operand pairs (first operand of one parity, second of few grades): the shapes for which a composite operator
        # could be tempted to decide something from the *stored* grades
        directed = []
        if cfg.get('grade_pairs'):
            ifg = alg.indices_for_grades
            for ga, gb in cfg['grade_pairs']:
                directed.append((tuple(ifg[tuple(ga)]), tuple(ifg[tuple(gb)])))
        for it_ in range(cfg.get('random', 10) + len(directed)):
            if it_ < len(directed):
                ak, bk = directed[it_]
            else:
                ak, bk = rand_keys(rng, alg, rng.choice(['sparse', 'grade', 'perm'])), rand_keys(rng, alg, rng.choice(['sparse', 'grade', 'perm']))
            if not ak:
                ak = (0,)
            if not bk:
                bk = (0,)
            av, bv = frac_vals(rng, ak), frac_vals(rng, bk)

            def variants(keys, vals):
                yield 'same', keys, vals
                idx = list(range(len(keys)))
                rng.shuffle(idx)
                yield 'permuted', tuple(keys[i] for i in idx), [vals[i] for i in idx]
                extra = [k for k in rng.sample(range(N), min(N, 3)) if k not in keys]
                ks = list(keys) + extra
                vs = list(vals) + [F(0)] * len(extra)
                idx = list(range(len(ks)))
                rng.shuffle(idx)
                yield 'zero-padded', tuple(ks[i] for i in idx), [vs[i] for i in idx]
                # the full 2^d layouts are built here, not with asfullmv(): C08 is about operands that denote the same element,
                # and whether asfullmv() returns such an operand is C15's question
                d_ = dict(zip(keys, vals))
                canon_keys = tuple(alg.canon2bin.values())
                yield 'full layout, canonical order', canon_keys, [d_.get(k, F(0)) for k in canon_keys]
                yield 'full layout, binary order', tuple(range(N)), [d_.get(k, F(0)) for k in range(N)]
            for name in list(job['ops']) + (['sqrt', 'norm', 'normalized'] if job.get('study', True) else []):
                binary = name in ALL_BIN
                base = None
                study = name in ('sqrt', 'norm', 'normalized')
                if study:
                    # Study number: positive scalar + a part of one grade (floats; compared to rounding)
                    g = rng.randint(1, max(1, alg.d - 1))
                    gk = list(alg.indices_for_grades[(g,)])
                    gk = rng.sample(gk, rng.randint(1, min(2, len(gk))))
                    ak_s = (0,) + tuple(gk)
                    av_s = [float(rng.randint(6, 9))] + [float(rng.choice([0.5, -0.25, 0.75])) for _ in gk]
                    import warnings as _w
                    _w.simplefilter('ignore')
                for (va, ak2, av2) in (variants(ak_s, av_s) if study else variants(ak, av)):
                    for (vb, bk2, bv2) in (variants(bk, bv) if binary else [('-', None, None)]):
                        if binary and va != 'same' and vb != 'same' and rng.random() < 0.6:
                            continue
                        a = mv_from(alg, ak2, list(av2))
                        b = mv_from(alg, bk2, list(bv2)) if binary else None
                        keep_a = (tuple(a.keys()), list(a.values()))
                        res = _safe(lambda: _elem(fr, _apply(alg, name, a, b)))
                        out['evaluations'] += 1
                        pats.add((json.dumps(cfg, sort_keys=True), name, ak2, bk2))
                        if (tuple(a.keys()), list(a.values())) != keep_a:
                            out['failures'].append({'config': cfg, 'op': name, 'what': 'operand was modified', 'a': showmv(ak2, av2)})
                        if base is None:
                            base = res
                            continue
                        same = (res[0] == base[0]) and (res[0] == 'raise' and res[1] == base[1] or res[0] == 'value' and (_eq(res[1], base[1]) or _eqf(res[1], base[1])))
                        # a raise may legitimately depend on the pattern only through the element (e.g. ZeroDivisionError)
                        if not same and len(out['failures']) < 400:
                            out['failures'].append({'config': cfg, 'op': name, 'what': 'result depends on storage',
                                                    'a': showmv(ak2, av2), 'b': showmv(bk2, bv2) if binary else None,
                                                    'variant': [va, vb], 'got': str(res)[:300], 'expected_same_as': str(base)[:300],
                                                    'a_base': showmv(ak, av), 'b_base': showmv(bk, bv) if binary else None})
                if len(out['samples']) < 3:
                    out['samples'].append({'config': cfg, 'op': name, 'a': showmv(ak, av), 'b': showmv(bk, bv), 'variants': 'same/permuted/zero-padded/full canonical/full binary'})
    out['distinct'] = len(pats)
    return out


# ------------------------------------------------------------------ C09: history independence
def job_history(job):
    rng = random.Random(job.get('seed', 0))
    out = {'evaluations': 0, 'failures': [], 'samples': [], 'configs': 0}
    hist_count = 0
    for cfg in job['configs']:
        for h in range(cfg.get('histories', 5)):
            try:
                alg = make_algebra(cfg)
            except Exception as _e:
                out['failures'].append({'config': cfg, 'what': 'constructing an admissible algebra raised', 'error': type(_e).__name__ + ': ' + str(_e)[:150]})
                continue
            fr = O.Frame(alg)
            out['configs'] += 1
            N = 2 ** alg.d
            registered = {}

            def mk_reg(A):
                @A.register
                def f_gp_add(a, b):
                    return a * b + b
                @A.register
                def f_sw(a, b):
                    return (a >> b) - a.grade(0)
                @A.register
                def f_nested(a, b):
                    return f_gp_add(a, b) * a
                @A.register
                def f_ip_op(a, b):
                    return (a | b) + (a ^ b)
                @A.register
                def f_sums(a, b):
                    return a.sp(b) + a.acp(b) + (a + b)
                return {'f_gp_add': (f_gp_add, lambda a, b: a * b + b), 'f_sw': (f_sw, lambda a, b: (a >> b) - a.grade(0)),
                        'f_nested': (f_nested, lambda a, b: (a * b + b) * a), 'f_ip_op': (f_ip_op, lambda a, b: (a | b) + (a ^ b)),
                        'f_sums': (f_sums, lambda a, b: a.sp(b) + a.acp(b) + (a + b))}
            registered = mk_reg(alg)
            steps = []
            focus = [None]
            keysets = [tuple(rng.sample(range(N), rng.randint(1, min(N, 3)))) for _ in range(3)]
            returned = []
            # prelude: a direct operator call with the operand patterns one way round, then a registered function using the same
            # operators with the patterns the other way round (what one call left behind must not be mistaken for the mirrored case)
            if alg.d >= 2:
                vk, Bk = tuple(alg.indices_for_grades[(1,)]), tuple(alg.indices_for_grades[(2,)])
                vv, Bv = frac_vals(rng, vk), frac_vals(rng, Bk)
                for first in ('ip', 'sp', 'acp', 'add', 'op'):
                    _safe(lambda: getattr(alg, first)(mv_from(alg, Bk, list(Bv)), mv_from(alg, vk, list(vv))))
                for rn in ('f_ip_op', 'f_sums'):
                    out['evaluations'] += 1
                    fresh_alg0 = make_algebra(cfg)
                    g0 = _safe(lambda: registered[rn][0](mv_from(alg, vk, list(vv)), mv_from(alg, Bk, list(Bv))))
                    e0 = _safe(lambda: mk_reg(fresh_alg0)[rn][0](mv_from(fresh_alg0, vk, list(vv)), mv_from(fresh_alg0, Bk, list(Bv))))
                    if g0[0] != e0[0] or (g0[0] == 'value' and not _eq(_elem(fr, g0[1]), _elem(fr, e0[1]))):
                        out['failures'].append({'config': cfg, 'what': 'result differs from a fresh algebra', 'history': [['op', 'ip/sp/acp/add/op (bivector, vector)'], ['reg', rn + ' (vector, bivector)']],
                                                'got': str(g0)[:200], 'expected': str(e0)[:200]})
            for s in range(cfg.get('steps', 25)):
                ks = list(rng.choice(keysets))
                if rng.random() < 0.5:
                    rng.shuffle(ks)
                ks2 = list(rng.choice(keysets))
                if rng.random() < 0.5:
                    rng.shuffle(ks2)
                av, bv = frac_vals(rng, ks), frac_vals(rng, ks2)
                kind = rng.choice(['op', 'op', 'unary', 'reg', 'fail', 'spelling', 'symbolic'])
                name = rng.choice(['gp', 'op', 'ip', 'add', 'sub', 'sw', 'rp', 'cp']) if kind in ('op', 'fail') else \
                    rng.choice(['reverse', 'neg', 'normsq', 'hodge', 'unhodge', 'conjugate', 'involute', 'hodge', 'unhodge']) if kind == 'unary' else \
                    rng.choice(sorted(registered)) if kind == 'reg' else None
                if kind == 'symbolic':
                    # an operation on sympy-valued operands whose result needs the algebra's simplification step
                    negsq = [k for k in range(1, N) if O.gp(fr.blade(k), fr.blade(k), fr.sig).get(0, 0) < 0]
                    if not negsq:
                        kind, name = 'unary', 'reverse'
                    else:
                        name = ('rotor', rng.choice(negsq))
                if kind == 'spelling':
                    # a blade reached through two (generally different) spellings: the blade dictionary and coefficient access
                    cands = [n for n in alg.canon2bin if len(n) >= 3]
                    if not cands:
                        kind, name = 'unary', 'reverse'
                    else:
                        # one blade of grade >= 3 per history is revisited often, through spellings of either parity (what an
                        # earlier spelling left behind in the algebra must not leak into a later one)
                        deep = [n for n in cands if len(n) >= 4]
                        if focus[0] is None and deep:
                            focus[0] = rng.choice(deep)
                        cn = focus[0] if focus[0] is not None and rng.random() < 0.7 else rng.choice(cands)
                        g1, g2 = list(cn[1:]), list(cn[1:])
                        for _try in range(4):
                            rng.shuffle(g1)
                            if ''.join(g1) != cn[1:]:
                                break
                        rng.shuffle(g2)
                        name = ('e' + ''.join(g1), 'e' + ''.join(g2), alg.canon2bin[cn])
                        # independent expectation: spelling s of the blade named cn is parity(s -> cn) times that blade
                        def _par(sp, cn=cn):
                            perm = [cn[1:].index(c) for c in sp[1:]]
                            return -1 if sum(1 for i_ in range(len(perm)) for j_ in range(i_ + 1, len(perm)) if perm[i_] > perm[j_]) % 2 else 1
                        p1_, p2_ = _par(name[0]), _par(name[1])
                        spelled_exp = O.nz(fr.to_ref((name[2], 0), [F(3) * p1_ * p2_, F(3) * p1_])) if name[2] else None

                def run(A, reg):
                    a, b = mv_from(A, ks, list(av)), mv_from(A, ks2, list(bv))
                    if kind == 'op':
                        return getattr(A, name)(a, b), (a, b)
                    if kind == 'unary':
                        return getattr(A, name)(a), (a,)
                    if kind == 'reg':
                        return reg[name][0](a, b), (a, b)
                    if kind == 'symbolic':
                        import sympy
                        t_ = sympy.Symbol('t')
                        R = mv_from(A, (0, name[1]), [sympy.cos(t_), sympy.sin(t_)])
                        one = mv_from(A, (0,), [1])
                        res = (R * ~R) - one
                        # keys and simplified values as exact data (an unsimplified leftover shows as an extra key)
                        return mv_from(A, tuple(res.keys()), [F(int(sympy.simplify(v))) + 1000 if sympy.simplify(v).is_Integer else F(987654321) for v in res.values()]), (a,)      # +1000: a stored zero stays visible
                    if kind == 'spelling':
                        carrier = mv_from(A, (name[2], 0), [F(3), F(2)])
                        return A.blades[name[0]] * getattr(carrier, name[1]) + getattr(carrier, name[0]), (a,)
                    # failing call: division by a null blade (code generation itself fails: the symbolic denominator is identically
                    # zero) or, without null generators, by the zero scalar (the generated function fails at run time)
                    null = [k for k in range(1, N) if not O.gp(fr.blade(k), fr.blade(k), fr.sig).get(0, 0)]
                    z = mv_from(A, (null[0],), [F(1)]) if null and len(ks) % 2 else mv_from(A, (0,), [F(0)])
                    return A.div(a, z), (a,)
                got = _safe(lambda: run(alg, registered))
                fresh_alg = make_algebra(cfg)
                fresh = _safe(lambda: run(fresh_alg, mk_reg(fresh_alg)))
                out['evaluations'] += 1
                g = ('value', _elem(fr, got[1][0])) if got[0] == 'value' else got
                e = ('value', _elem(fr, fresh[1][0])) if fresh[0] == 'value' else fresh
                if kind == 'reg' and e[0] == 'value':
                    # direct evaluation as the independent expectation as well
                    pass
                ok = g[0] == e[0] and (g[1] == e[1] if g[0] == 'raise' else _eq(g[1], e[1]))
                if ok and kind == 'spelling' and spelled_exp is not None:
                    ok = g[0] == 'value' and _eq(g[1], spelled_exp)
                    if not ok:
                        e = ('value', spelled_exp)
                steps.append([kind, list(name) if isinstance(name, tuple) else name, ks, ks2])
                if got[0] == 'value':
                    for m in got[1][1]:
                        pass
                    returned.append((got[1][0], tuple(got[1][0].keys()), list(got[1][0].values())))
                if not ok and len(out['failures']) < 400:
                    out['failures'].append({'config': cfg, 'what': 'result differs from a fresh algebra', 'history': steps[-12:],
                                            'step': [kind, name], 'a': showmv(ks, av), 'b': showmv(ks2, bv),
                                            'got': str(g)[:300], 'expected': str(e)[:300]})
                    break
            for mvr, k0, v0 in returned:
                if tuple(mvr.keys()) != k0 or list(mvr.values()) != v0:
                    out['failures'].append({'config': cfg, 'what': 'a previously returned multivector changed', 'history': steps[-12:]})
                    break
            hist_count += 1
            if len(out['samples']) < 2:
                out['samples'].append({'config': cfg, 'history': steps[:8]})
    out['distinct'] = hist_count
    return out


# ------------------------------------------------------------------ C10: code is generated at most once per pattern
def job_count(job):
    import kingdon.codegen as cg
    import kingdon.operator_dict as od
    import builtins
    rng = random.Random(job.get('seed', 0))
    out = {'evaluations': 0, 'failures': [], 'samples': [], 'configs': 0}
    counter = {'compile': 0, 'do_codegen': 0, 'do_compile': 0}
    real_compile = builtins.compile

    def counting_compile(*a, **k):
        counter['compile'] += 1
        return real_compile(*a, **k)
    cg.compile = counting_compile
    real_dc, real_dcomp = od.do_codegen, od.do_compile

    def c_dc(*a, **k):
        counter['do_codegen'] += 1
        return real_dc(*a, **k)

    def c_dcomp(*a, **k):
        counter['do_compile'] += 1
        return real_dcomp(*a, **k)
    od.do_codegen, od.do_compile = c_dc, c_dcomp
    n_pat = 0
    try:
        import numpy as np
        import sympy
        for cfg in job['configs']:
            try:
                alg = make_algebra(cfg)
            except Exception as _e:
                out['failures'].append({'config': cfg, 'what': 'constructing an admissible algebra raised', 'error': type(_e).__name__ + ': ' + str(_e)[:150]})
                continue
            out['configs'] += 1
            N = 2 ** alg.d

            @alg.register
            def regf(a, b):
                return a * b + (a | b)

            # symbolically optimised registered functions of one and of three operands: OperatorDict.__call__ proper (two operands
            # take the _call_binary shortcut), same once-per-pattern contract
            @alg.register(symbolic=True)
            def sreg1(a):
                return a * a + a

            @alg.register(symbolic=True)
            def sreg3(a, b, c):
                return a * b + (b | c)
            for _ in range(cfg.get('random', 6)):
                ak, bk = rand_keys(rng, alg, 'sparse'), rand_keys(rng, alg, 'perm')
                ck = tuple(sorted(rng.sample(range(N), min(N, 2))))
                for name in list(job['ops']) + (['sreg1', 'sreg3'] if 'regf' in job['ops'] else []):
                    binary = name in ALL_BIN or name == 'regf'
                    regd = {'regf': regf, 'sreg1': sreg1, 'sreg3': sreg3}
                    f = regd[name] if name in regd else getattr(alg, name)     # (an empty operator dictionary is falsy)
                    n_pat += 1

                    def vals(kind, keys, pre):
                        if kind == 'int':
                            return [rng.randint(1, 5) for _ in keys]
                        if kind == 'float':
                            return [rng.random() + 0.5 for _ in keys]
                        if kind == 'Fraction':
                            return frac_vals(rng, keys)
                        if kind == 'ndarray':
                            return [np.array([rng.random() + 0.5, rng.random() + 0.5]) for _ in keys]
                        if kind == 'sympy':
                            return [sympy.Symbol(f'{pre}{k}') for k in keys]
                    first = True
                    kinds = ['int', 'float', 'Fraction', 'ndarray', 'sympy', 'int']
                    if name in ('regf', 'sreg1', 'sreg3'):
                        kinds = ['int', 'float', 'Fraction', 'ndarray', 'sympy', 'int', 'sympy']
                    for kind in kinds:
                        a = mv_from(alg, ak, vals(kind, ak, 'a'))
                        b = mv_from(alg, bk, vals(kind, bk, 'b'))
                        before = dict(counter)
                        failed = False
                        try:
                            if name == 'sreg3':
                                f(a, b, mv_from(alg, ck, vals(kind, ck, 'c')))
                            else:
                                f(a, b) if binary else f(a)
                        except Exception:
                            failed = True
                        out['evaluations'] += 1
                        if first and failed:
                            break       # generation itself failed: there is no function to reuse for this pattern
                        delta = {k: counter[k] - before[k] for k in counter}
                        if not first and any(delta.values()):
                            out['failures'].append({'config': cfg, 'op': name, 'a_keys': list(ak), 'b_keys': list(bk),
                                                    'value_kind': kind, 'what': 'a repeated key pattern generated/compiled again',
                                                    'events': delta})
                        first = False
                    if len(out['samples']) < 3:
                        out['samples'].append({'config': cfg, 'op': name, 'a_keys': list(ak), 'b_keys': list(bk), 'value_kinds': kinds})
            # many distinct patterns through one operator, then all of them again: nothing may be generated in the second pass,
            # however many patterns the operator has seen in between (a cache that forgets is a cache that regenerates)
            sweep = cfg.get('sweep', 0)
            if sweep:
                seen_p, pats_u = set(), []
                while len(pats_u) < min(sweep, 2 ** N - 1):
                    ks = tuple(rng.sample(range(N), rng.randint(1, min(N, 6))))
                    if ks not in seen_p:
                        seen_p.add(ks)
                        pats_u.append(ks)
                half = pats_u[:max(2, len(pats_u) // 2)]
                for opname, binary in (('reverse', False), ('add', True)):
                    f = getattr(alg, opname)
                    todo = pats_u if not binary else list(zip(half, reversed(half)))
                    for rnd in (0, 1, 2):
                        if rnd == 1:
                            # things a session does between two uses of an algebra that must not cost its generated code: deriving
                            # another algebra from it, re-assigning an option to the value it has
                            import dataclasses as _dc
                            try:
                                _dc.replace(alg, pretty_blade='B')
                                alg.cse = alg.cse
                                alg.wrapper = alg.wrapper
                            except Exception:
                                pass
                        before = dict(counter)
                        for pat in (todo if rnd < 2 else list(reversed(todo))):
                            out['evaluations'] += 1
                            if binary:
                                f(mv_from(alg, pat[0], [rnd + 1] * len(pat[0])), mv_from(alg, pat[1], [rnd + 2] * len(pat[1])))
                            else:
                                f(mv_from(alg, pat, [rnd + 1] * len(pat)))
                        delta = {k: counter[k] - before[k] for k in counter}
                        if rnd == 0 and delta['do_codegen'] + delta['do_compile'] != len(todo):
                            out['failures'].append({'config': cfg, 'op': opname, 'what': 'first visits of distinct patterns did not generate exactly once each',
                                                    'patterns': len(todo), 'events': delta})
                        if rnd > 0 and any(delta.values()):
                            out['failures'].append({'config': cfg, 'op': opname, 'what': f'revisiting {len(todo)} patterns generated/compiled again',
                                                    'events': delta})
                    n_pat += len(todo)
    finally:
        del cg.compile
        od.do_codegen, od.do_compile = real_dc, real_dcomp
    out['distinct'] = n_pat
    return out


# ------------------------------------------------------------------ C09: generated function names are unique per ordered pattern
def job_typeid(job):
    out = {'evaluations': 0, 'failures': [], 'samples': [], 'configs': 0}
    n = 0
    for cfg in job['configs']:
        try:
            alg = make_algebra(cfg)
        except Exception as _e:
            out['failures'].append({'config': cfg, 'what': 'constructing an admissible algebra raised', 'error': type(_e).__name__ + ': ' + str(_e)[:150]})
            continue
        out['configs'] += 1
        N = 2 ** alg.d
        maxlen = cfg.get('maxlen', N)
        # names of generated functions must be unique across operators as well: one pattern through every operator
        allnames = {}
        ks = tuple(range(min(N, 3)))
        for opname, od in alg.registry.items():
            try:
                from kingdon.operator_dict import UnaryOperatorDict
                keys_out, func = od[ks] if isinstance(od, UnaryOperatorDict) else od[(ks, ks)]
            except Exception:
                continue
            out['evaluations'] += 1
            nm = func.__name__
            if nm in allnames:
                out['failures'].append({'config': cfg, 'what': 'two operators share one generated function name (one numspace slot)', 'name': nm,
                                        'operators': [allnames[nm], opname]})
            allnames[nm] = opname
        names = {}
        pats = [s for k in range(0, maxlen + 1) for s in itertools.permutations(range(N), k)]
        for ks in pats:
            if not ks:
                continue
            keys_out, func = alg.reverse[tuple(ks)]
            out['evaluations'] += 1
            n += 1
            nm = func.__name__
            if nm in names and names[nm] != ks:
                out['failures'].append({'config': cfg, 'what': 'two key orders share one generated function name', 'name': nm,
                                        'keys': [list(names[nm]), list(ks)]})
                break
            names[nm] = ks
        # binary names: pairs of short patterns
        names = {}
        short = [s for k in range(1, 3) for s in itertools.permutations(range(N), k)][:40]
        for ka in short:
            for kb in short:
                keys_out, func = alg.add[(tuple(ka), tuple(kb))]
                out['evaluations'] += 1
                nm = func.__name__
                if nm in names and names[nm] != (ka, kb):
                    out['failures'].append({'config': cfg, 'what': 'two ordered pattern pairs share one generated function name', 'name': nm,
                                            'keys': [str(names[nm]), str((ka, kb))]})
                    break
                names[nm] = (ka, kb)
        if len(out['samples']) < 2:
            out['samples'].append({'config': cfg, 'unary_patterns': len(pats), 'example': list(names.items())[-1][0] if names else None})
    out['distinct'] = n
    return out


# ------------------------------------------------------------------ C09: no shared mutable coefficient storage
def job_aliasing(job):
    """No operation hands out the coefficient storage of an operand (or of an earlier result): after writing into a result
    in place, the operand is unchanged, and vice versa."""
    import copy
    rng = random.Random(job.get('seed', 0))
    out = {'evaluations': 0, 'failures': [], 'samples': [], 'configs': 0}
    n = 0
    for cfg in job['configs']:
        try:
            alg = make_algebra(cfg)
        except Exception as _e:
            out['failures'].append({'config': cfg, 'what': 'constructing an admissible algebra raised', 'error': repr(_e)[:100]})
            continue
        out['configs'] += 1
        d = alg.d
        operands = []
        for g in range(d + 1):
            ks = tuple(alg.indices_for_grades[(g,)])
            operands.append(('grade-%d' % g, ks))
        operands.append(('full-canonical', tuple(alg.canon2bin.values())))
        operands.append(('even', tuple(alg.indices_for_grades[tuple(range(0, d + 1, 2))])))
        operands.append(('sparse', tuple(rng.sample(range(2 ** d), min(2 ** d, 3)))))
        calls = {
            'grade(own grades)': lambda m: m.grade(*m.grades), 'grade(0)': lambda m: m.grade(0), 'grade(all)': lambda m: m.grade(tuple(range(d + 1))),
            'asfullmv()': lambda m: m.asfullmv(), 'asfullmv(canonical=False)': lambda m: m.asfullmv(canonical=False),
            'map(identity)': lambda m: m.map(lambda v: v), 'filter(all)': lambda m: m.filter(lambda v: True),
            'neg': lambda m: -m, 'reverse': lambda m: ~m, 'involute': lambda m: m.involute(), 'add 0': lambda m: m + 0, 'mul 1': lambda m: m * 1, 'sub 0': lambda m: m - 0,
            'call()': lambda m: m(), 'add(mv, mv)': lambda m: m + m,
        }       # (constructing a multivector from a caller-supplied list keeps that list by design: not an operation on an operand)
        for oname, ks in operands:
            for cname, f in calls.items():
                vals = [F(rng.randint(1, 9)) for _ in ks]
                m = mv_from(alg, ks, list(vals))
                out['evaluations'] += 1
                n += 1
                try:
                    r = f(m)
                except Exception:
                    continue
                if not hasattr(r, 'values') or r is m:
                    continue
                rv = r.values()
                if isinstance(rv, list) and rv:
                    before = list(m.values())
                    saved = rv[0]
                    rv[0] = F(-12345)
                    changed = list(m.values()) != before
                    rv[0] = saved
                    if changed or rv is m.values():
                        out['failures'].append({'config': cfg, 'operand': oname, 'keys': list(ks), 'call': cname,
                                                'what': 'the result shares its coefficient storage with the operand: writing into the result changed the operand'})
                if isinstance(m.values(), list) and m.values() and hasattr(r, 'values'):
                    before = copy.copy(list(r.values()))
                    saved = m.values()[0]
                    m.values()[0] = F(-54321)
                    changed = list(r.values()) != before
                    m.values()[0] = saved
                    if changed and len(out['failures']) < 400:
                        out['failures'].append({'config': cfg, 'operand': oname, 'keys': list(ks), 'call': cname,
                                                'what': 'a previously returned multivector changed when the operand was written in place'})
        if len(out['samples']) < 2:
            out['samples'].append({'config': cfg, 'operands': [o for o, _ in operands], 'calls': sorted(calls)})
    out['distinct'] = n
    return out


# ------------------------------------------------------------------ C04 / C15: grade selection on every storage layout
def job_gradesel(job):
    """a.grade(G) / a.grade(*G) returns exactly the stored coefficients of the blades whose grade (number of set bits of the key)
    is in G, for sparse, permuted, dense-canonical, dense-binary, dense-reversed and zero-containing layouts."""
    rng = random.Random(job.get('seed', 0))
    out = {'evaluations': 0, 'failures': [], 'samples': [], 'configs': 0}
    for cfg in job['configs']:
        try:
            alg = make_algebra(cfg)
        except Exception as _e:
            out['failures'].append({'config': cfg, 'what': 'constructing an admissible algebra raised', 'error': type(_e).__name__ + ': ' + str(_e)[:150]})
            continue
        out['configs'] += 1
        d, N = alg.d, 2 ** alg.d
        canon = list(alg.canon2bin.values())
        layouts = [('dense-canonical', canon), ('dense-binary', list(range(N))), ('dense-reversed', canon[::-1]),
                   ('dense-shuffled', rng.sample(canon, N))]
        for _ in range(cfg.get('random', 4)):
            layouts.append(('sparse', list(rand_keys(rng, alg, 'sparse') or (1,))))
            layouts.append(('permuted', list(rand_keys(rng, alg, 'perm') or (1,))))
        subsets = [g for r_ in range(1, d + 2) for g in itertools.combinations(range(d + 1), r_)]
        if len(subsets) > 24:
            subsets = subsets[:d + 1] + rng.sample(subsets[d + 1:], 24 - d - 1)
        nbad = 0
        for kind, keys in layouts:
            vals = [F(rng.randint(-9, 9) or 1, rng.randint(1, 3)) + i for i, _ in enumerate(keys)]      # pairwise distinct
            x = mv_from(alg, keys, vals)
            stored = dict(zip(keys, vals))
            for G in subsets:
                want = {k: v for k, v in stored.items() if bin(k).count('1') in G}
                for form, call in (('grade(*G)', lambda: x.grade(*G)), ('grade(G)', lambda: x.grade(G))):
                    out['evaluations'] += 1
                    r = _safe(call)
                    got = dict(zip(r[1].keys(), r[1].values())) if r[0] == 'value' else r[1]
                    if got != want:
                        nbad += 1
                        if nbad <= 3:
                            out['failures'].append({'config': cfg, 'what': 'grade() does not return exactly the stored coefficients of the requested grades',
                                                    'layout': kind, 'keys': list(keys), 'grades': list(G), 'form': form,
                                                    'got': str(got)[:200], 'expected': str(want)[:200]})
            if list(x.keys()) != list(keys) or list(x.values()) != vals:
                out['failures'].append({'config': cfg, 'what': 'grade() changed its operand', 'layout': kind})
        if len(out['samples']) < 3:
            out['samples'].append({'config': cfg, 'layouts': [k for k, _ in layouts], 'grade_subsets': len(subsets)})
    return out
