"""Stand-in jobs: broadcasting (C16), register (C11), symbolic/numeric commutation (C12), options (C13)."""
import itertools
import random
import json
import operator
from fractions import Fraction as F

from standins import oracle as O
from standins.native import (make_algebra, mv_from, todict, showmv, ref_binary, ref_unary, BINARY, UNARY, rand_keys, frac_vals)

INFIX = {'gp': operator.mul, 'ip': operator.or_, 'op': operator.xor, 'rp': operator.and_, 'sw': operator.rshift,
         'proj': operator.matmul, 'add': operator.add, 'sub': operator.sub, 'div': operator.truediv}


def _safe(f):
    try:
        return ('value', f())
    except ZeroDivisionError:
        return ('raise', 'ZeroDivisionError')
    except Exception as e:
        return ('raise', type(e).__name__ + ':' + str(e)[:80])


def _close(x, y):
    import numpy as np
    try:
        return bool(np.allclose(np.asarray(x, dtype=float), np.asarray(y, dtype=float), rtol=1e-9, atol=1e-9))
    except Exception:
        return x == y


def _mv_close(A, B):
    ka = {k: v for k, v in zip(A.keys(), A.values())}
    kb = {k: v for k, v in zip(B.keys(), B.values())}
    for k in set(ka) | set(kb):
        if not _close(ka.get(k, 0), kb.get(k, 0)):
            return False
    return True


def job_broadcast(job):
    import numpy as np
    rng = random.Random(job.get('seed', 0))
    out = {'evaluations': 0, 'failures': [], 'samples': [], 'configs': 0}
    pats = set()

    def fail(rec):
        if len(out['failures']) < 400:
            out['failures'].append(rec)
    for cfg in job['configs']:
        try:
            alg = make_algebra(cfg)
        except Exception as _e:
            out['failures'].append({'config': cfg, 'what': 'constructing an admissible algebra raised', 'error': type(_e).__name__ + ': ' + str(_e)[:150]})
            continue
        out['configs'] += 1
        # (0) operands backed by ONE ndarray each, same keys, different trailing shapes (a cloud of N elements and one constant
        # element): every operator acts coefficient-wise, the coefficient axis of one operand never meets the element axis of the other
        from kingdon.multivector import MultiVector as _MV
        vk = tuple(alg.indices_for_grades[(1,)]) or (0,)
        nk = len(vk)
        for N in (nk, 1, nk + 1):
            Xv = np.array([[float(rng.randint(-4, 4) or 1) + 10 * i + j for j in range(N)] for i in range(nk)])
            Yv = np.array([float(100 * (i + 1)) for i in range(nk)])
            for name in ['add', 'sub', 'gp', 'op']:
                for order in ('cloud-first', 'constant-first'):
                    X, Y = _MV.fromkeysvalues(alg, vk, Xv.copy()), _MV.fromkeysvalues(alg, vk, Yv.copy())
                    out['evaluations'] += 1
                    infix = {'add': lambda p_, q_: p_ + q_, 'sub': lambda p_, q_: p_ - q_, 'gp': lambda p_, q_: p_ * q_, 'op': lambda p_, q_: p_ ^ q_}[name]
                    res = _safe(lambda: infix(X, Y) if order == 'cloud-first' else infix(Y, X))
                    if res[0] != 'value':
                        fail({'config': cfg, 'op': name, 'what': 'operator raised on ndarray-backed operands of different trailing shapes', 'error': res[1],
                              'shapes': [list(Xv.shape), list(Yv.shape)], 'order': order})
                        continue
                    for j in range(N):
                        xj, y = mv_from(alg, vk, [float(v) for v in Xv[:, j]]), mv_from(alg, vk, [float(v) for v in Yv])
                        want = todict(getattr(alg, name)(xj, y) if order == 'cloud-first' else getattr(alg, name)(y, xj))
                        got = {}
                        bad = False
                        for k, v in todict(res[1]).items():
                            a_ = np.asarray(v)
                            if a_.shape == ():
                                got[k] = float(a_)
                            elif a_.shape == (N,):
                                got[k] = float(a_[j])
                            else:
                                bad = True
                        want = {k: float(v) for k, v in want.items() if abs(float(v)) > 1e-12}
                        got = {k: v for k, v in got.items() if abs(v) > 1e-12}
                        if bad or set(got) != set(want) or any(abs(got[k] - want[k]) > 1e-9 for k in want):
                            fail({'config': cfg, 'op': name, 'what': 'operator on ndarray-backed operands of different trailing shapes is not element-wise',
                                  'shapes': [list(Xv.shape), list(Yv.shape)], 'order': order, 'element': j, 'got': str(got)[:200], 'expected': str(want)[:200]})
                            break
        for it in range(cfg.get('random', 4)):
            ak, bk = rand_keys(rng, alg, 'sparse'), rand_keys(rng, alg, 'sparse')
            shape = rng.choice([(3,), (2, 3)])
            backing = rng.choice(['list-of-arrays', 'ndarray'])

            def arr_vals(keys):
                vs = [np.array([[rng.randint(-4, 4) or 1 for _ in range(shape[-1])] for _ in range(shape[0] if len(shape) > 1 else 1)], dtype=float).reshape(shape) for _ in keys]
                return np.array(vs) if backing == 'ndarray' else vs
            av, bv = arr_vals(ak), arr_vals(bk)
            a, b = mv_from(alg, ak, av) if backing != 'ndarray' else type(mv_from(alg, ak, []))\
                .fromkeysvalues(alg, tuple(ak), av), None
            from kingdon.multivector import MultiVector
            a = MultiVector.fromkeysvalues(alg, tuple(ak), av)
            b = MultiVector.fromkeysvalues(alg, tuple(bk), bv)
            idxs = [tuple(rng.randrange(n) for n in shape)]
            if len(shape) > 1:
                idxs.append((rng.randrange(shape[0]),))
            # (1) indexing commutes with every operator
            for name in ['gp', 'op', 'ip', 'rp', 'add', 'sub', 'sw', 'proj', 'cp', 'acp', 'lc', 'rc', 'sp']:
                res = _safe(lambda: getattr(alg, name)(a, b))
                out['evaluations'] += 1
                pats.add((json.dumps(cfg, sort_keys=True), name, ak, bk, shape, backing))
                if res[0] != 'value':
                    fail({'config': cfg, 'op': name, 'what': 'operator raised on array coefficients', 'error': res[1], 'a_keys': list(ak), 'b_keys': list(bk), 'shape': list(shape), 'backing': backing})
                    continue
                for idx in idxs:
                    lhs = res[1][idx]
                    rhs = getattr(alg, name)(a[idx], b[idx])
                    if not _mv_close(lhs, rhs):
                        fail({'config': cfg, 'op': name, 'what': 'indexing the result != operating on indexed operands', 'index': list(idx),
                              'a_keys': list(ak), 'b_keys': list(bk), 'shape': list(shape), 'backing': backing})
            for name in ['neg', 'reverse', 'involute', 'conjugate', 'normsq', 'hodge']:
                res = _safe(lambda: getattr(alg, name)(a))
                out['evaluations'] += 1
                if res[0] == 'value':
                    for idx in idxs:
                        if not _mv_close(res[1][idx], getattr(alg, name)(a[idx])):
                            fail({'config': cfg, 'op': name, 'what': 'indexing the result != operating on the indexed operand', 'index': list(idx), 'a_keys': list(ak)})
            # (2) setitem touches exactly the addressed entries
            c = MultiVector.fromkeysvalues(alg, tuple(ak), arr_vals(ak))
            before = [np.array(v, dtype=float).copy() for v in c.values()]
            idx = idxs[0]
            newvals = [float(rng.randint(10, 20)) for _ in ak]
            c[idx] = newvals
            out['evaluations'] += 1
            for j, v in enumerate(c.values()):
                exp = before[j].copy()
                exp[idx] = newvals[j]
                if not np.array_equal(np.array(v, dtype=float), exp):
                    fail({'config': cfg, 'what': 'setitem changed other entries or missed the addressed one', 'index': list(idx), 'a_keys': list(ak), 'backing': backing})
            # (2b) ndarray-backed multivector: basic and advanced (list / mask / slice) index expressions on the trailing axes
            n0 = shape[0]
            forms = [slice(0, n0, 2), [0, n0 - 1], np.array([n0 - 1, 0]), np.arange(n0) % 2 == 0, Ellipsis, -1]
            if len(shape) > 1:
                forms += [(slice(None), [0, shape[1] - 1]), ([0, n0 - 1], 1)]
            for form in forms:
                base = np.array([np.arange(int(np.prod(shape)), dtype=float).reshape(shape) + 100 * j for j in range(len(ak))])
                c2 = MultiVector.fromkeysvalues(alg, tuple(ak), base.copy())
                ref = base.copy()
                idxt = form if isinstance(form, tuple) else (form,)
                sel_shape = ref[(0, *idxt)].shape
                newv = [np.full(sel_shape, -7.0 - j) if sel_shape else -7.0 - j for j in range(len(ak))]
                out['evaluations'] += 1
                try:
                    c2[form] = newv
                    for j in range(len(ak)):
                        ref[(j, *idxt)] = newv[j]
                    if not np.array_equal(np.array(c2.values(), dtype=float), ref):
                        fail({'config': cfg, 'what': 'assignment through an ndarray-backed multivector did not touch exactly the addressed entries', 'index': repr(form)[:60], 'shape': list(shape)})
                    got = c2[form]
                    if not np.array_equal(np.array(got.values(), dtype=float), ref[(slice(None), *idxt)]):
                        fail({'config': cfg, 'what': 'indexing an ndarray-backed multivector returned other entries than addressed', 'index': repr(form)[:60], 'shape': list(shape)})
                except Exception as e:
                    fail({'config': cfg, 'what': 'indexing / assignment with a valid numpy index raised', 'index': repr(form)[:60], 'error': repr(e)[:120]})
            # (2b) a plain number next to array coefficients of another dtype (integer arrays and 0.5, float arrays and a complex
            # number): the number is the scalar multivector, whatever the arrays hold
            for dt, num_ in ((int, 0.5), (int, 2.5), (float, 1.5 + 2j), (np.float32, 0.1)):
                ia = MultiVector.fromkeysvalues(alg, tuple(ak), [np.arange(1, 4, dtype=dt) * (j_ + 1) for j_ in range(len(ak))])
                for name in ('gp', 'add', 'sub'):
                    for side in ('left', 'right'):
                        out['evaluations'] += 1
                        opf = INFIX[name]
                        got = _safe(lambda: opf(num_, ia) if side == 'left' else opf(ia, num_))
                        for j_ in range(3):
                            el = MultiVector.fromkeysvalues(alg, tuple(ak), [complex(v[j_]) if isinstance(num_, complex) else float(v[j_]) for v in ia.values()])
                            exp = _safe(lambda: opf(num_, el) if side == 'left' else opf(el, num_))
                            # element j of every coefficient of the result (a coefficient the number alone contributes stays a number)
                            ge = ('value', {k: (v[j_] if hasattr(v, '__getitem__') else v) for k, v in zip(got[1].keys(), got[1].values())}) if got[0] == 'value' else got
                            ed = dict(zip(exp[1].keys(), exp[1].values())) if exp[0] == 'value' else None
                            okn = ge[0] == exp[0] and (ge[0] != 'value' or all(
                                abs(complex(ge[1].get(k, 0)) - complex(ed.get(k, 0))) <= 1e-6 * max(1.0, abs(complex(ed.get(k, 0)))) for k in set(ge[1]) | set(ed)))
                            if okn and got[0] == 'value' and j_ == 0:
                                ix = _safe(lambda: got[1][0])
                                if ix[0] != 'value':
                                    fail({'config': cfg, 'op': name, 'what': 'indexing the result of <number> op <array-valued multivector> raised', 'number': str(num_),
                                          'a_keys': list(ak), 'error': ix[1]})
                            if not okn:
                                fail({'config': cfg, 'op': name, 'what': f'number on the {side} of array coefficients of dtype {np.dtype(dt).name}: element differs from number op element',
                                      'number': str(num_), 'a_keys': list(ak), 'element': j_, 'got': str(ge)[:160], 'expected': str(exp)[:160]})
                                break
            # (3) numbers, lists, tuples, callables on either side keep their side
            x = MultiVector.fromkeysvalues(alg, tuple(ak), frac_vals(rng, ak))
            y = MultiVector.fromkeysvalues(alg, tuple(bk), frac_vals(rng, bk))
            num = F(rng.randint(2, 5))
            scal = MultiVector.fromkeysvalues(alg, (0,), [num])
            # plain Python ints and floats (the commonest numbers; a shortcut for them must still be the scalar multivector for every operator)
            for pnum in (int(num), float(num) + 0.5, -1, 0.25):
                pscal = MultiVector.fromkeysvalues(alg, (0,), [pnum])
                for name, opf in INFIX.items():
                    for side in ('left', 'right'):
                        out['evaluations'] += 1
                        got = _safe(lambda: opf(pnum, x) if side == 'left' else opf(x, pnum))
                        exp = _safe(lambda: getattr(alg, name)(pscal, x) if side == 'left' else getattr(alg, name)(x, pscal))
                        if got[0] != exp[0] or (got[0] == 'value' and not _mv_close(got[1], exp[1])):
                            fail({'config': cfg, 'op': name, 'what': f'plain number on the {side} != scalar multivector on the {side}', 'a': showmv(ak, x.values()), 'number': repr(pnum),
                                  'got': str(got)[:200], 'expected': str(exp)[:200]})
            for name, opf in INFIX.items():
                for side in ('left', 'right'):
                    out['evaluations'] += 1
                    got = _safe(lambda: opf(num, x) if side == 'left' else opf(x, num))
                    exp = _safe(lambda: getattr(alg, name)(scal, x) if side == 'left' else getattr(alg, name)(x, scal))
                    if got[0] != exp[0] or (got[0] == 'value' and not _mv_close(got[1], exp[1])):
                        fail({'config': cfg, 'op': name, 'what': f'number on the {side} != scalar multivector on the {side}', 'a': showmv(ak, x.values()), 'number': str(num),
                              'got': str(got)[:200], 'expected': str(exp)[:200]})
                    # the same expression inside a registered function (the operator is then applied to recorders, not multivectors)
                    out['evaluations'] += 1
                    inum = int(num)            # a plain int: Fraction constants inside registered functions are C11's known finding F12

                    def number_left(v):
                        return opf(inum, v)

                    def number_right(v):
                        return opf(v, inum)
                    reg = _safe(lambda: alg.register(number_left if side == 'left' else number_right)(x))
                    # sums, differences and products with numbers must work there; for the other operators the recorder may raise,
                    # but it never returns another value (C11)
                    must = name in ('add', 'sub', 'gp')
                    if (reg[0] == 'value' and exp[0] == 'value' and not _mv_close(reg[1], exp[1])) or (must and reg[0] != exp[0]):
                        fail({'config': cfg, 'op': name, 'what': f'number on the {side} inside a registered function != scalar multivector on the {side}',
                              'a': showmv(ak, x.values()), 'number': str(num), 'got': str(reg)[:200], 'expected': str(exp)[:200]})
                    for cont in (list, tuple):
                        seq = cont([x, y])
                        other = y if name not in ('div',) else x
                        got = _safe(lambda: opf(seq, other) if side == 'left' else opf(other, seq))
                        exp = _safe(lambda: cont(getattr(alg, name)(e, other) if side == 'left' else getattr(alg, name)(other, e) for e in seq))
                        out['evaluations'] += 1
                        okc = got[0] == exp[0] and (got[0] != 'value' or (type(got[1]) is cont and len(got[1]) == 2 and all(_mv_close(g, e) for g, e in zip(got[1], exp[1]))))
                        if not okc:
                            fail({'config': cfg, 'op': name, 'what': f'{cont.__name__} on the {side}: not the {cont.__name__} of results in order / side', 'a_keys': list(ak), 'b_keys': list(bk),
                                  'got': str(got)[:200], 'expected': str(exp)[:200]})
                    thunk = lambda: (lambda: x)
                    got = _safe(lambda: opf(thunk(), y) if side == 'left' else opf(y, thunk()))
                    exp = _safe(lambda: getattr(alg, name)(x, y) if side == 'left' else getattr(alg, name)(y, x))
                    out['evaluations'] += 1
                    if got[0] != exp[0] or (got[0] == 'value' and not _mv_close(got[1], exp[1])):
                        fail({'config': cfg, 'op': name, 'what': f'nested callable on the {side} is not replaced by its value with the side kept',
                              'a_keys': list(ak), 'b_keys': list(bk), 'got': str(got)[:200], 'expected': str(exp)[:200]})
            if len(out['samples']) < 3:
                out['samples'].append({'config': cfg, 'a_keys': list(ak), 'b_keys': list(bk), 'shape': list(shape), 'backing': backing, 'indices': [list(i) for i in idxs]})
    out['distinct'] = len(pats)
    return out


# ------------------------------------------------------------------ C11: registered == direct
BIN_FORMS = ['({x} * {y})', '({x} | {y})', '({x} ^ {y})', '({x} & {y})', '({x} >> {y})', '({x} @ {y})', '({x} + {y})', '({x} - {y})',
             '{x}.gp({y})', '{x}.ip({y})', '{x}.op({y})', '{x}.rp({y})', '{x}.sw({y})', '{x}.proj({y})', '{x}.sp({y})', '{x}.lc({y})',
             '{x}.rc({y})', '{x}.cp({y})', '{x}.acp({y})', '{x}.add({y})', '{x}.sub({y})']
UN_FORMS = ['{x}', '(~{x})', '(-{x})', '{x}.reverse()', '{x}.involute()', '{x}.conjugate()', '{x}.normsq()', '{x}.dual()', '{x}.undual()',
            '{x}.grade(1)', '{x}.grade(0, 2)', '{x}.grade((1, 2))', '(2 * {x})', '({x} * 3)', '({x} + 2)', '(2 + {x})', '({x} - 2)', '(2 - {x})',
            '({x} / 2)', '({x} ** 2)', '({x} ** 3)', '({x} ** 0)', '{x}.hodge()', '{x}.unhodge()',
            '({x} / Q23)', '({x} * Q23)', '(Q23 * {x})', '({x} / 2.5)', '({x} * -3)', '({x} / -4)', '(-2 * {x})']
Q23 = F(2, 3)          # a number whose text is not a single literal (division by it must not be spliced into an expression unparenthesised)
PARTIAL_FORMS = ['{x}.inv()', '({x} ** -1)', '({x} ** -2)', '({x} / {y})', '{x}.div({y})', '{x}.norm()', '{x}.normalized()',
                 '({x}.normsq()).sqrt()', '({x}.e1 * {y})', '({x}.e12 + {y})', '({y} * {x}.e21)', '({x}.e * {y})', '{x}.polarity()', '{x}.unpolarity()']


def _mk(expr, nargs=2):
    names = ['a', 'b', 'c'][:nargs]
    src = f"lambda {', '.join(names)}: {expr}"
    f = eval(src)
    safe = ''.join(ch if ch.isalnum() else '_' for ch in expr)[:40]
    f.__name__ = 'f_' + safe + '_' + str(abs(hash(expr)) % 100000)
    return f


def job_register(job):
    rng = random.Random(job.get('seed', 0))
    out = {'evaluations': 0, 'failures': [], 'samples': [], 'configs': 0}
    exprs = set()
    for cfg in job['configs']:
        try:
            alg = make_algebra(cfg)
        except Exception as _e:
            out['failures'].append({'config': cfg, 'what': 'constructing an admissible algebra raised', 'error': type(_e).__name__ + ': ' + str(_e)[:150]})
            continue
        fr = O.Frame(alg)
        out['configs'] += 1
        todo = []
        if cfg.get('exhaustive_depth2'):
            for bf in BIN_FORMS:
                for ux in UN_FORMS[:cfg.get('unary_limit', len(UN_FORMS))]:
                    todo.append(bf.format(x=ux.format(x='a'), y='b'))
                    todo.append(bf.format(x='a', y=ux.format(x='b')))
                for bf2 in BIN_FORMS:
                    todo.append(bf.format(x=bf2.format(x='a', y='b'), y='a'))
            for pf in PARTIAL_FORMS:
                todo.append(pf.format(x='a', y='b'))
                todo.append(pf.format(x='(a + b)', y='b'))
        for _ in range(cfg.get('random', 0)):
            def gen(depth):
                if depth == 0:
                    return rng.choice(['a', 'b', 'c'][:cfg.get('nargs', 2)])
                r = rng.random()
                if r < 0.45:
                    return rng.choice(BIN_FORMS).format(x=gen(depth - 1), y=gen(depth - 1))
                if r < 0.85:
                    return rng.choice(UN_FORMS).format(x=gen(depth - 1))
                return rng.choice(PARTIAL_FORMS).format(x=gen(depth - 1), y=gen(depth - 1))
            todo.append(gen(rng.choice([2, 3, 3, 4])))
        if cfg.get('sample') and len(todo) > cfg['sample']:
            todo = rng.sample(todo, cfg['sample'])
        todo = list(cfg.get('always', [])) + todo
        nargs = cfg.get('nargs', 2)
        # directed operands: every single blade and a few two-blade patterns as first argument of the unary involution / dual forms
        # (a recorder decides on the stored keys alone what it emits)
        directed = []
        if cfg.get('single_blades'):
            N_ = 2 ** alg.d
            pats_ = [(k,) for k in range(N_)] + [tuple(rng.sample(range(N_), 2)) for _ in range(6)]
            for expr in ('a.involute()', 'a.conjugate()', '(~a)', 'a.reverse()', '(-a)', 'a.normsq()', '(a * b * ~a)', '(b - a.involute() * b)'):
                for pk_ in pats_:
                    directed.append((expr, pk_))
        # forms evaluated on a first argument that stores every blade (coefficient access by permuted spellings: nothing to read otherwise)
        for expr in cfg.get('full_operand_forms', []):
            directed.append((expr, tuple(range(2 ** alg.d))))
        # nested registered functions
        for expr, forced in [(e_, None) for e_ in todo] + directed:
            exprs.add(expr)
            f = _mk(expr, nargs)
            args = []
            for ai_ in range(nargs):
                ks = rand_keys(rng, alg, rng.choice(['sparse', 'perm', 'grade']))
                if forced is not None and ai_ == 0:
                    ks = forced
                if not ks:
                    ks = (0,)
                args.append(mv_from(alg, ks, frac_vals(rng, ks)))
            direct = _safe(lambda: f(*args))
            for mode in cfg.get('modes', ['numeric', 'symbolic']):
                out['evaluations'] += 1
                try:
                    rf = alg.register(f, symbolic=(mode == 'symbolic'))
                    got = ('value', rf(*args))
                except ZeroDivisionError:
                    got = ('raise', 'ZeroDivisionError')
                except Exception as e:
                    got = ('raise', type(e).__name__ + ':' + str(e)[:80])
                if direct[0] == 'raise':
                    continue            # f itself is outside its domain for these arguments
                dv = direct[1]
                from kingdon.multivector import MultiVector
                if not isinstance(dv, MultiVector):
                    dv = MultiVector.fromkeysvalues(alg, (0,), [dv])
                if got[0] == 'raise':
                    must_equal = not any(t in expr for t in cfg.get('may_raise_tokens', []))
                    rec = {'config': cfg, 'expr': expr, 'mode': mode, 'what': 'registered function raises where f returns',
                           'error': got[1], 'args': [showmv(a.keys(), a.values()) for a in args]}
                    if must_equal and len(out['failures']) < 400:
                        out['failures'].append(rec)
                    continue
                gv = got[1]
                if not isinstance(gv, MultiVector):
                    gv = MultiVector.fromkeysvalues(alg, (0,), [gv])
                if not _mv_close(gv, dv) and len(out['failures']) < 400:
                    out['failures'].append({'config': cfg, 'expr': expr, 'mode': mode, 'what': 'registered function returns a different multivector',
                                            'args': [showmv(a.keys(), a.values()) for a in args],
                                            'got': str(todict(gv))[:300], 'expected': str(todict(dv))[:300]})
            if len(out['samples']) < 4 and rng.random() < 0.05:
                out['samples'].append({'config': cfg, 'expr': expr, 'args': [showmv(a.keys(), a.values()) for a in args]})
    out['distinct'] = len(exprs)
    return out
