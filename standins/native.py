"""Native runner: executes the *real* kingdon package (from $KVC_REPO, default /repo) in /venv/bin/python.
Used (a) to replay counter-models of refuted obligations against the real code and (b) for the bounded
stand-ins (tables, symcoef, histories ...).  Reads a JSON job from the file given as argv[1], writes JSON to argv[2].
Every job kind returns {'evaluations': n, 'distinct': n, 'failures': [...], 'samples': [...], ...}."""
import sys
import os
import json
import random
import itertools
import traceback
import warnings
from fractions import Fraction as F

REPO = os.environ.get('KVC_REPO', '/repo')
sys.path.insert(0, REPO)
sys.path.insert(0, os.path.dirname(os.path.dirname(os.path.abspath(__file__))))
warnings.simplefilter('ignore')

from standins import oracle as O      # noqa: E402
from standins.oracle import Poly      # noqa: E402


def make_algebra(cfg):
    from kingdon import Algebra
    kw = {}
    for k in ('p', 'q', 'r', 'start_index', 'basis', 'cse', 'graded', 'pretty_blade'):
        if k in cfg and cfg[k] is not None:
            kw[k] = cfg[k]
    if cfg.get('signature') is not None:
        kw['signature'] = list(cfg['signature'])
        for k in ('p', 'q', 'r'):
            kw.pop(k, None)
    if cfg.get('wrapper') == 'identity':
        kw['wrapper'] = lambda f: f
    elif cfg.get('wrapper') == 'wraps':
        # a semantics-preserving decorator that returns a *new* callable (what numba.njit or functools.wraps-style decorators do)
        import functools

        def deco(f):
            @functools.wraps(f)
            def inner(*a, **k):
                return f(*a, **k)
            return inner
        kw['wrapper'] = deco
    if cfg.get('symbolcls') == 'sympy':
        import sympy
        kw['codegen_symbolcls'] = sympy.Symbol
    if cfg.get('name'):
        return Algebra.fromname(cfg['name'], **{k: v for k, v in kw.items() if k in ('cse', 'graded', 'wrapper', 'codegen_symbolcls', 'pretty_blade')})
    return Algebra(**kw)


def mv_from(alg, keys, vals):
    from kingdon.multivector import MultiVector
    return MultiVector.fromkeysvalues(alg, tuple(keys), list(vals))


def todict(mv):
    d = {}
    for k, v in zip(mv.keys(), mv.values()):
        d[k] = d.get(k, 0) + v
    return d


def show(v):
    return str(v)


def showmv(keys, vals):
    return {'keys': list(keys), 'values': [show(v) for v in vals]}


# ------------------------------------------------------------------ reference semantics of every operator
def ref_binary(fr, name, A, B):
    sig = fr.sig
    if name == 'gp': return O.gp(A, B, sig)
    if name == 'op': return O.op(A, B, sig)
    if name == 'ip': return O.ip(A, B, sig)
    if name == 'lc': return O.lc(A, B, sig)
    if name == 'rc': return O.rc(A, B, sig)
    if name == 'sp': return O.sp(A, B, sig)
    if name == 'cp': return O.cp(A, B, sig)
    if name == 'acp': return O.acp(A, B, sig)
    if name == 'add': return O.add(A, B)
    if name == 'sub': return O.add(A, B, -1)
    if name == 'rp': return fr.rp(A, B)
    if name == 'sw': return O.gp(O.gp(A, B, sig), O.rev(A), sig)
    if name == 'proj': return O.gp(O.ip(A, B, sig), O.rev(B), sig)
    raise KeyError(name)


def ref_unary(fr, name, A):
    sig = fr.sig
    if name == 'neg': return O.scale(A, -1)
    if name == 'reverse': return O.rev(A)
    if name == 'involute': return O.invo(A)
    if name == 'conjugate': return O.conj(A)
    if name == 'hodge': return fr.hodge(A)
    if name == 'unhodge': return fr.hodge(A, undual=True)
    if name == 'polarity': return fr.polarity(A)
    if name == 'unpolarity': return fr.polarity(A, undual=True)
    if name == 'normsq': return O.gp(A, O.rev(A), sig)
    raise KeyError(name)


BINARY = ['gp', 'op', 'ip', 'lc', 'rc', 'sp', 'cp', 'acp', 'add', 'sub', 'rp', 'sw', 'proj']
UNARY = ['neg', 'reverse', 'involute', 'conjugate', 'hodge', 'unhodge', 'polarity', 'unpolarity', 'normsq']


def rand_keys(rng, alg, mode=None):
    N = 2 ** alg.d
    mode = mode or rng.choice(['sparse', 'sparse', 'grade', 'perm', 'full', 'empty1'])
    if mode == 'empty1':
        n = rng.choice([0, 1])
        return tuple(rng.sample(range(N), min(n, N)))
    if mode == 'sparse':
        n = rng.randint(1, min(N, 4))
        return tuple(rng.sample(range(N), n))
    if mode == 'grade':
        gs = tuple(sorted(rng.sample(range(alg.d + 1), rng.randint(1, min(2, alg.d + 1)))))
        return tuple(alg.indices_for_grades[gs])
    if mode == 'perm':
        n = rng.randint(1, min(N, 6))
        ks = rng.sample(range(N), n)
        rng.shuffle(ks)
        return tuple(ks)
    if mode == 'full':
        ks = list(range(N)) if N <= 16 else rng.sample(range(N), 8)
        if rng.random() < 0.5:
            ks = list(alg.canon2bin.values()) if N <= 16 else ks
        return tuple(ks)
    raise KeyError(mode)


def poly_vals(prefix, keys):
    return [Poly.var(f'{prefix}{k}') for k in keys]


def frac_vals(rng, keys):
    return [F(rng.randint(-6, 6), rng.randint(1, 4)) for _ in keys]


# the user-level spelling of every operator (the properties are stated for a*b, a+b, ~a, a.lc(b), ..); run_case alternates
# between it and the algebra-level call alg.<name>(a, b), so that a fast path in either layer is exercised
USER_FORM = {
    'gp': lambda a, b: a * b, 'op': lambda a, b: a ^ b, 'ip': lambda a, b: a | b, 'rp': lambda a, b: a & b,
    'add': lambda a, b: a + b, 'sub': lambda a, b: a - b, 'sw': lambda a, b: a >> b, 'proj': lambda a, b: a @ b,
    'lc': lambda a, b: a.lc(b), 'rc': lambda a, b: a.rc(b), 'sp': lambda a, b: a.sp(b), 'cp': lambda a, b: a.cp(b),
    'acp': lambda a, b: a.acp(b), 'div': lambda a, b: a / b,
    'neg': lambda a: -a, 'reverse': lambda a: ~a, 'involute': lambda a: a.involute(), 'conjugate': lambda a: a.conjugate(),
    'hodge': lambda a: a.hodge(), 'unhodge': lambda a: a.unhodge(), 'polarity': lambda a: a.polarity(),
    'unpolarity': lambda a: a.unpolarity(), 'normsq': lambda a: a.normsq(), 'inv': lambda a: a.inv(),
}
_form_rng = random.Random(20260928)


def _call(alg, name, *ops):
    # user-level or algebra-level form, chosen without a period (a strict alternation would give every operator of a fixed
    # operator list the same form for ever)
    if name in USER_FORM and _form_rng.random() < 0.5:
        return USER_FORM[name](*ops)
    return getattr(alg, name)(*ops)


def run_case(alg, fr, name, ak, av, bk=None, bv=None):
    """Run the real operator in BOTH of its forms - the algebra-level call alg.<name>(a, b) and the user-level spelling (a * b,
    a - b, ~a, a.lc(b), ..) - and compare each with the reference; return (ok, record)."""
    forms = [('alg.' + name, lambda *ops: getattr(alg, name)(*ops))]
    if name in USER_FORM:
        forms.append(('infix/method', USER_FORM[name]))
    rec = {'op': name, 'a': showmv(ak, av)}
    if bk is not None:
        rec['b'] = showmv(bk, bv)
    A = fr.to_ref(ak, av)
    B = fr.to_ref(bk, bv) if bk is not None else None
    try:
        exp = ('value', ref_binary(fr, name, A, B) if bk is not None else ref_unary(fr, name, A))
    except ZeroDivisionError:
        exp = ('raise', 'ZeroDivisionError')
    for label, f in forms:
        a = mv_from(alg, ak, av)
        b = mv_from(alg, bk, bv) if bk is not None else None
        dup = False
        try:
            got_mv = f(a, b) if bk is not None else f(a)
            got = ('value', fr.mv_to_ref(got_mv))
            dup = len(set(got_mv.keys())) != len(got_mv.keys())
        except ZeroDivisionError:
            got = ('raise', 'ZeroDivisionError')
        except Exception as e:
            got = ('raise', type(e).__name__ + ': ' + str(e)[:200])
        ok = (got[0] == exp[0]) and (O.eq(got[1], exp[1]) if got[0] == 'value' else got[1] == exp[1]) and not dup
        if not ok:
            rec['form'] = label
            rec['got'] = {str(k): show(v) for k, v in got[1].items()} if got[0] == 'value' else got[1]
            rec['expected'] = {str(k): show(v) for k, v in exp[1].items()} if exp[0] == 'value' else exp[1]
            if dup:
                rec['note'] = 'result stores a blade twice'
            return False, rec
    return True, rec


# ------------------------------------------------------------------ job: tables (C01)
def job_tables(job):
    out = {'evaluations': 0, 'failures': [], 'samples': [], 'configs': 0}
    rng = random.Random(job.get('seed', 0))
    for cfg in job['configs']:
        try:
            alg = make_algebra(cfg)
            decoys = []
            if alg.d <= 4:
                # other algebras over the same generators, spelled differently, constructed afterwards in the same process: they must
                # get their own tables (tables are per algebra, not per metric); checked below like the algebra itself
                from kingdon import Algebra as _Alg
                names = list(alg.canon2bin)
                kw_ = dict(signature=[int(s_) for s_ in alg.signature], start_index=alg.start_index)
                for respell in (lambda n_: n_ if len(n_) <= 2 else 'e' + n_[:0:-1], lambda n_: 'e' + ''.join(sorted(n_[1:]))):
                    b_ = [respell(n_) for n_ in names]
                    if b_ != names:
                        try:
                            decoys.append((b_, _Alg(basis=b_, **kw_)))
                        except Exception:
                            pass
            fr = O.Frame(alg)
        except Exception as e:
            out['failures'].append({'config': cfg, 'error': 'construction: ' + repr(e)[:200]})
            continue
        out['configs'] += 1
        N = 2 ** alg.d
        if alg.d <= 6 and not cfg.get('sample_pairs'):
            pairs = itertools.product(range(N), repeat=2)
        else:
            pairs = [(rng.randrange(N), rng.randrange(N)) for _ in range(cfg.get('sample_pairs', 400))]
        nbad = 0
        for I, J in pairs:
            out['evaluations'] += 1
            exp = fr.o[I] * fr.o[J] * fr.o[I ^ J] * O.bsign(fr.pi[I], fr.pi[J], fr.sig)
            if fr.pi[I] ^ fr.pi[J] != fr.pi[I ^ J]:
                exp = None
            got = alg.signs[I, J]
            if exp is None or int(got) != exp:
                nbad += 1
                if nbad <= 3:
                    out['failures'].append({'config': cfg, 'what': 'signs', 'I': I, 'J': J,
                                            'names': [alg.bin2canon[I], alg.bin2canon[J]], 'got': int(got), 'expected': exp})
        for b_, dalg in decoys:
            frd = O.Frame(dalg)
            nbad_d = 0
            for I, J in itertools.product(range(N), repeat=2):
                out['evaluations'] += 1
                exp = frd.o[I] * frd.o[J] * frd.o[I ^ J] * O.bsign(frd.pi[I], frd.pi[J], frd.sig) if frd.pi[I] ^ frd.pi[J] == frd.pi[I ^ J] else None
                if exp is None or int(dalg.signs[I, J]) != exp:
                    nbad_d += 1
                    if nbad_d <= 2:
                        out['failures'].append({'config': dict(cfg, basis=b_), 'what': 'signs of an algebra constructed after another algebra over the same generators',
                                                'constructed_before': cfg, 'I': I, 'J': J, 'names': [dalg.bin2canon[I], dalg.bin2canon[J]],
                                                'got': int(dalg.signs[I, J]), 'expected': exp})
        # cayley is that same table
        if alg.d <= 4:
            for (eI, I), (eJ, J) in itertools.product(alg.canon2bin.items(), repeat=2):
                s = alg.signs[I, J]
                exp = '0' if s == 0 else (('-' if s == -1 else '') + alg.bin2canon[I ^ J])
                out['evaluations'] += 1
                if alg.cayley[eI, eJ] != exp:
                    out['failures'].append({'config': cfg, 'what': 'cayley', 'I': eI, 'J': eJ, 'got': alg.cayley[eI, eJ], 'expected': exp})
                    break
        # a blade named e_ij..k (any spelling, also one the basis does not list) is the ordered product e_i e_j .. e_k
        if alg.d <= 5:
            nb = 0
            for name in list(alg.canon2bin):
                gens = name[1:]
                out['evaluations'] += 1
                try:
                    unit = {k: v for k, v in todict(alg.blades[name]).items() if v != 0}
                except Exception as e:
                    unit = repr(e)[:80]
                if unit != {alg.canon2bin[name]: 1}:
                    nb += 1
                    if nb <= 3:
                        out['failures'].append({'config': cfg, 'what': 'the blade handed out for a canonical name is not the unit blade of that name',
                                                'name': name, 'got': str(unit), 'expected': str({alg.canon2bin[name]: 1})})
                if not 2 <= len(gens) <= 4 or alg.d > 4:
                    continue
                for perm in itertools.permutations(gens):
                    sp = 'e' + ''.join(perm)
                    out['evaluations'] += 1
                    try:
                        named = todict(alg.blades[sp])
                        prod = alg.blades['e' + perm[0]]
                        for c in perm[1:]:
                            prod = prod * alg.blades['e' + c]
                        want = {k: v for k, v in todict(prod).items() if v != 0}
                        named = {k: v for k, v in named.items() if v != 0}
                    except Exception as e:
                        named, want = repr(e)[:80], None
                    if named != want:
                        nb += 1
                        if nb <= 3:
                            out['failures'].append({'config': cfg, 'what': 'a blade named e_ij..k is not the ordered product e_i e_j .. e_k',
                                                    'spelling': sp, 'got': str(named), 'expected': str(want)})
        if len(out['samples']) < 3:
            out['samples'].append({'config': cfg, 'pairs_checked': 'all' if alg.d <= 6 else 'sampled', 'd': alg.d})
    return out


# ------------------------------------------------------------------ job: symcoef (C02-C06, C08, C13, C14)
def job_symcoef(job):
    rng = random.Random(job.get('seed', 0))
    out = {'evaluations': 0, 'failures': [], 'samples': [], 'patterns': set(), 'configs': 0}
    ops = job['ops']
    for cfg in job['configs']:
        try:
            alg = make_algebra(cfg)
            fr = O.Frame(alg)
        except Exception as e:
            out['failures'].append({'config': cfg, 'error': 'construction: ' + repr(e)[:200]})
            continue
        out['configs'] += 1
        N = 2 ** alg.d
        cases = []
        if cfg.get('exhaustive'):
            subsets = [s for n in range(N + 1) for s in itertools.permutations(range(N), n)]
            cases = [(a, b) for a in subsets for b in subsets]
            if len(cases) > cfg.get('max_cases', 5000):
                cases = rng.sample(cases, cfg.get('max_cases', 5000))
        for _ in range(cfg.get('random', 0)):
            if cfg.get('modes'):          # restrict the pattern kinds (large algebras: sparse operands only)
                cases.append((rand_keys(rng, alg, rng.choice(cfg['modes'])), rand_keys(rng, alg, rng.choice(cfg['modes']))))
            else:
                cases.append((rand_keys(rng, alg), rand_keys(rng, alg)))
        for ak, bk in cases:
            # rounds > 1: every operator is asked again for the same pattern after all the others have been generated (with a
            # wrapper the generated functions are resolved by name, so the names must not collide between operators)
            for name in list(ops) * cfg.get('rounds', 1):
                if cfg.get('graded') and False:
                    pass
                use_poly = name not in ('inv', 'div')
                av = poly_vals('a', ak) if use_poly else frac_vals(rng, ak)
                if name in BINARY:
                    bv = poly_vals('b', bk) if use_poly else frac_vals(rng, bk)
                    ok, rec = run_case(alg, fr, name, ak, av, bk, bv)
                    out['patterns'].add((json.dumps(cfg, sort_keys=True), name, ak, bk))
                else:
                    ok, rec = run_case(alg, fr, name, ak, av)
                    out['patterns'].add((json.dumps(cfg, sort_keys=True), name, ak))
                out['evaluations'] += 1
                if not ok:
                    rec['config'] = cfg
                    if len(out['failures']) < 400:
                        out['failures'].append(rec)
                elif len(out['samples']) < 4 and rng.random() < 0.01:
                    rec['config'] = cfg
                    out['samples'].append(rec)
    out['distinct'] = len(out['patterns'])
    del out['patterns']
    return out


# ------------------------------------------------------------------ job: replay of a single case
def job_case(job):
    alg = make_algebra(job['config'])
    fr = O.Frame(alg)

    def vals(spec, prefix, keys):
        if spec == 'poly':
            return poly_vals(prefix, keys)
        return [F(x) for x in spec]
    ak = job['a_keys']
    av = vals(job.get('a_vals', 'poly'), 'a', ak)
    if 'b_keys' in job:
        bk = job['b_keys']
        bv = vals(job.get('b_vals', 'poly'), 'b', bk)
        ok, rec = run_case(alg, fr, job['op'], ak, av, bk, bv)
    else:
        ok, rec = run_case(alg, fr, job['op'], ak, av)
    return {'evaluations': 1, 'failures': [] if ok else [rec], 'samples': [rec]}


JOBS = {'tables': job_tables, 'symcoef': job_symcoef, 'case': job_case}


def main():
    job = json.load(open(sys.argv[1]))
    try:
        mod = job.get('module')
        if mod:
            import importlib
            m = importlib.import_module(mod)
            res = getattr(m, 'job_' + job['kind'])(job)
        else:
            res = JOBS[job['kind']](job)
        res['status'] = 'ok'
    except Exception as e:
        res = {'status': 'crash', 'error': traceback.format_exc()[-2000:]}
    json.dump(res, open(sys.argv[2], 'w'), default=str)


if __name__ == '__main__':
    main()
