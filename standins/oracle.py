"""Concrete reference Clifford algebra (independent of kingdon) and exact polynomial coefficients.

The reference works over *generator masks*: bit g of a mask is generator g, whose square is sig[g].
A kingdon algebra is related to it only through its public naming: the blade named `e<c1><c2>..` is the
ordered product of the generators int(c,16) - start_index (C01: "a blade named e_ij..k equals the ordered
product e_i e_j .. e_k").  `Frame` computes, from the names alone, (orientation o(K), generator mask pi(K))
for every kingdon key K, and converts multivectors both ways.
"""
from fractions import Fraction
import itertools


def pc(x):
    return bin(x).count('1')


def reorder_sign(a, b):
    s = 0
    a >>= 1
    while a:
        s += pc(a & b)
        a >>= 1
    return -1 if s & 1 else 1


def bsign(a, b, sig):
    s = reorder_sign(a, b)
    m = a & b
    j = 0
    while m:
        if m & 1:
            s *= sig[j]
        m >>= 1
        j += 1
    return s


def gp(A, B, sig, filt=None):
    R = {}
    for ka, va in A.items():
        for kb, vb in B.items():
            k = ka ^ kb
            if filt and not filt(ka, kb, k):
                continue
            s = bsign(ka, kb, sig)
            if s == 0:
                continue
            t = va * vb
            R[k] = R.get(k, 0) + (t if s > 0 else -t)
    return R


def add(A, B, c=1):
    R = dict(A)
    for k, v in B.items():
        R[k] = R.get(k, 0) + (v if c == 1 else c * v)
    return R


def scale(A, c):
    return {k: c * v for k, v in A.items()}


def _g(f):
    return lambda ka, kb, k: f(pc(ka), pc(kb), pc(k))


def op(A, B, sig): return gp(A, B, sig, _g(lambda r, s, t: t == r + s))
def ip(A, B, sig): return gp(A, B, sig, _g(lambda r, s, t: t == abs(r - s)))
def lc(A, B, sig): return gp(A, B, sig, _g(lambda r, s, t: t == s - r))
def rc(A, B, sig): return gp(A, B, sig, _g(lambda r, s, t: t == r - s))
def sp(A, B, sig): return gp(A, B, sig, _g(lambda r, s, t: t == 0))


def cp(A, B, sig):
    return scale(add(gp(A, B, sig), gp(B, A, sig), -1), Fraction(1, 2))


def acp(A, B, sig):
    return scale(add(gp(A, B, sig), gp(B, A, sig), 1), Fraction(1, 2))


def rev(A): return {k: (-v if (pc(k) * (pc(k) - 1) // 2) % 2 else v) for k, v in A.items()}
def invo(A): return {k: (-v if pc(k) % 2 else v) for k, v in A.items()}
def conj(A): return {k: (-v if (pc(k) * (pc(k) + 1) // 2) % 2 else v) for k, v in A.items()}


def iszero(v):
    if isinstance(v, Poly):
        return not v.c
    try:
        import numpy as _np
        if isinstance(v, _np.ndarray):
            return not _np.any(v)
    except Exception:
        pass
    return v == 0


def pynum(v):
    """numpy scalars (fixed width) as python numbers, so that comparing never overflows or wraps inside the oracle"""
    try:
        import numpy as _np
        if isinstance(v, _np.generic):
            return v.item()
    except Exception:
        pass
    return v


def nz(A):
    return {k: pynum(v) for k, v in A.items() if not iszero(v)}


def eq(A, B):
    A, B = nz(A), nz(B)
    if set(A) != set(B):
        return False
    return all(iszero(A[k] - B[k]) for k in A)


class Frame:
    """Relates kingdon keys of one algebra to reference generator masks, using only the blade names."""

    def __init__(self, alg):
        self.alg = alg
        self.sig = [int(s) for s in alg.signature]
        self.d = len(self.sig)
        self.o = {}
        self.pi = {}
        for K, name in alg.bin2canon.items():
            sign, mask = 1, 0
            for c in name[1:]:
                g = int(c, 16) - alg.start_index
                s = bsign(mask, 1 << g, self.sig)
                # multiplying the ordered product so far by generator g on the right
                if mask & (1 << g):
                    raise ValueError(f'blade name {name} repeats a generator')
                sign *= s
                mask ^= (1 << g)
            self.o[K], self.pi[K] = sign, mask
        self.back = {m: K for K, m in self.pi.items()}
        self.full = (1 << self.d) - 1
        self.pssK = self.back[self.full]

    def to_ref(self, keys, values):
        R = {}
        for k, v in zip(keys, values):
            m = self.pi[k]
            t = v if self.o[k] > 0 else -v
            R[m] = R.get(m, 0) + t
        return R

    def mv_to_ref(self, mv):
        return self.to_ref(mv.keys(), mv.values())

    def blade(self, K):
        """reference image of the kingdon basis blade with key K"""
        return {self.pi[K]: self.o[K]}

    # ---- dualities in the algebra's own basis (C05)
    def hodge(self, A, undual=False):
        """hodge(E'_K) = s E'_{cK} with E'_K ^ hodge(E'_K) = E'_pss (pss = the algebra's named pseudoscalar);
        unhodge is the inverse map."""
        R = {}
        pss = self.blade(self.pssK)
        for m, v in A.items():
            K = self.back[m]
            cK = self.back[self.full ^ m]
            EK, EcK = self.blade(K), self.blade(cK)
            w = op(EK, EcK, self.sig)          # = +-pss-image
            s = w[self.full] * pss[self.full]   # EK ^ (s EcK) = pss  -> s = sign of w relative to pss  (values +-1)
            # A = sum v_m e_m ; e_m = o(K) E'_K
            coeff_on_EK = v * self.o[K]
            if not undual:
                img = scale(EcK, s * coeff_on_EK)
                tgt = self.pi[cK]
            else:
                # unhodge(E'_K) = t E'_{cK} with hodge(t E'_{cK}) = E'_K : hodge(E'_{cK}) = s' E'_K, t = s'
                w2 = op(EcK, EK, self.sig)
                s2 = w2[self.full] * pss[self.full]
                img = scale(EcK, s2 * coeff_on_EK)
            for k2, v2 in img.items():
                R[k2] = R.get(k2, 0) + v2
        return R

    def rp(self, A, B):
        return self.hodge(op(self.hodge(A), self.hodge(B), self.sig), undual=True)

    def pss_sq(self):
        P = self.blade(self.pssK)
        return gp(P, P, self.sig).get(0, 0)

    def polarity(self, A, undual=False):
        P = self.blade(self.pssK)
        if undual:
            return gp(A, P, self.sig)
        sq = self.pss_sq()
        if sq == 0:
            raise ZeroDivisionError
        return gp(A, scale(P, sq), self.sig)      # pss^-1 = pss / pss^2 = pss * pss^2 (pss^2 = +-1)


# ------------------------------------------------------------------ exact multivariate polynomials
class Poly:
    """Polynomial in Q[x1,...]: dict monomial -> Fraction, monomial = sorted tuple of (var, exp)."""
    __slots__ = ('c',)
    __array_priority__ = 1000

    def __init__(self, c=None):
        self.c = c or {}

    @staticmethod
    def var(name):
        return Poly({((name, 1),): Fraction(1)})

    @staticmethod
    def const(v):
        v = Fraction(v)
        return Poly({(): v} if v else {})

    @staticmethod
    def lift(o):
        if isinstance(o, Poly):
            return o
        if isinstance(o, (int, Fraction)):
            return Poly.const(o)
        if isinstance(o, float) and o == int(o):
            return Poly.const(int(o))
        if isinstance(o, float):
            return Poly.const(Fraction(o))
        return None

    def __add__(self, o):
        o = Poly.lift(o)
        if o is None:
            return NotImplemented
        r = dict(self.c)
        for m, v in o.c.items():
            t = r.get(m, 0) + v
            if t:
                r[m] = t
            else:
                r.pop(m, None)
        return Poly(r)

    __radd__ = __add__

    def __neg__(self):
        return Poly({m: -v for m, v in self.c.items()})

    def __pos__(self):
        return self

    def __sub__(self, o):
        o = Poly.lift(o)
        if o is None:
            return NotImplemented
        return self + (-o)

    def __rsub__(self, o):
        o = Poly.lift(o)
        if o is None:
            return NotImplemented
        return o + (-self)

    def __mul__(self, o):
        o = Poly.lift(o)
        if o is None:
            return NotImplemented
        r = {}
        for m1, v1 in self.c.items():
            for m2, v2 in o.c.items():
                d = dict(m1)
                for x, e in m2:
                    d[x] = d.get(x, 0) + e
                m = tuple(sorted(d.items()))
                t = r.get(m, 0) + v1 * v2
                if t:
                    r[m] = t
                else:
                    r.pop(m, None)
        return Poly(r)

    __rmul__ = __mul__

    def __truediv__(self, o):
        if isinstance(o, (int, Fraction)):
            return self * Fraction(1, 1) * (Fraction(1) / Fraction(o))
        if isinstance(o, float):
            return self * (Fraction(1) / Fraction(o))
        return NotImplemented

    def __pow__(self, n):
        if not isinstance(n, int) or n < 0:
            return NotImplemented
        r = Poly.const(1)
        for _ in range(n):
            r = r * self
        return r

    def __eq__(self, o):
        o = Poly.lift(o)
        if o is None:
            return False
        return self.c == o.c

    def __ne__(self, o):
        return not self.__eq__(o)

    def __hash__(self):
        return hash(tuple(sorted(self.c.items())))

    def __bool__(self):
        return bool(self.c)

    def __repr__(self):
        if not self.c:
            return '0'
        out = []
        for m, v in sorted(self.c.items()):
            mon = '*'.join(x if e == 1 else f'{x}^{e}' for x, e in m)
            out.append(f'{v}' + (f'*{mon}' if mon else ''))
        return ' + '.join(out)

    def subs(self, env):
        tot = Fraction(0)
        for m, v in self.c.items():
            t = v
            for x, e in m:
                t *= Fraction(env[x]) ** e
            tot += t
        return tot
